"""Registry of Kani harnesses (single source of truth).

`python3 lib/gen.py` generates from it:
  kani/src/harnesses_gen.rs      the #[kani::proof] wrappers with their stub attributes
  kani/incrate/dispatch_gen.rs   name -> body dispatch used by the native replay binary

Fields: name; body (path below iroh_docs::verif_incrate, with generics, `S` = the draw source);
props (a harness may serve several properties); tier; unwind (default bound for all loops);
unwindset {regex over `rust::path::of::fn.N` or C name: bound} — bounds are derived from the code
(DESIGN.md §3.6): memcmp = longest compared slice + 1, increment_by_one = 32-byte id + 1, ...
Unwinding assertions stay on: a bound that is too small is INCONCLUSIVE, never success.
stubs: names of stub sets in STUBS (every stub is part of the claim)."""

STUBS = {
    # bytes::Bytes reference counting through a vtable: no-op drop / deep-copy clone
    "bytes": [
        ("<bytes::Bytes as core::ops::Drop>::drop", "crate::env::bytes_drop"),
        ("<bytes::Bytes as core::clone::Clone>::clone", "crate::env::bytes_clone"),
    ],
    # tracing needs a thread_local dispatcher (Kani ICE): never interested / disabled / no-op
    "tracing": [
        ("tracing_core::callsite::DefaultCallsite::interest", "crate::env::tracing_interest"),
        ("tracing::__macro_support::__is_enabled", "crate::env::tracing_is_enabled"),
        ("tracing_core::event::Event::dispatch", "crate::env::tracing_dispatch"),
        ("tracing_core::dispatcher::has_been_set", "crate::env::tracing_has_been_set"),
    ],
    # anyhow captures a backtrace (getenv): disabled
    "backtrace": [("std::backtrace::Backtrace::capture", "crate::env::backtrace_disabled"),
                  ("n0_error::backtrace_enabled", "crate::env::n0_backtrace_enabled"),
                  ("<anyhow::Error as core::ops::Drop>::drop", "crate::env::anyhow_drop"),
                  ("<anyhow::Error as core::fmt::Debug>::fmt", "crate::env::anyhow_fmt"),
                  ("<anyhow::Error as core::fmt::Display>::fmt", "crate::env::anyhow_fmt"),
                  ("<std::backtrace::Backtrace as core::fmt::Debug>::fmt", "crate::env::backtrace_fmt"),
                  ("<std::backtrace::Backtrace as core::fmt::Display>::fmt", "crate::env::backtrace_fmt")],
    # ideal signature scheme (DESIGN.md §3.3): ed25519 trusted, glue verified
    "crypto": [
        ("iroh::PublicKey::from_bytes", "iroh_docs::verif_incrate::crypto::pk_from_bytes"),
        ("iroh::PublicKey::verify", "iroh_docs::verif_incrate::crypto::pk_verify"),
        ("iroh::SecretKey::from_bytes", "iroh_docs::verif_incrate::crypto::sk_from_bytes"),
        ("iroh::SecretKey::to_bytes", "iroh_docs::verif_incrate::crypto::sk_to_bytes"),
        ("iroh::SecretKey::public", "iroh_docs::verif_incrate::crypto::sk_public"),
    ],
    # wall clocks: thread_local / clock_gettime
    "time": [("tokio::time::Instant::now", "crate::env::tokio_instant_now"),
             ("std::time::SystemTime::now", "crate::env::system_time_now")],
    # error messages built with format! (not the subject of any property)
    "fmt": [("alloc::fmt::format", "crate::env::fmt_format")],
    # wall clock controlled by the harness body (store harnesses)
    "clock": [("tokio::time::Instant::now", "crate::env::tokio_instant_now"),
              ("std::time::SystemTime::now", "iroh_docs::verif_incrate::store_fs::clock_now")],
    # HashMap/HashSet seeds
    "hashseed": [("std::hash::RandomState::new", "crate::env::random_state_new")],
    # Fingerprint::empty() = blake3::hash(b"")
    "blake3empty": [("blake3::hash", "crate::env::blake3_hash_empty")],
    # blake3 hasher as a logging model (ideal hash)
    "hasher": [("blake3::Hasher::new", "iroh_docs::verif_incrate::crypto::hasher_new"),
               ("blake3::Hasher::update", "iroh_docs::verif_incrate::crypto::hasher_update"),
               ("blake3::Hasher::finalize", "iroh_docs::verif_incrate::crypto::hasher_finalize")],
    # blake3::Hash equality is constant_time_eq_32 (inline asm): plain comparison
    "cteq": [("constant_time_eq::constant_time_eq_32", "crate::env::ct_eq_32")],
}
DEFAULT_STUBS = ["bytes", "tracing", "backtrace"]

HARNESSES = []
META = {}


def h(name, body, props, tier="quick", unwind=4, unwindset=None, stubs=None, **kw):
    if name.startswith("heads_") or name == "open_replicas_step":
        # B-tree / hash map backed kernels: intractable for CBMC (measured, DESIGN.md §10.3); run by no tier
        tier = "off_generated"
    if name.startswith("e2_"):
        # E2 (real storage layer over the redb model) missed its kill criterion (DESIGN.md §10.3):
        # the harnesses stay in the tree for the record but are run by no tier
        tier = "off"
        kw["cap"] = 5400
        kw["mem_gb"] = 40
    d = dict(name=name, body=body, props=props if isinstance(props, list) else [props], tier=tier, unwind=unwind,
             unwindset=unwindset or {}, stubs=(stubs if stubs is not None else DEFAULT_STUBS))
    d.update(kw)
    HARNESSES.append(d)


# =============================================================================================
# bounds kernel (E1): C02, C05, C08, C16 — the ranges handed to redb contain exactly the right ids
# =============================================================================================
UW_ID = {r"^memcmp\.0$": 34, r"bounds::increment_by_one\.0": 34, r"bounds::prefix_successor\.0": 5}
BOUNDS_PROPS = ["C02", "C05", "C08", "C16"]
def bounds_family(fam, body, props, insts):
    """quick: tail-symbolic ids (fill byte + 2 free bytes); thorough adds the fully symbolic ids."""
    for a, b, tier in insts:
        h("%s_%d_%d" % (fam, a, b), "store_fs::%s::<S, %d, %d, false>" % (body, a, b), props, tier, unwindset=UW_ID, family=fam)
        h("%s_%d_%d_full" % (fam, a, b), "store_fs::%s::<S, %d, %d, true>" % (body, a, b), props, "thorough", unwindset=UW_ID, family=fam)


# (prefix len, key len)
bounds_family("bounds_author_prefix", "bounds_author_prefix", ["C02", "C05"],
              [(0, 1, "quick"), (1, 1, "quick"), (1, 2, "quick"), (2, 1, "quick"), (2, 2, "quick"), (3, 1, "quick"), (3, 3, "quick"), (2, 3, "thorough"), (3, 2, "thorough")])
bounds_family("bounds_author_key", "bounds_author_key", ["C05"], [(1, 1, "quick"), (1, 2, "quick"), (0, 1, "quick"), (0, 0, "quick"), (2, 2, "thorough")])
# (candidate key len, bound key len)
bounds_family("bounds_namespace", "bounds_namespace", ["C08", "C16", "C05"], [(1, 1, "quick"), (0, 1, "quick"), (1, 0, "quick"), (2, 1, "thorough")])
bounds_family("bounds_clamp", "bounds_clamp", ["C08", "C01"], [(1, 1, "quick"), (0, 1, "quick"), (1, 0, "quick"), (2, 1, "thorough")])
bounds_family("bounds_bykey", "bounds_bykey", ["C05", "C16"], [(0, 1, "quick"), (1, 1, "quick"), (1, 2, "quick"), (2, 1, "quick"), (3, 1, "quick"), (2, 2, "thorough")])

# =============================================================================================
# generic ranger code over the light instantiation L (E1): C02 put law
# =============================================================================================
h("put_step_n3", "ranger_l::put_step::<S, 3>", ["C02", "C01"], "quick", unwind=9, family="put_step")
h("put_step_n4", "ranger_l::put_step::<S, 4>", ["C02", "C01"], "quick", unwind=9, family="put_step")
h("put_commute_n4", "ranger_l::put_commute::<S, 4>", ["C02"], "quick", unwind=9, family="put_commute")
PM_STUBS = DEFAULT_STUBS + ["cteq", "blake3empty"]
# process_message is expensive for CBMC's symbolic execution (pointer value sets over Vec<MessagePart>): thorough tier only
# process_message over L: measured, never finishes symbolic execution (N=3: 5400 s cap twice; N=2,V=1,have_local: > 20 min with
# tight unwindsets; the message's Vecs lose their constant lengths/flags when moved through realloc/memcpy, so both branches of
# every loop and of have_local are explored).  Replaced by the E3 queries pm_item_loop / pm_fingerprint_gate over the real
# generic coroutine (mirsmt/queries.py).  Bodies stay for native replay only.
PM_UW = {r"process_message.*\{closure#0\}\.\d+$": 3, r"Iterator>::any::<": 3, r"LIter as .*Iterator>::next": 8, r"Iterator>::try_fold": 8}
h("pm_item_step_n2_v1_hl", "ranger_l::pm_item_step::<S, 2, 1, 1>", ["C01", "C03", "C12"], "off", unwind=9, stubs=PM_STUBS, family="pm_item_step", cap=3600, mem_gb=40)
h("pm_item_step_n2_v1_hl_uw", "ranger_l::pm_item_step::<S, 2, 1, 1>", ["C01", "C03", "C12"], "off", unwind=9, unwindset=PM_UW, stubs=PM_STUBS, family="pm_item_step", cap=3600, mem_gb=40)
h("pm_item_step_n3_v1_hl", "ranger_l::pm_item_step::<S, 3, 1, 1>", ["C01", "C03", "C12"], "off", unwind=9, stubs=PM_STUBS, family="pm_item_step", cap=5400, mem_gb=40)
h("pm_item_step_n3_v2_hl", "ranger_l::pm_item_step::<S, 3, 2, 1>", ["C01", "C03", "C12"], "off", unwind=9, stubs=PM_STUBS, family="pm_item_step", cap=5400, mem_gb=40)
h("pm_item_step_n3_v1", "ranger_l::pm_item_step::<S, 3, 1, 2>", ["C01", "C03", "C12"], "off", unwind=9, stubs=PM_STUBS, family="pm_item_step", cap=5400, mem_gb=40)
h("pm_item_step_n4_v2", "ranger_l::pm_item_step::<S, 4, 2, 2>", ["C01", "C03", "C12"], "off", unwind=9, stubs=PM_STUBS, family="pm_item_step", cap=5400, mem_gb=40)
h("pm_init_and_silence_n2", "ranger_l::pm_init_and_silence::<S, 2>", ["C01"], "off", unwind=9, unwindset={r"BitXorAssign>::bitxor_assign\.0": 34, r"^memcmp\.0$": 34}, stubs=PM_STUBS, family="pm_init_and_silence", cap=5400, mem_gb=40)
h("put_commute_n5", "ranger_l::put_commute::<S, 5>", ["C02"], "thorough", unwind=9, family="put_commute")

# =============================================================================================
# sync.rs kernels (E1): C03 validation, C01 S1-S2 orders, C07 capabilities, C09 layouts
# =============================================================================================
SYNC_STUBS = DEFAULT_STUBS + ["crypto", "cteq"]
UW_MSG = {r"^memcmp\.0$": 122}
for kh, ke, tier in [(1, 1, "quick"), (0, 1, "quick"), (2, 1, "thorough"), (2, 2, "thorough")]:
    h("validate_entry_accepts_%d_%d" % (kh, ke), "sync::validate_entry_accepts::<S, %d, %d>" % (kh, ke), ["C03"], tier,
      unwind=5, unwindset=UW_MSG, stubs=SYNC_STUBS, family="validate_entry_accepts")
h("validate_empty_table", "sync::validate_empty_table::<S>", ["C03"], "quick", unwind=4, unwindset={r"^memcmp\.0$": 34}, stubs=SYNC_STUBS)
for k in (0, 2):
    h("entry_encode_layout_%d" % k, "sync::entry_encode_layout::<S, %d>" % k, ["C03", "C09", "C01"], "quick", unwind=4,
      unwindset=UW_MSG, stubs=SYNC_STUBS, family="entry_encode_layout")
h("record_order", "sync::record_order::<S>", ["C01", "C02", "C08"], "quick", unwind=4, unwindset={r"^memcmp\.0$": 34}, stubs=SYNC_STUBS)
for k1, k2, tier in [(1, 1, "quick"), (1, 2, "quick"), (0, 1, "quick"), (2, 2, "thorough")]:
    h("record_id_order_%d_%d" % (k1, k2), "sync::record_id_order::<S, %d, %d>" % (k1, k2), ["C01", "C08"], tier, unwind=4,
      unwindset={r"^memcmp\.0$": 68}, stubs=SYNC_STUBS, family="record_id_order")
for k in (0, 2):
    h("fingerprint_input_%d" % k, "sync::fingerprint_input::<S, %d>" % k, ["C01", "C08"], "quick", unwind=4,
      unwindset={r"^memcmp\.0$": 122, r"crypto::hasher_update\.0": 112, r"blake3::Hasher::update\.0": 112}, stubs=SYNC_STUBS + ["hasher"], family="fingerprint_input", kani_only=True, witness="fp")
h("capability_merge", "sync::capability_merge::<S>", ["C07"], "quick", unwind=4, unwindset={r"^memcmp\.0$": 34, r"crypto::ideal_public\.0": 33, r"zeroize::Zeroize>::zeroize\.0": 34}, stubs=SYNC_STUBS)
h("capability_raw_roundtrip", "sync::capability_raw_roundtrip::<S>", ["C07", "C09"], "quick", unwind=4,
  unwindset={r"^memcmp\.0$": 34, r"crypto::ideal_public\.0": 33, r"zeroize::Zeroize>::zeroize\.0": 34}, stubs=SYNC_STUBS)

# =============================================================================================
# C11: two-node product over the real PeerState transition functions (E1)
# =============================================================================================
C11_STUBS = DEFAULT_STUBS + ["time"]
UW_C11 = {r"^memcmp\.0$": 34}
for fam in ("single_dial", "not_syncing"):
    h("c11_" + fam, "engine_state::c11_%s::<S>" % fam, ["C11"], "quick", unwind=4, unwindset=UW_C11, stubs=C11_STUBS, family="c11_" + fam)
h("c11_resync", "engine_state::c11_resync::<S, false>", ["C11"], "quick", unwind=4, unwindset=UW_C11, stubs=C11_STUBS, family="c11_resync")
# the session ends with an ERROR on both sides (anyhow errors are expensive for CBMC: two of them here)
h("c11_resync_failed", "engine_state::c11_resync::<S, true>", ["C11"], "quick", unwind=4, unwindset=UW_C11, stubs=C11_STUBS, family="c11_resync", cap=900)
for f in (False, True):
    h("c11_redial_race_%d" % f, "engine_state::c11_redial_race::<S, %s>" % str(f).lower(), ["C11"], "quick", unwind=4,
      unwindset=UW_C11, stubs=C11_STUBS, family="c11_redial_race")
# simultaneous dial: flag bits, see the body; meaningless combinations skipped
for F in range(32):
    xy_lost, yx_lost, y_first, x_early, yacc_early = F & 1, F & 2, F & 4, F & 8, F & 16
    if y_first and not yx_lost:
        continue
    if yacc_early and xy_lost:
        continue
    quick = F in (0, 1, 2, 3, 8, 9, 6, 16, 24)
    h("c11_simultaneous_dial_f%02d" % F, "engine_state::c11_simultaneous_dial::<S, %d>" % F, ["C11"], "quick" if quick else "thorough",
      unwind=4, unwindset=UW_C11, stubs=C11_STUBS, family="c11_simultaneous_dial")
h("c11_crossing_failed_dial", "engine_state::c11_crossing_failed_dial::<S>", ["C11"], "quick", unwind=4, unwindset=UW_C11, stubs=C11_STUBS, family="c11_crossing_failed_dial")
h("c11_scheduler_k4", "engine_state::c11_scheduler::<S, 4>", ["C11"], "thorough", unwind=6, unwindset=UW_C11,
  stubs=C11_STUBS, family="c11_scheduler", mem_gb=24)

# =============================================================================================
# public-item kernels (E1): C15 policies, C13 heads, C09 decoders
# =============================================================================================
K_STUBS = DEFAULT_STUBS + ["cteq", "fmt"]
for f1, f2, k, nf, tier in [(1, 0, 2, 1, "quick"), (2, 1, 2, 2, "quick"), (1, 2, 3, 2, "thorough"), (0, 0, 0, 0, "quick"), (0, 1, 1, 2, "quick")]:
    h("policy_matches_%d_%d_%d_n%d" % (f1, f2, k, nf), "kernels::policy_matches::<S, %d, %d, %d, %d>" % (f1, f2, k, nf), ["C15", "C12"], tier,
      unwind=4, unwindset={r"^memcmp\.0$": 5}, stubs=DEFAULT_STUBS + ["cteq"], family="policy_matches")
h("policy_matches_marker_1_2", "kernels::policy_matches_marker::<S, 1, 2>", ["C12", "C15"], "quick", unwind=4, unwindset={r"^memcmp\.0$": 34}, stubs=DEFAULT_STUBS + ["cteq"], family="policy_matches_marker")
for f, tier in [(0, "thorough"), (1, "thorough"), (2, "thorough")]:
    h("filter_text_roundtrip_%d" % f, "kernels::filter_text_roundtrip::<S, %d>" % f, ["C15", "C09"], tier,
      unwind=16, stubs=DEFAULT_STUBS, family="filter_text_roundtrip", cap=1200)
for n, tier in [(6, "thorough"), (9, "thorough")]:
    h("filter_from_str_total_%d" % n, "kernels::filter_from_str_total::<S, %d>" % n, ["C15", "C09"], tier,
      unwind=16, stubs=DEFAULT_STUBS, family="filter_from_str_total", cap=1800)
HEADS_UW = {r"^memcmp\.0$": 34}
h("heads_news_1", "kernels::heads_news_1::<S>", ["C13"], "quick", unwind=5, unwindset=HEADS_UW, stubs=DEFAULT_STUBS, cap=1500, mem_gb=20, family="heads_news")
h("heads_news_2", "kernels::heads_news_2::<S>", ["C13"], "thorough", unwind=5, unwindset=HEADS_UW, stubs=DEFAULT_STUBS, cap=3600, mem_gb=40, family="heads_news")
h("heads_encode_roundtrip_nolimit", "kernels::heads_encode_roundtrip::<S, false>", ["C13", "C09"], "quick", unwind=12, unwindset=HEADS_UW,
  stubs=DEFAULT_STUBS, family="heads_encode_roundtrip", cap=1500, mem_gb=20)
h("heads_encode_roundtrip_limit", "kernels::heads_encode_roundtrip::<S, true>", ["C13", "C09"], "thorough", unwind=12, unwindset=HEADS_UW,
  stubs=DEFAULT_STUBS, family="heads_encode_roundtrip", cap=3000, mem_gb=20)
for n, tier in [(3, "thorough"), (12, "thorough")]:
    h("heads_decode_total_%d" % n, "kernels::heads_decode_total::<S, %d>" % n, ["C09", "C13"], tier, unwind=14, unwindset=HEADS_UW,
      stubs=DEFAULT_STUBS, family="heads_decode_total", cap=1800, mem_gb=20)

h("open_replicas_step", "actor::open_replicas_step::<S>", ["C14"], "quick", unwind=6, unwindset={r"^memcmp\.0$": 34},
  stubs=DEFAULT_STUBS + ["hashseed", "time"], cap=1800, mem_gb=24)

# C09 framing / C10 sessions (net/codec.rs)
CODEC_STUBS = DEFAULT_STUBS + ["cteq", "time", "crypto"]
# n >= 4 (the length prefix is complete, the frame length becomes symbolic): 12 GB and no result after 20 min; the laws for
# longer buffers are decided by the E3 query c09_frame_decode (integer buffer lengths, every index checked against the length)
for n, tier in [(3, "quick"), (6, "thorough"), (8, "thorough")]:
    h("codec_decode_total_%d" % n, "net_codec::codec_decode_total::<S, %d>" % n, ["C09"], tier, unwind=12, stubs=CODEC_STUBS,
      family="codec_decode_total", cap=1500, mem_gb=20)
h("codec_abort_roundtrip", "net_codec::codec_abort_roundtrip::<S>", ["C09"], "thorough", unwind=12, stubs=CODEC_STUBS, cap=3600, mem_gb=30)
# two buffered frames: symbolic execution of BytesMut::extend_from_slice + two postcard decodes did not finish in 15 min (even with a
# concrete split point); the same law is decided by the E3 query c09_frame_decode (integer buffer lengths).  Kept for native replay only.
for hv in (6, 2):
    h("codec_back_to_back_%d" % hv, "net_codec::codec_back_to_back::<S, %d>" % hv, ["C09"], "off", unwind=12, stubs=CODEC_STUBS, family="codec_back_to_back", cap=900, mem_gb=20)
for sc, tier in [(0, "quick"), (1, "quick"), (2, "quick"), (3, "quick"), (4, "quick"), (5, "thorough")]:
    # kani-compiler 0.68 ICEs on the catch_unwind intrinsic reached through the drop glue of
    # std::thread::JoinHandle inside SyncHandle (DESIGN.md §10): kept for native witnesses, run by no tier
    h("bob_run_%d" % sc, "net_codec::bob_run::<S, %d>" % sc, ["C10"], "off", unwind=12, stubs=CODEC_STUBS, family="bob_run", cap=1800, mem_gb=24)
for pr in ("handle", "send", "framed"):
    h("probe_" + pr, "net_codec::probe_%s::<S>" % pr, ["C10"], "off", unwind=12, stubs=CODEC_STUBS)

# =============================================================================================
# E2: real storage layer over the redb model
# =============================================================================================
E2_STUBS = DEFAULT_STUBS + ["clock", "cteq", "crypto", "hashseed"]
UW_E2 = {r"^memcmp\.0$": 36, r"redb::State::find": 10, r"redb::TableNames": 10, r"redb::name_id": 24, r"bounds::increment_by_one\.0": 34,
         r"bounds::prefix_successor\.0": 5,
         # run_migration derives a log name from type_name::<F>() with str::split("::") (constant ~70-char string)
         r"str::pattern::": 80, r"str::iter::": 80, r"memchr": 80}
h("e2_probe", "store_fs::e2_probe::<S>", ["C02"], "thorough", unwind=6, unwindset=UW_E2, stubs=E2_STUBS, family="e2_probe", mem_gb=24, cap=900)
h("e2_mem", "store_fs::e2_mem::<S>", ["C02"], "thorough", unwind=6, unwindset=UW_E2, stubs=E2_STUBS, family="e2_probe", mem_gb=24, cap=900)
# (K1, K2, KE): indices into MENU = ["", "a", "a\xff", "a\xff\x00", "b", "ab", "\xff", "\xff\xff"]
for k1, k2, ke, tier in [(1, 5, 1, "quick"), (0, 1, 5, "quick"), (2, 4, 2, "quick"), (3, 2, 1, "thorough")]:
    h("e2_put_%d_%d_%d" % (k1, k2, ke), "store_fs::e2_put::<S, %d, %d, %d>" % (k1, k2, ke), ["C02", "C08"], tier, unwind=6,
      unwindset=UW_E2, stubs=E2_STUBS, family="e2_put", mem_gb=24, cap=1200)
for n, tier in [(0, "quick"), (2, "quick"), (5, "quick"), (4, "thorough"), (1, "thorough"), (3, "thorough")]:
    h("e2_peers_step_%d" % n, "store_fs::e2_peers_step::<S, %d>" % n, ["C17"], tier, unwind=8, unwindset=UW_E2, stubs=E2_STUBS,
      family="e2_peers_step", mem_gb=24, cap=1500)
h("e2_heads_after_put", "store_fs::e2_heads_after_put::<S>", ["C13"], "quick", unwind=6, unwindset=UW_E2, stubs=E2_STUBS, mem_gb=24, cap=1500)
for ff in (False, True):
    h("e2_remove_replica_%d" % ff, "store_fs::e2_remove_replica::<S, %s>" % str(ff).lower(), ["C16"], "quick", unwind=6, unwindset=UW_E2,
      stubs=E2_STUBS, family="e2_remove_replica", mem_gb=24, cap=1800)
for g, tier in [(0, "quick"), (1, "quick"), (2, "thorough"), (3, "thorough")]:
    h("selector_groups_%d" % g, "store_fs::selector_groups::<S, %d>" % g, ["C05"], tier, unwind=7, unwindset={r"^memcmp\.0$": 36},
      stubs=DEFAULT_STUBS + ["cteq"], family="selector_groups", mem_gb=24, cap=1500)
# parents()/get_exact() over a harness-defined records table (E1; Kani only)
for p1, p2, tier in [(0, 4, "quick"), (1, 0, "thorough"), (1, 5, "thorough"), (5, 1, "thorough")]:
    h("parents_law_%d_%d" % (p1, p2), "store_fs::parents_law::<S, %d, %d>" % (p1, p2), ["C02", "C08"], tier, unwind=6,
      unwindset={r"^memcmp\.0$": 36, r"swap_nonoverlapping": 40}, stubs=DEFAULT_STUBS + ["cteq"], family="parents_law", mem_gb=40, cap=1800, kani_only=True, witness="d1")

COMMON_ASSUMPTIONS = [
    "bytes::Bytes drop/clone replaced by no-op/deep copy (allocation lifetime abstracted; memory safety of `bytes` not claimed)",
    "tracing macros disabled by stubs (Kani cannot compile thread_local dispatch); anyhow backtrace capture disabled",
    "Kani models the dev profile (overflow checks and debug assertions on); native replay runs dev and (thorough) release",
]

E3ENG = "E3 mirsmt: nightly MIR dump of /repo's working tree (regenerated per run), symbolic execution of the loop-free bodies, z3 4.8 cross-checked with cvc5 1.0; native witness for sat"
KANI = "Kani 0.68 / CBMC 6.11 (cadical), unwinding assertions on, one cargo-kani process per harness; counterexamples re-run natively by /verif/replay"

META["C01"] = dict(
    engine=KANI + " + " + "E3 mirsmt (MIR -> SMT, z3 + cvc5) for the generic async process_message",
    functions=["ranger::Store::put (generic, over the light instantiation L)", "ranger::Store::process_message::{closure#0} (generic coroutine MIR: the per-entry loop of item parts, the gate of fingerprint parts)",
               "sync::Record::cmp", "sync::RecordIdentifier::cmp/new/accessors", "sync::Entry::encode", "SignedEntry::as_fingerprint input"],
    bounds="L: keys <= 2 bytes over all byte values, values u8, stores <= 3-4 entries; S: keys <= 2 bytes, all other fields full width; process_message: one loop iteration from the iterator's next() to the next one, all paths (callbacks, put, store errors symbolic), plus unbounded block-graph reachability across suspension points",
    outside="whole sessions (decided step-wise: one-step lemmas + induction on paper); the contents of replies (item diff, recursion anchor, range splitting) — the Kani harnesses over process_message on L never finish symbolic execution (DESIGN.md §10.3); file-backed store; sets larger than the bound",
    assumptions=COMMON_ASSUMPTIONS + ["ideal fingerprint on the L domain (one bit per element): no collisions inside the bound",
                                       "process_message queries: callbacks, put, get_fingerprint, Fingerprint::eq are uninterpreted (their results are free symbols); Vec::IntoIter yields the message's values in order"],
)
META["C03"] = dict(
    engine=KANI + " + " + E3ENG,
    functions=["sync::validate_entry", "sync::SignedEntry::verify", "sync::EntrySignature::verify", "sync::Entry::{encode,to_vec,validate_empty}",
               "keys::{NamespaceId,AuthorId}::public_key", "store::PublicKeyStore::{namespace_key,author_key}",
               "ranger::Store::process_message::{closure#0} validate_cb / put / on_insert gating (generic coroutine MIR, E3)"],
    bounds="key length of the honest entry and of the received entry in {0,1,2}; every other field, both signatures, the clock and the expected namespace fully symbolic; now < 2^62",
    outside="ed25519 itself (ideal signature scheme stub); the validate closure inside Replica::sync_process_message (async closure: not compilable by Kani; E3)",
    assumptions=COMMON_ASSUMPTIONS + ["iroh::PublicKey::{from_bytes,verify} replaced by an ideal signature scheme: verify succeeds iff (key, message, signature) is an honestly produced row; from_bytes fails exactly on the harness-chosen non-curve id",
                                       "n0_error call-site capture disabled"],
)
META["C07"] = dict(
    engine=KANI + " + " + E3ENG,
    functions=["sync::Capability::{merge,raw,from_raw,id,kind,secret_key}", "keys::NamespaceSecret::{from_bytes,to_bytes,id,public_key}"],
    bounds="all 32-byte ids/secrets fully symbolic; one merge step from an arbitrary pair of capabilities (sequences by induction on the one-step law)",
    outside="store/actor propagation of the merged capability (E2/E3), histories",
    assumptions=COMMON_ASSUMPTIONS + ["iroh::SecretKey::{from_bytes,to_bytes,public} stubbed as a unit: public key = injective function of the secret (bitwise complement)"],
)
META["C11"] = dict(
    engine=KANI + " + " + E3ENG,
    functions=["engine::live::LiveActor::on_sync_via_connect_finished (E3 reachability query over the coroutine MIR)",
               "engine::state::PeerState::{start_connect,accept_request,finish,abort_connect,set_sync_running}", "engine::state::expected_sync_direction",
               "engine::state::NamespaceStates::{accept_request,start_connect,is_syncing}"],
    bounds="two nodes with symbolic ids in either byte order, symbolic dial reasons; scenario families with concrete control flow: single dial (lost/accepted, either finish order), simultaneous dial (32 flag combinations: losses, early ends), re-dial racing the acceptor's bookkeeping, sync reports during a session (<= 2 per side), request for a document that is not syncing",
    outside="more than two overlapping dials per direction, more than two nodes, timers, the real network; the live.rs handler glue is mirrored in the harness (dial_ends) and not itself executed (async; E3)",
    assumptions=COMMON_ASSUMPTIONS + ["tokio Instant::now / SystemTime::now replaced by constants (only stored)",
                                       "PeerState starts Idle with a previous session result stored (a reachable state)"],
)
META["C13"] = dict(
    engine=E3ENG.replace("loop-free bodies", "bodies (loops over the head set unrolled over K symbolic heads)"),
    functions=["store::fs::StoreInstance::entry_put::{closure#0} (the write of records / by-key / latest-per-author rows)",
               "heads::AuthorHeads::has_news_for and its closure", "heads::AuthorHeads::encode and its closure"],
    bounds="entry_put: all paths, ghost head row absent or present with an arbitrary timestamp; has_news_for: K = 0..3 of our heads x every present/absent pattern of the peer's, comparisons symbolic; encode: K = 0..3 heads in every weak order of their timestamps (ties included), with and without a symbolic size limit (thorough: K <= 4)",
    outside="AuthorHeads::decode / merge / insert (postcard::from_bytes, BTreeMap entry API), migrations (C18), the gossip code that sends and compares the heads",
    assumptions=["redb Table::get/insert behave as documented (modelled by the ghost row)", "std BTreeMap / BTreeSet: ordered, insert replaces on an equal key, iteration in key order",
                 "postcard: serialized_size(items) equals the length of to_stdvec(items) and grows with every item",
                 "the `?`/match unpacking shapes of the lookup are the ones recognised by the query (otherwise: inconclusive)"],
)
META["C17"] = dict(
    engine=E3ENG.replace("loop-free bodies", "bodies (the two `for` loops over the peer row unrolled: the row iterator is a concrete window over K <= 5 rows; `len` folded as a constant)"),
    functions=["store::fs::Store::register_useful_peer::{closure#1} (the transaction closure: document check, scan of the peer row, refresh / insert / eviction)",
               "store::fs::Store::get_sync_peers", "store::PEERS_PER_DOC_CACHE_SIZE (read from the source; the specification constant is 5)"],
    bounds="one registration from an arbitrary invariant state: row length K = 0..5 (complete: the invariant bounds the row by five), peers pairwise distinct, which stored peer equals the registered one symbolic, document known/unknown symbolic; all paths of the closure; sequences by induction on the one-step law",
    outside="persistence across reopen (redb, trusted); storage errors (every redb call answers Ok); a wall clock that stands still or runs backwards between two registrations (the store orders peers by SystemTime nanoseconds)",
    assumptions=["redb multimap values iterate in ascending (time, peer) order; insert/remove do what their names say", "the new timestamp is greater than every stored one",
                 "the closure's captured variables are identified by their debug names (namespace, nanos, peer); otherwise: inconclusive"],
)
META["C18"] = dict(
    engine=E3ENG.replace("loop-free bodies", "bodies (the `for` loops over the records table and over the collected heads unrolled: the table iterator is a concrete window over K rows; counters folded)"),
    functions=["store::fs::migrations::migration_004_populate_by_key_index", "store::fs::migrations::migration_001_populate_latest_table and its closures {closure#0} (and_modify) and {closure#1} (or_insert_with)",
               "store::fs::migrations::run_migration", "store::fs::migrations::run_migrations"],
    bounds="records table of K rows in key order: K = 0..4 for the by-key index, K = 0..3 with every contiguous grouping into (namespace, author) pairs for the heads (timestamps symbolic under one total preorder, ties included); derived table empty / populated; all paths of the two drivers",
    outside="redb itself (open_table, is_empty, iter, insert, commit: modelled); the order in which std HashMap yields the collected heads (the inserts go to distinct keys, so they commute); migrations 002/003 (namespaces v1); larger tables (the bodies treat every row alike); storage errors",
    assumptions=["redb iterates a table in key order, so the rows of one (namespace, author) pair are contiguous", "a populated by-key index is consistent with the records table (it is maintained by every write: C02/C16 checks)",
                 "std HashMap entry API behaves as documented (and_modify runs the closure on the stored value iff the key is present; or_insert_with inserts iff absent)"],
)
META["C06"] = dict(
    engine=E3ENG + "; block-graph reachability (propositional, inductive-invariant encoding) for the generic ranger::Store::put",
    functions=["store::fs::Store::flush", "store::fs::Store::tables", "store::fs::Store::modify and its variants (thin wrappers followed with their constant arguments)",
               "ranger::Store::put (generic body: call order prune -> write)", "store::fs::StoreInstance::{remove_prefix_filtered, entry_put} (which store access each goes through)"],
    bounds="all paths of flush / tables / modify (transaction state None|Read|Write symbolic, age test symbolic, tracing side paths 'disabled'); the full block graph of put (unbounded: loops kept as cycles)",
    outside="redb's own crash recovery and durability (trusted, as in the property's anchors); operation histories (one access / one insert at a time); the actor's idle flush; `snapshot`/`snapshot_owned` (commit at operation boundaries only)",
    assumptions=["redb commit/begin_write/open_table answer Ok (storage errors outside)", "a crash image shows exactly the last committed transaction (redb)",
                 "native confirmation uses the guarded hook store::fs::verif_incrate::commit_age (feature verif) to make the open transaction look older than MAX_COMMIT_DELAY at a chosen access"],
)
META["C14"] = dict(
    engine="E3 mirsmt: nightly MIR dump of /repo's working tree (regenerated per run), symbolic execution of the loop-free bodies, z3 4.8 cross-checked with cvc5 1.0; native witness for sat",
    functions=["actor::OpenReplicas::open_with (91 MIR blocks)", "actor::OpenReplicas::close (184 MIR blocks)"],
    bounds="one step from an arbitrary state (entry occupied with arbitrary handles/sync, or vacant), all paths of the two bodies (tracing side paths answer 'disabled'); sequences by induction on the one-step laws",
    outside="the HashMap itself (entry API modelled: Occupied/Vacant, get_mut, insert, remove_entry), the per-action gating in on_replica_action (async closures), reply ordering, concurrent clients, shutdown hand-back (threads)",
    assumptions=["std HashMap entry API behaves as documented", "tracing/log macros have no effect on the state"],
)
META["C15"] = dict(
    engine=KANI,
    functions=["store::DownloadPolicy::matches", "store::FilterKind::{matches,fmt,from_str}"],
    bounds="<= 2 filters of <= 2 bytes, keys <= 3 bytes, all bytes symbolic (non-UTF-8 included); text round trip for filter bytes <= 1-2",
    outside="persistence of the policy (E2), longer filters/keys",
    assumptions=COMMON_ASSUMPTIONS,
)
META["C09"] = dict(
    engine=KANI,
    functions=["sync::Entry::encode", "sync::Capability::{raw,from_raw}", "heads::AuthorHeads::{encode,decode}", "store::FilterKind::{fmt,from_str}"],
    bounds="see the individual kernels: keys <= 2 bytes, heads of two authors, arbitrary decoder input of 3 and 12 bytes",
    outside="round trip of full protocol messages carrying signed entries, tickets, pinned snapshots (DESIGN.md §6)",
    assumptions=COMMON_ASSUMPTIONS,
)
for _p in ("C05", "C08", "C16"):
    META[_p] = dict(
        engine=KANI,
        functions=["store::fs::bounds::RecordsBounds::{author_key,author_prefix,namespace,from_start,to_end}", "store::fs::bounds::ByKeyBounds::{new,namespace}",
                   "store::fs::bounds::{increment_by_one,prefix_successor}"],
        bounds="prefix/filter key length 0..2, candidate key length 0..3, 32-byte ids: fill byte + 2 free tail bytes (quick) / all bytes free (thorough)",
        outside="the redb range scans themselves (E2 over the redb model), longer keys",
        assumptions=COMMON_ASSUMPTIONS,
    )
META["C10"] = dict(
    engine="E3 mirsmt: nightly MIR dump of /repo's working tree (regenerated per run) -> propositional reachability query over the real block graph, z3 4.8 cross-checked with cvc5 1.0; native witness for sat",
    functions=["net::codec::BobState::run (coroutine state machine MIR, 548 blocks)", "net::codec::BobState::into_outcome"],
    bounds="unbounded over the block graph (inductive-invariant encoding: exact for reachability of the tracked fact); abstraction: every branch condition free, one tracked fact `self.progress is Some`",
    outside="run_alice, frame-sequence handling, counter mirroring, store untouched on decline: need a SyncHandle, which Kani cannot compile (catch_unwind ICE)",
    assumptions=["suspension points resume at the block selected by the coroutine discriminant (taken from bb0's switch)",
                 "net::handle_connection calls into_outcome after run returned, whatever the result (read from src/net.rs)"],
)
META["C16"].update(dict(
    engine=KANI + " + " + E3ENG,
    functions=META["C16"]["functions"] + ["store::fs::Store::remove_replica and its transaction closure (E3)"],
))
META["C12"] = dict(
    engine=KANI + " + " + E3ENG,
    functions=["ranger::Store::process_message::{closure#0} on_insert contract (generic coroutine MIR, E3)", "sync::Replica::sync_process_message event closure (E3)", "store::DownloadPolicy::matches"],
    bounds="see C01/C15; the event closure: all paths",
    outside="Subscribers::send (async closures), the event construction closure in sync_process_message (E3), actor acknowledgement order",
    assumptions=COMMON_ASSUMPTIONS,
)

META["C02"] = dict(
    engine=KANI,
    functions=["ranger::Store::put (generic, L: one-step law from an arbitrary state, invariant preservation, commutativity, idempotence)",
               "store::fs::StoreInstance::{put,prefixes_of,remove_prefix_filtered,entry_put} over the redb model (E2)","store::fs::bounds::RecordsBounds::{author_prefix,author_key,as_ref}", "store::fs::bounds::increment_by_one",
               "<RecordsBounds as RangeBounds<RecordsIdOwned>>::contains"],
    bounds="prefix length 0..2, candidate key length 1..3 (one harness instance per length pair); namespace/author ids: all 32 bytes symbolic",
    outside="longer prefixes/keys (the code is length-uniform beyond the last byte); histories (one-step law + induction on paper)",
    assumptions=COMMON_ASSUMPTIONS + ["redb's tuple comparison equals Rust's lexicographic tuple order (validated by the redb model differential test)"],
)


# ---- third build session: what the evidence says about functions / bounds / outside for the properties that gained queries
def _meta_add(p, functions=None, bounds=None, outside=None, assumptions=None):
    m = META[p]
    if functions:
        m["functions"] = list(m["functions"]) + functions
    if bounds:
        m["bounds"] = m["bounds"] + "; " + bounds
    if outside is not None:
        m["outside"] = outside
    if assumptions:
        m["assumptions"] = list(m["assumptions"]) + assumptions


_meta_add("C01",
          functions=["ranger::Store::process_message::{closure#0} run from bb0 to its return (queries pm_fingerprint_reply, pm_item_reply) with {closure#0} (diff filter), {closure#0}::{closure#0} (any predicate), {closure#1..#2, #4} and their async blocks (content status), {closure#3} (pivot) and its three adaptors",
                     "ranger::Range::{x, y, is_all}", "store::fs::StoreInstance::{get_fingerprint, get_range, get_first} (queries c08_*)"],
          bounds="reply queries: every ORDER TYPE of (stored keys, x, y, received keys) with K <= 3 stored entries (thorough 4), split_factor 2..3 (thorough 4), <= 2 received values (K <= 2, thorough 3), max_set_size / key positions / probe key / value comparisons / fingerprints symbolic",
          outside="whole sessions (one message part per run; the store does not change while a fingerprint part is answered, put answers symbolically for item parts; sessions by induction on paper, sampled natively by witness c01session); an exact partition of the range is not required (redundant reply ranges cost traffic only); the file-backed store; larger sets",
          assumptions=["the generic store is modelled as the reference ordered map (get_range = the entries whose key lies in the range, in key order; get_fingerprint uninterpreted); Vec / iterators / FuturesOrdered are sequences; the content-status callback is an uninterpreted function of the entry",
                       "the code is generic over the key type and uses keys only through Ord / Eq / Clone, so the order type determines its control flow; every comparison taken concretely is re-proved from the order type by z3 + cvc5"])
_meta_add("C02",
          functions=["store::fs::StoreInstance::remove_prefix_filtered, its {closure#0} (transaction) and {closure#0}::{closure#0} (row adaptor) (query c02_remove_prefix)", "sync::Replica::insert::{closure#0}, sync::Replica::delete_prefix::{closure#0} (query local_writes)"],
          bounds="remove_prefix_filtered: K <= 3 rows inside the bounds, the predicate's answers symbolic; local writes: all paths (open / closed, with / without the write secret, length 0 / EMPTY hash)")
_meta_add("C05", functions=["store::util::<impl From<&Query> for IndexKind>::from, store::fs::query::QueryIterator::new (query c05_query_new)"], bounds="c05_query_new: 18 query shapes (kind x author filter x key filter), author and key symbolic")
_meta_add("C07", functions=["sync::Replica::insert / delete_prefix coroutines (query local_writes): no entry without the write secret"])
_meta_add("C08", functions=["store::fs::StoreInstance::{get_fingerprint, get_first, remove_prefix_filtered} (queries c08_get_fingerprint, c08_get_first, c02_remove_prefix)"], bounds="K <= 3 rows per scan (one may be a storage error)")
_meta_add("C12", functions=["sync::Subscribers::{send, send_with, subscribe, unsubscribe} with send's async closure and unsubscribe's retain predicate (query c12_subscribers)"],
          bounds="K <= 3 subscribers (thorough 4), each receiver alive or dropped",
          outside="the actor's acknowledgement ordering (threads); async_channel itself (send answers delivered / closed)")
_meta_add("C14", functions=["actor::OpenReplicas::{get_mut, ensure_open, is_open, replica, replica_if_syncing}", "every closure / async closure / async block of actor::Actor::on_replica_action (18 bodies, found by name)", "actor::Actor::close", "store::fs::Store::{tables, modify_impl} (query c06_txn_glue: a failing request keeps the open transaction)"],
          bounds="all paths of each accessor / handler body (document present or absent, sync flag, every accessor succeeding or failing, every await Ready)",
          outside="the HashMap itself (get_mut / contains_key / entry modelled); reply ordering, concurrent clients, shutdown hand-back (threads): a request queued behind Shutdown is never answered (seen, not decided)")
_meta_add("C16", functions=["store::fs::ContentHashesIterator::{all, next}, store::fs::Store::content_hashes (query c16_content_hashes)", "store::fs::Store::{load_replica_info, open_replica, close_replica, remove_replica} (query c16_open_guard)"],
          bounds="content_hashes: K <= 3 rows (one may be a storage error); open guard: all paths")
_meta_add("C06", functions=["store::fs::Store::modify_impl: the transaction slot after the caller's closure (Ok or Err)"], bounds="plus: durability-weakening calls on the shared transaction are flagged")
_meta_add("C03", functions=["MIR data flow of the clock value into validate_entry in Replica::sync_process_message::{closure#0} and Replica::insert_entry::{closure#0}"])
_meta_add("C10", functions=["net::codec::<impl Decoder for SyncCodec>::decode (assertions as obligations: query c09_frame_decode)"],
          outside="net::handle_connection / connect_and_sync (QUIC streams, tracing spans): seed r4_c10_c is missed there; healthy-actor sessions end to end (threads): sampled natively by witness c10steps")
_meta_add("C13", functions=["store::fs::migrations::migration_001_populate_latest_table (query c18_heads_rebuild, shared with C18)"])
_meta_add("C07", functions=["store::fs::Store::import_namespace and its {closure#0} (query c07_import_namespace)"], bounds="import: stored row absent / present / unparsable, merge outcome symbolic, all paths")
_meta_add("C08", functions=["store::fs::StoreInstance::prefixes_of, store::fs::ParentIterator::{new, next} (query c08_prefixes_of)"])
_meta_add("C10", functions=["net::handle_connection::{closure#0} and its close-error closures (MIR data flow, query c10_accept_report)"],
          outside="of net::handle_connection only the data flow into its close errors is decided (QUIC streams are not modelled; natively confirmed over loopback); connect_and_sync; healthy-actor sessions end to end (threads): sampled natively by witness c10steps")
_meta_add("C11", bounds="plus family c11_crossing_failed_dial (ids, reasons, report placement symbolic) and c11_resync_failed (both ends finish with an error)")
_meta_add("C13", functions=["heads::AuthorHeads::{insert, insert::{closure#0}, merge, decode}", "store::fs::LatestIterator::{new, next, next::{closure#0}}", "store::fs::Store::has_news_for_us (query c13_heads_api)"],
          bounds="heads API: author known / unknown, K <= 2 heads of the other set / decoded pairs / head rows",
          outside="postcard::from_bytes itself, the B-tree map (entry API modelled), the gossip code that sends and compares the heads")

_meta_add("C15", functions=["store::<impl Display for FilterKind>::fmt + store::<impl FromStr for FilterKind>::from_str composed over SMT strings (query c15_filter_text)"],
          bounds="c15_filter_text: filter bytes of ANY length and content (one symbolic SMT string), both variants, both encodings",
          assumptions=["hex::encode / hex::decode uninterpreted with the contract decode(encode(b)) = Ok(b); String::from_utf8 answers either way; the fmt template byte code of this toolchain (literal runs, 0xC0 = next argument) is decoded by the query, anything else is inconclusive; any other str -> str function the parser calls is uninterpreted (sat => native witness c15text)"])
_meta_add("C18", functions=["store::fs::Store::new_impl (query c18_open_runs_migrations)"])
_meta_add("C10", functions=["sync::Replica::sync_process_message::{closure#0} (async fn body, query c10_step_counts)"],
          bounds="c10_step_counts: incoming message with 0..2 values (the head-recording loop unrolled), engine answer Ok(None) / Ok(Some) / Err, counters symbolic",
          assumptions=["ranger::Message::value_count uninterpreted; counter arithmetic as uninterpreted plus / minus (overflow of a usize counter of in-memory messages out of scope)"])
_meta_add("C01", functions=["sync::Replica::sync_process_message::{closure#0}::{closure#0} (validate callback, query c03_reconcile_validation)", "store::fs::StoreInstance::remove_prefix_filtered (query c02_remove_prefix)",
                            "sync::Replica::sync_process_message::{closure#0} counters (query c10_step_counts)"])
_meta_add("C03", functions=["sync::Replica::insert_remote_entry::{closure#0} (async fn body, query c03_remote_insert)"])
_meta_add("C12", functions=["sync::Replica::insert_remote_entry::{closure#0} (query c03_remote_insert)", "store::DownloadPolicy::matches on a deletion marker (Kani policy_matches_marker_1_2)"])
_meta_add("C05", functions=["store::fs::StoreInstance::entry_put::{closure#0} (query c05_put_index)", "store::fs::StoreInstance::remove_prefix_filtered (query c02_remove_prefix: no other table is touched)"])
_meta_add("C08", functions=["store::fs::StoreInstance::entry_put::{closure#0} (query c05_put_index)"])
_meta_add("C14", functions=["MIR call graph of module actor: callers of store::fs::Store::close_replica (query c14_gating part D)"])
_meta_add("C07", functions=["store::fs::Store::{tables, modify_impl} (query c06_txn_glue)", "actor::Actor::close and the callers of Store::close_replica (query c14_gating parts C, D)"])
_meta_add("C11", functions=["net::codec::BobState::run (query c10_bob_steps: an allowed request is on record)"])
_meta_add("C08", functions=["store::fs::bounds::RecordsBounds::clamp_to_namespace (Kani bounds_clamp_*)"], bounds="c08_get_range: range end points anywhere in the id space (two passes: inside the document / anywhere)")
_meta_add("C01", functions=["store::fs::bounds::RecordsBounds::clamp_to_namespace (Kani bounds_clamp_*)", "store::fs::StoreInstance::get_range for peer-chosen end points (query c08_get_range)"])
_meta_add("C13", functions=["store::fs::Store::has_news_for_us executed over symbolic head rows (query c13_news_semantic)"], bounds="c13_news_semantic: K1 <= 3 own head rows x K2 <= 3 reported heads (thorough tier: <= 4 x <= 4), authors / timestamps symbolic integers")
_meta_add("C09", functions=["store::<impl FromStr for FilterKind>::from_str on an arbitrary SMT string (query c09_filter_from_str_total), Display/FromStr round trip (query c15_filter_text)"])
_meta_add("C16", functions=["actor::Actor::close (query c14_gating part C)", "store::fs::Store::register_useful_peer::{closure#0} (query c17_register_step)"])
