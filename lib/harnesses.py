"""Registry of Kani harnesses (single source of truth).

`python3 lib/gen.py` generates from it:
  kani/src/harnesses_gen.rs      the #[kani::proof] wrappers with their stub attributes
  kani/incrate/dispatch_gen.rs   name -> body dispatch used by the native replay binary

Fields: name; body (path below iroh_docs::verif_incrate, with generics, `S` = the draw source);
props (a harness may serve several properties); tier; unwind (default bound for all loops);
unwindset {regex over `rust::path::of::fn.N` or C name: bound} — bounds are derived from the code
(DESIGN.md §3.6): memcmp = longest compared slice + 1, increment_by_one = 32-byte id + 1, ...
Unwinding assertions stay on: a bound that is too small is INCONCLUSIVE, never success.
stubs: names of stub sets in STUBS (every stub is part of the claim)."""

STUBS = {
    # bytes::Bytes reference counting through a vtable: no-op drop / deep-copy clone
    "bytes": [
        ("<bytes::Bytes as core::ops::Drop>::drop", "crate::env::bytes_drop"),
        ("<bytes::Bytes as core::clone::Clone>::clone", "crate::env::bytes_clone"),
    ],
    # tracing needs a thread_local dispatcher (Kani ICE): never interested / disabled / no-op
    "tracing": [
        ("tracing_core::callsite::DefaultCallsite::interest", "crate::env::tracing_interest"),
        ("tracing::__macro_support::__is_enabled", "crate::env::tracing_is_enabled"),
        ("tracing_core::event::Event::dispatch", "crate::env::tracing_dispatch"),
        ("tracing_core::dispatcher::has_been_set", "crate::env::tracing_has_been_set"),
    ],
    # anyhow captures a backtrace (getenv): disabled
    "backtrace": [("std::backtrace::Backtrace::capture", "crate::env::backtrace_disabled"),
                  ("n0_error::backtrace_enabled", "crate::env::n0_backtrace_enabled"),
                  ("<anyhow::Error as core::ops::Drop>::drop", "crate::env::anyhow_drop")],
    # ideal signature scheme (DESIGN.md §3.3): ed25519 trusted, glue verified
    "crypto": [
        ("iroh::PublicKey::from_bytes", "iroh_docs::verif_incrate::crypto::pk_from_bytes"),
        ("iroh::PublicKey::verify", "iroh_docs::verif_incrate::crypto::pk_verify"),
        ("iroh::SecretKey::from_bytes", "iroh_docs::verif_incrate::crypto::sk_from_bytes"),
        ("iroh::SecretKey::to_bytes", "iroh_docs::verif_incrate::crypto::sk_to_bytes"),
        ("iroh::SecretKey::public", "iroh_docs::verif_incrate::crypto::sk_public"),
    ],
    # wall clocks: thread_local / clock_gettime
    "time": [("tokio::time::Instant::now", "crate::env::tokio_instant_now"),
             ("std::time::SystemTime::now", "crate::env::system_time_now")],
    # blake3::Hash equality is constant_time_eq_32 (inline asm): plain comparison
    "cteq": [("constant_time_eq::constant_time_eq_32", "crate::env::ct_eq_32")],
}
DEFAULT_STUBS = ["bytes", "tracing", "backtrace"]

HARNESSES = []
META = {}


def h(name, body, props, tier="quick", unwind=4, unwindset=None, stubs=None, **kw):
    d = dict(name=name, body=body, props=props if isinstance(props, list) else [props], tier=tier, unwind=unwind,
             unwindset=unwindset or {}, stubs=(stubs if stubs is not None else DEFAULT_STUBS))
    d.update(kw)
    HARNESSES.append(d)


# =============================================================================================
# bounds kernel (E1): C02, C05, C08, C16 — the ranges handed to redb contain exactly the right ids
# =============================================================================================
UW_ID = {r"^memcmp\.0$": 34, r"bounds::increment_by_one\.0": 34, r"bounds::prefix_successor\.0": 5}
BOUNDS_PROPS = ["C02", "C05", "C08", "C16"]
def bounds_family(fam, body, props, insts):
    """quick: tail-symbolic ids (fill byte + 2 free bytes); thorough adds the fully symbolic ids."""
    for a, b, tier in insts:
        h("%s_%d_%d" % (fam, a, b), "store_fs::%s::<S, %d, %d, false>" % (body, a, b), props, tier, unwindset=UW_ID, family=fam)
        h("%s_%d_%d_full" % (fam, a, b), "store_fs::%s::<S, %d, %d, true>" % (body, a, b), props, "thorough", unwindset=UW_ID, family=fam)


# (prefix len, key len)
bounds_family("bounds_author_prefix", "bounds_author_prefix", ["C02", "C05"],
              [(0, 1, "quick"), (1, 1, "quick"), (1, 2, "quick"), (2, 1, "quick"), (2, 2, "quick"), (2, 3, "thorough"), (3, 2, "thorough")])
bounds_family("bounds_author_key", "bounds_author_key", ["C05"], [(1, 1, "quick"), (1, 2, "quick"), (2, 2, "thorough")])
# (candidate key len, bound key len)
bounds_family("bounds_namespace", "bounds_namespace", ["C08", "C16", "C05"], [(1, 1, "quick"), (0, 1, "quick"), (1, 0, "quick"), (2, 1, "thorough")])
bounds_family("bounds_bykey", "bounds_bykey", ["C05", "C16"], [(0, 1, "quick"), (1, 1, "quick"), (1, 2, "quick"), (2, 1, "quick"), (2, 2, "thorough")])

# =============================================================================================
# generic ranger code over the light instantiation L (E1): C02 put law
# =============================================================================================
h("put_step_n3", "ranger_l::put_step::<S, 3>", ["C02", "C01"], "quick", unwind=4, family="put_step")
h("put_step_n4", "ranger_l::put_step::<S, 4>", ["C02", "C01"], "quick", unwind=5, family="put_step")
h("put_commute_n4", "ranger_l::put_commute::<S, 4>", ["C02", "C04"], "quick", unwind=5, family="put_commute")
h("put_commute_n5", "ranger_l::put_commute::<S, 5>", ["C02", "C04"], "thorough", unwind=6, family="put_commute")

# =============================================================================================
# sync.rs kernels (E1): C03 validation, C01 S1-S2 orders, C07 capabilities, C09 layouts
# =============================================================================================
SYNC_STUBS = DEFAULT_STUBS + ["crypto", "cteq"]
UW_MSG = {r"^memcmp\.0$": 122}
for kh, ke, tier in [(1, 1, "quick"), (0, 1, "quick"), (2, 1, "thorough"), (2, 2, "thorough")]:
    h("validate_entry_accepts_%d_%d" % (kh, ke), "sync::validate_entry_accepts::<S, %d, %d>" % (kh, ke), ["C03"], tier,
      unwind=5, unwindset=UW_MSG, stubs=SYNC_STUBS, family="validate_entry_accepts")
h("validate_empty_table", "sync::validate_empty_table::<S>", ["C03"], "quick", unwind=4, unwindset={r"^memcmp\.0$": 34}, stubs=SYNC_STUBS)
for k in (0, 2):
    h("entry_encode_layout_%d" % k, "sync::entry_encode_layout::<S, %d>" % k, ["C03", "C09", "C01"], "quick", unwind=4,
      unwindset=UW_MSG, stubs=SYNC_STUBS, family="entry_encode_layout")
h("record_order", "sync::record_order::<S>", ["C01", "C02", "C08"], "quick", unwind=4, unwindset={r"^memcmp\.0$": 34}, stubs=SYNC_STUBS)
for k1, k2, tier in [(1, 1, "quick"), (1, 2, "quick"), (0, 1, "quick"), (2, 2, "thorough")]:
    h("record_id_order_%d_%d" % (k1, k2), "sync::record_id_order::<S, %d, %d>" % (k1, k2), ["C01", "C08"], tier, unwind=4,
      unwindset={r"^memcmp\.0$": 68}, stubs=SYNC_STUBS, family="record_id_order")
h("capability_merge", "sync::capability_merge::<S>", ["C07"], "quick", unwind=4, unwindset={r"^memcmp\.0$": 34, r"crypto::ideal_public\.0": 33, r"zeroize::Zeroize>::zeroize\.0": 34}, stubs=SYNC_STUBS)
h("capability_raw_roundtrip", "sync::capability_raw_roundtrip::<S>", ["C07", "C09"], "quick", unwind=4,
  unwindset={r"^memcmp\.0$": 34, r"crypto::ideal_public\.0": 33, r"zeroize::Zeroize>::zeroize\.0": 34}, stubs=SYNC_STUBS)

# =============================================================================================
# C11: two-node product over the real PeerState transition functions (E1)
# =============================================================================================
C11_STUBS = DEFAULT_STUBS + ["time"]
UW_C11 = {r"^memcmp\.0$": 34}
for fam in ("single_dial", "resync", "not_syncing"):
    h("c11_" + fam, "engine_state::c11_%s::<S>" % fam, ["C11"], "quick", unwind=4, unwindset=UW_C11, stubs=C11_STUBS, family="c11_" + fam)
for f in (False, True):
    h("c11_redial_race_%d" % f, "engine_state::c11_redial_race::<S, %s>" % str(f).lower(), ["C11"], "quick", unwind=4,
      unwindset=UW_C11, stubs=C11_STUBS, family="c11_redial_race")
# simultaneous dial: flag bits, see the body; meaningless combinations skipped
for F in range(32):
    xy_lost, yx_lost, y_first, x_early, yacc_early = F & 1, F & 2, F & 4, F & 8, F & 16
    if y_first and not yx_lost:
        continue
    if yacc_early and xy_lost:
        continue
    quick = F in (0, 1, 2, 3, 8, 9, 6, 16, 24)
    h("c11_simultaneous_dial_f%02d" % F, "engine_state::c11_simultaneous_dial::<S, %d>" % F, ["C11"], "quick" if quick else "thorough",
      unwind=4, unwindset=UW_C11, stubs=C11_STUBS, family="c11_simultaneous_dial")
h("c11_scheduler_k4", "engine_state::c11_scheduler::<S, 4>", ["C11"], "thorough", unwind=6, unwindset=UW_C11,
  stubs=C11_STUBS, family="c11_scheduler", mem_gb=24)

# =============================================================================================
# E2: real storage layer over the redb model
# =============================================================================================
E2_STUBS = DEFAULT_STUBS + ["time", "cteq"]
h("e2_probe", "store_fs::e2_probe::<S>", ["C02"], "thorough", unwind=7, unwindset={r"^memcmp\.0$": 70}, stubs=E2_STUBS, family="e2_probe", mem_gb=24)

COMMON_ASSUMPTIONS = [
    "bytes::Bytes drop/clone replaced by no-op/deep copy (allocation lifetime abstracted; memory safety of `bytes` not claimed)",
    "tracing macros disabled by stubs (Kani cannot compile thread_local dispatch); anyhow backtrace capture disabled",
    "Kani models the dev profile (overflow checks and debug assertions on); native replay runs dev and (thorough) release",
]

META["C02"] = dict(
    functions=["store::fs::bounds::RecordsBounds::{author_prefix,author_key,as_ref}", "store::fs::bounds::increment_by_one",
               "<RecordsBounds as RangeBounds<RecordsIdOwned>>::contains"],
    bounds="prefix length 0..2, candidate key length 1..3 (one harness instance per length pair); namespace/author ids: all 32 bytes symbolic",
    outside="longer prefixes/keys (the code is length-uniform beyond the last byte); histories (one-step law + induction on paper)",
    assumptions=COMMON_ASSUMPTIONS + ["redb's tuple comparison equals Rust's lexicographic tuple order (validated by the redb model differential test)"],
)
