"""Registry of Kani harnesses: which property, which tier, which unwind set, which cap.

`unwindset` maps a regex over loop names (mangled or the readable hint `a::b::c.N`) to a bound;
bounds are derived from the code (DESIGN.md §3.6): memcmp = longest compared slice + 1,
increment_by_one = 32-byte id + 1, ...  Unwinding assertions stay on, so a bound that is too
small is reported as INCONCLUSIVE, never as success."""

HARNESSES = []
META = {}


def h(name, prop, tier="quick", unwindset=None, **kw):
    d = dict(name=name, prop=prop, tier=tier, unwindset=unwindset or {})
    d.update(kw)
    HARNESSES.append(d)


# ---- C02 -----------------------------------------------------------------------------------
MEMCMP_ID = {r"^memcmp\.0$": 34, r"bounds::increment_by_one\.0": 34}
for p, k, tier in [(0, 1, "quick"), (1, 1, "quick"), (1, 2, "quick"), (2, 1, "quick"), (2, 2, "quick"), (2, 3, "thorough")]:
    h("c02_bounds_author_prefix_p%d_k%d" % (p, k), "C02", tier, MEMCMP_ID, family="bounds_author_prefix")

META["C02"] = dict(
    functions=["store::fs::bounds::RecordsBounds::{author_prefix,author_key,as_ref}", "store::fs::bounds::increment_by_one",
               "<RecordsBounds as RangeBounds<RecordsIdOwned>>::contains"],
    bounds="prefix length 0..2, candidate key length 1..3 (one harness instance per length pair), namespace/author ids: all 32 bytes symbolic",
    outside="longer prefixes/keys",
    assumptions=["bytes::Bytes drop/clone replaced by no-op/deep copy (allocation lifetime abstracted)",
                 "tracing disabled by stubs", "redb's tuple comparison equals Rust's lexicographic tuple order (validated by the redb model differential test)"],
)
