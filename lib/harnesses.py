"""Registry of Kani harnesses (single source of truth).

`python3 lib/gen.py` generates from it:
  kani/src/harnesses_gen.rs      the #[kani::proof] wrappers with their stub attributes
  kani/incrate/dispatch_gen.rs   name -> body dispatch used by the native replay binary

Fields: name; body (path below iroh_docs::verif_incrate, with generics, `S` = the draw source);
props (a harness may serve several properties); tier; unwind (default bound for all loops);
unwindset {regex over `rust::path::of::fn.N` or C name: bound} — bounds are derived from the code
(DESIGN.md §3.6): memcmp = longest compared slice + 1, increment_by_one = 32-byte id + 1, ...
Unwinding assertions stay on: a bound that is too small is INCONCLUSIVE, never success.
stubs: names of stub sets in STUBS (every stub is part of the claim)."""

STUBS = {
    # bytes::Bytes reference counting through a vtable: no-op drop / deep-copy clone
    "bytes": [
        ("<bytes::Bytes as core::ops::Drop>::drop", "crate::env::bytes_drop"),
        ("<bytes::Bytes as core::clone::Clone>::clone", "crate::env::bytes_clone"),
    ],
    # tracing needs a thread_local dispatcher (Kani ICE): never interested / disabled / no-op
    "tracing": [
        ("tracing_core::callsite::DefaultCallsite::interest", "crate::env::tracing_interest"),
        ("tracing::__macro_support::__is_enabled", "crate::env::tracing_is_enabled"),
        ("tracing_core::event::Event::dispatch", "crate::env::tracing_dispatch"),
    ],
    # anyhow captures a backtrace (getenv): disabled
    "backtrace": [("std::backtrace::Backtrace::capture", "crate::env::backtrace_disabled")],
}
DEFAULT_STUBS = ["bytes", "tracing", "backtrace"]

HARNESSES = []
META = {}


def h(name, body, props, tier="quick", unwind=4, unwindset=None, stubs=None, **kw):
    d = dict(name=name, body=body, props=props if isinstance(props, list) else [props], tier=tier, unwind=unwind,
             unwindset=unwindset or {}, stubs=(stubs if stubs is not None else DEFAULT_STUBS))
    d.update(kw)
    HARNESSES.append(d)


# =============================================================================================
# bounds kernel (E1): C02, C05, C08, C16 — the ranges handed to redb contain exactly the right ids
# =============================================================================================
UW_ID = {r"^memcmp\.0$": 34, r"bounds::increment_by_one\.0": 34, r"bounds::prefix_successor\.0": 5}
BOUNDS_PROPS = ["C02", "C05", "C08", "C16"]
def bounds_family(fam, body, props, insts):
    """quick: tail-symbolic ids (fill byte + 2 free bytes); thorough adds the fully symbolic ids."""
    for a, b, tier in insts:
        h("%s_%d_%d" % (fam, a, b), "store_fs::%s::<S, %d, %d, false>" % (body, a, b), props, tier, unwindset=UW_ID, family=fam)
        h("%s_%d_%d_full" % (fam, a, b), "store_fs::%s::<S, %d, %d, true>" % (body, a, b), props, "thorough", unwindset=UW_ID, family=fam)


# (prefix len, key len)
bounds_family("bounds_author_prefix", "bounds_author_prefix", ["C02", "C05"],
              [(0, 1, "quick"), (1, 1, "quick"), (1, 2, "quick"), (2, 1, "quick"), (2, 2, "quick"), (2, 3, "thorough"), (3, 2, "thorough")])
bounds_family("bounds_author_key", "bounds_author_key", ["C05"], [(1, 1, "quick"), (1, 2, "quick"), (2, 2, "thorough")])
# (candidate key len, bound key len)
bounds_family("bounds_namespace", "bounds_namespace", ["C08", "C16", "C05"], [(1, 1, "quick"), (0, 1, "quick"), (1, 0, "quick"), (2, 1, "thorough")])
bounds_family("bounds_bykey", "bounds_bykey", ["C05", "C16"], [(0, 1, "quick"), (1, 1, "quick"), (1, 2, "quick"), (2, 1, "quick"), (2, 2, "thorough")])

# =============================================================================================
# generic ranger code over the light instantiation L (E1): C02 put law
# =============================================================================================
h("put_step_n3", "ranger_l::put_step::<S, 3>", ["C02", "C01"], "quick", unwind=4, family="put_step")
h("put_step_n4", "ranger_l::put_step::<S, 4>", ["C02", "C01"], "quick", unwind=5, family="put_step")
h("put_commute_n4", "ranger_l::put_commute::<S, 4>", ["C02", "C04"], "quick", unwind=5, family="put_commute")
h("put_commute_n5", "ranger_l::put_commute::<S, 5>", ["C02", "C04"], "thorough", unwind=6, family="put_commute")

COMMON_ASSUMPTIONS = [
    "bytes::Bytes drop/clone replaced by no-op/deep copy (allocation lifetime abstracted; memory safety of `bytes` not claimed)",
    "tracing macros disabled by stubs (Kani cannot compile thread_local dispatch); anyhow backtrace capture disabled",
    "Kani models the dev profile (overflow checks and debug assertions on); native replay runs dev and (thorough) release",
]

META["C02"] = dict(
    functions=["store::fs::bounds::RecordsBounds::{author_prefix,author_key,as_ref}", "store::fs::bounds::increment_by_one",
               "<RecordsBounds as RangeBounds<RecordsIdOwned>>::contains"],
    bounds="prefix length 0..2, candidate key length 1..3 (one harness instance per length pair); namespace/author ids: all 32 bytes symbolic",
    outside="longer prefixes/keys (the code is length-uniform beyond the last byte); histories (one-step law + induction on paper)",
    assumptions=COMMON_ASSUMPTIONS + ["redb's tuple comparison equals Rust's lexicographic tuple order (validated by the redb model differential test)"],
)
