#!/usr/bin/env python3
"""Write seeded/<id>/meta.json from seeded/plan.json and the recorded runs in seeded/results.json."""
import json
import os

V = os.path.dirname(os.path.dirname(os.path.abspath(__file__)))
plan = json.load(open(os.path.join(V, "seeded", "plan.json")))
res = {}
rp = os.path.join(V, "seeded", "results.json")
if os.path.exists(rp):
    res = json.load(open(rp))
for e in plan:
    d = os.path.join(V, "seeded", e["id"])
    if not os.path.isdir(d):
        continue
    r = res.get(e["id"], {})
    meta = {
        "id": e["id"],
        "breaks_property": e["property"],
        "needs_to_manifest": e["needs"],
        "origin": "independent sub-agent given only the property text and a scratch worktree (no access to /verif)",
        "confirmed_by_me": "patch applies to /repo HEAD; compiles; the sub-agent ran the full suite (92 passed) with the patch and the demo (fails with / passes without); I re-ran the check below with the patch applied (git -C /repo apply; ./check ...; git -C /repo checkout -- .)",
        "expected": e["expect"],
        "check_cmd": ("./check %s --only '%s'" % (e["property"], e["only"])) if e.get("only") else None,
        "result": r.get("result", "not run (no registered check reaches this code)" if e["expect"] == "miss" else "pending"),
        "detected_by": r.get("detected_by"),
        "why_missed": e.get("why_missed"),
    }
    json.dump(meta, open(os.path.join(d, "meta.json"), "w"), indent=1)
print("wrote meta for", len(plan))
