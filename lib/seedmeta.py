#!/usr/bin/env python3
"""Write seeded/<id>/meta.json from seeded/plan.json and the recorded runs in seeded/results.json."""
import json
import os

V = os.path.dirname(os.path.dirname(os.path.abspath(__file__)))
plan = json.load(open(os.path.join(V, "seeded", "plan.json")))
res = {}
rp = os.path.join(V, "seeded", "results.json")
if os.path.exists(rp):
    res = json.load(open(rp))
for e in plan:
    d = os.path.join(V, "seeded", e["id"])
    if not os.path.isdir(d):
        continue
    r = res.get(e["id"], {})
    meta = {
        "id": e["id"],
        "breaks_property": e["property"],
        "needs_to_manifest": e["needs"],
        "origin": "independent sub-agent given only the property text and a scratch worktree (no access to /verif)",
        "confirmed_by_me": e.get("confirmed") or "patch applies to /repo HEAD; compiles; the sub-agent ran the full suite (92 passed) with the patch and the demo (fails with / passes without); I re-ran the check below with the patch applied (git -C /repo apply; ./check ...; git -C /repo checkout -- .)",
        "expected": e["expect"],
        "check_cmd": ("./check %s --only '%s'" % (e.get("check", e["property"]), e["only"])) if e.get("only") else (("./check %s --e3-only" % e.get("check", e["property"])) if e.get("e3") else (("./check %s" % e.get("check", e["property"])) if e.get("full") else None)),
        "result": r.get("result", "not run (no registered check reaches this code)" if e["expect"] == "miss" else "pending"),
        "detected_by": r.get("detected_by"),
        "why_missed": e.get("why_missed"),
    }
    json.dump(meta, open(os.path.join(d, "meta.json"), "w"), indent=1)
rows = ["| seed | property | needs to manifest | expected | recorded run | detected by |", "|---|---|---|---|---|---|"]
for e in plan:
    r = res.get(e["id"], {})
    det = ", ".join(sorted({d["harness"] for d in (r.get("detected_by") or [])})) or "-"
    run = r.get("result", "not run (no registered check reaches this code)" if e["expect"] == "miss" else "not run in the recorded campaign (thorough tier only)")
    rows.append("| %s | %s | %s | %s | %s | %s |" % (e["id"], e["property"], e["needs"].replace("|", "/")[:160], e["expect"], run, det))
open(os.path.join(V, "seeded", "RESULTS.md"), "w").write("# Seeded changes: recorded runs\n\nEach patch was applied to /repo with `git apply`, the check named in its meta.json was run, the patch was undone.\n\n" + "\n".join(rows) + "\n")
print("wrote meta for", len(plan))
