#!/usr/bin/env python3
"""usage: seedrecord.py <seed id> ...   record the outcome of `./seed_test.sh <id> ...` (from .work/seed_<id>.out and .work/seed_results.log)
into seeded/results.json (exit code, detecting harnesses and checks)."""
import json
import os
import re
import sys

V = os.path.dirname(os.path.dirname(os.path.abspath(__file__)))
rp = os.path.join(V, "seeded", "results.json")
res = json.load(open(rp)) if os.path.exists(rp) else {}
plan = {e["id"]: e for e in json.load(open(os.path.join(V, "seeded", "plan.json")))}
rcs = {}
for ln in open(os.path.join(V, ".work", "seed_results.log")):
    m = re.match(r"^(\S+) (\S+) rc=(\d+)$", ln.strip())
    if m:
        rcs[m.group(1)] = int(m.group(3))
for sid in sys.argv[1:]:
    out = open(os.path.join(V, ".work", "seed_%s.out" % sid)).read()
    det = []
    for m in re.finditer(r"harness=(\S+) check=(.+)", out):
        d = {"harness": m.group(1), "check": m.group(2).strip()}
        if d not in det:
            det.append(d)
    rc = rcs.get(sid)
    if rc == 1 and det:
        result = "detected (exit 1, VIOLATION line, counterexample reproduced natively)"
    elif rc == 0 and plan.get(sid, {}).get("expect") == "no_alarm":
        result = "no alarm (exit 0), as expected: the change does not break the property as the check reads it (see why_missed)"
    elif rc == 0:
        result = "missed (exit 0)"
    else:
        result = "inconclusive (exit %s)" % rc
    res[sid] = {"property": plan.get(sid, {}).get("property"), "rc": rc, "result": result, "detected_by": det or None}
    print(sid, result, [d["harness"] for d in det])
json.dump(res, open(rp, "w"), indent=1)
