#!/usr/bin/env python3
"""Write /verif/MANIFEST.json from the registry (claimed properties are listed in CLAIMED below)."""
import json
import os
import sys

sys.path.insert(0, os.path.dirname(os.path.abspath(__file__)))
import harnesses as H  # noqa

VERIF = os.path.dirname(os.path.dirname(os.path.abspath(__file__)))

# property -> (level text, level note)
CLAIMED = {}
NOT_APPLICABLE = {}


def claim(p, text, note):
    CLAIMED[p] = (text, note)


def na(p, reason):
    NOT_APPLICABLE[p] = reason


exec(open(os.path.join(VERIF, "lib", "claims.py")).read())


def main():
    props = [json.loads(l) for l in open(os.path.join(VERIF, "properties.jsonl"))]
    hooks = json.load(open(os.path.join(VERIF, "lib", "hooks.json")))
    m = {
        "version": 1,
        "setup_cmd": "./setup.sh",
        "hooks": hooks,
        "engines": [
            {"name": "E1-kani", "path": "/verif/kani", "serves_properties": sorted({p for x in H.HARNESSES if x["tier"] in ("quick", "thorough") for p in x["props"] if p in CLAIMED}),
             "kind_free_text": "Kani 0.68 / CBMC 6.11 bounded model checking of the compiled crate (harness bodies compiled in-crate, symbolic inputs, unwinding assertions on); counterexamples replayed natively by /verif/replay"},
            {"name": "E3-mirsmt", "path": "/verif/mirsmt", "serves_properties": ["C01", "C02", "C03", "C05", "C06", "C07", "C08", "C09", "C10", "C11", "C12", "C13", "C14", "C15", "C16", "C17", "C18"],
             "kind_free_text": "MIR -> SMT-LIB for the code Kani cannot compile or finish (async coroutines, closures, iterator state machines over redb tables): nightly MIR dump regenerated per run, symbolic execution of the named bodies with callees and closures inlined, loops unrolled over modelled tables of K symbolic rows, z3 cross-checked with cvc5; a satisfiable query is confirmed by a native witness program"},
        ],
        "checks": [],
        "not_applicable": [],
        "notes": "All results are bounded (bounds per harness in lib/harnesses.py and in the evidence). Exit code 2 = inconclusive (timeout/OOM/unwinding assertion/vacuous cover/non-reproducing counterexample): never success, never a violation.",
    }
    for p in props:
        pid = p["id"]
        if pid in CLAIMED:
            text, note = CLAIMED[pid]
            m["checks"].append({
                "property_id": pid,
                "quick_cmd": "./check %s --tier quick" % pid,
                "thorough_cmd": "./check %s --tier thorough" % pid,
                "evidence_file": "/verif/evidence/%s.json" % pid,
                "replay_cmd_template": "./check --replay {path}",
                "engine": "E1-kani" if any(pid in x["props"] and x["tier"] in ("quick", "thorough") for x in H.HARNESSES) else "E3-mirsmt",
                "level_claimed": {"category": "model_checking", "text": text, "design_ref": "DESIGN.md §4 %s, §10" % pid},
                "level_note": note,
                "technique": "solver-based checking of the real code: Kani/CBMC bounded model checking (SAT verdict over all inputs within stated bounds), plus MIR->SMT (z3/cvc5) for async-closure glue where registered; native replay of every counterexample",
            })
        else:
            m["not_applicable"].append({"property_id": pid, "reason": NOT_APPLICABLE.get(pid, "no check built (see DESIGN.md §10)")})
    json.dump(m, open(os.path.join(VERIF, "MANIFEST.json"), "w"), indent=1)
    print("claimed:", sorted(CLAIMED), "n/a:", [x["property_id"] for x in m["not_applicable"]])


if __name__ == "__main__":
    main()
