#!/usr/bin/env python3
"""Runner for the solver-based checks of /verif (DESIGN.md §3).

One invocation decides one property at one tier:
  * (re)builds the Kani harness crate against /repo's current working tree (cargo notices edits),
  * runs every registered harness of the property/tier as its own `cargo kani --harness` process
    (CBMC back end, unwinding assertions on, per-harness wall cap and address-space cap),
  * turns every counterexample into concrete values (Kani concrete playback) and replays it
    natively against the real build (/verif/replay: real redb, bytes, blake3, no stubs),
  * consults known_findings.txt, writes evidence/<id>.json, prints VIOLATION / KNOWN-FINDING lines.

Exit codes: 0 all obligations discharged, no unlisted violation; 1 replayed violation not listed;
2 inconclusive (timeout, OOM, ICE, unwinding assertion, vacuous cover, non-reproducing cex).
"""
import concurrent.futures as cf
import hashlib
import json
import os
import re
import resource
import shutil
import signal
import subprocess
import sys
import time

VERIF = os.path.dirname(os.path.dirname(os.path.abspath(__file__)))
# development only: a scratch copy of the harness crates / work dir / source tree (registered commands never set these)
WORK = os.environ.get("VERIF_DEV_WORK") or os.path.join(VERIF, ".work")
REPO = os.environ.get("VERIF_REPO_SRC", "/repo")
KANI_DIR = os.environ.get("VERIF_DEV_KANI") or os.path.join(VERIF, "kani")
KANI_TARGET = os.path.join(WORK, "kani-target")
REPLAY_DIR = os.environ.get("VERIF_DEV_REPLAY") or os.path.join(VERIF, "replay")
REPLAY_TARGET = os.path.join(WORK, "replay-target")
EVIDENCE = os.path.join(WORK, "evidence") if os.environ.get("VERIF_DEV_WORK") else os.path.join(VERIF, "evidence")
REPLAYS = os.path.join(EVIDENCE, "replays")
LOGS = os.path.join(WORK, "logs")

ENV = dict(os.environ)
ENV.update({"CARGO_NET_OFFLINE": "true", "CARGO_TERM_COLOR": "never"})
ENV.pop("RUSTFLAGS", None)


def log(*a):
    print(*a, file=sys.stderr, flush=True)


# --------------------------------------------------------------------------------------------
# building
# --------------------------------------------------------------------------------------------

def sync_lockfiles():
    """The harness crates resolve the same dependency versions as /repo (copy of its lock file,
    extended by cargo, offline, with the two verif crates themselves)."""
    for d in (KANI_DIR, REPLAY_DIR):
        lock = os.path.join(d, "Cargo.lock")
        if not os.path.exists(lock):
            shutil.copy(REPO + "/Cargo.lock", lock)


def build_replay(profile="dev"):
    args = ["cargo", "build", "--offline", "--target-dir", REPLAY_TARGET]
    if profile == "release":
        args.append("--release")
    t = time.time()
    p = subprocess.run(args, cwd=REPLAY_DIR, env=ENV, stdout=subprocess.PIPE, stderr=subprocess.STDOUT, text=True)
    if p.returncode != 0:
        log(p.stdout[-4000:])
        return None
    sub = "release" if profile == "release" else "debug"
    return os.path.join(REPLAY_TARGET, sub, "verif-replay"), time.time() - t


def kani_base_cmd(playback=False):
    cmd = ["cargo", "kani", "-Z", "stubbing", "-Z", "unstable-options"]
    if playback:
        cmd += ["-Z", "concrete-playback", "--concrete-playback=print"]
    return cmd + ["--target-dir", KANI_TARGET]


def kani_prebuild():
    """Compile /repo + harness crate under Kani once (codegen only of a trivial harness), so the
    parallel per-harness runs find the dependency tree fresh."""
    t = time.time()
    cmd = ["cargo", "kani", "-Z", "stubbing", "-Z", "unstable-options", "--target-dir", KANI_TARGET,
           "--only-codegen", "--exact", "--harness", "harnesses::zz_build_probe"]
    p = subprocess.run(cmd, cwd=KANI_DIR, env=ENV, stdout=subprocess.PIPE, stderr=subprocess.STDOUT, text=True)
    ok = p.returncode == 0
    if not ok:
        log(strip_warnings(p.stdout)[-6000:])
    return ok, time.time() - t, p.stdout


def strip_warnings(out):
    keep = []
    skip = False
    for line in out.splitlines():
        if line.startswith("warning"):
            skip = True
            continue
        if skip:
            if line.strip() == "" or line.startswith(" ") or line.startswith("  ") or re.match(r"^\d+ \| ", line) or line.startswith("note:") :
                continue
            skip = False
        keep.append(line)
    return "\n".join(keep)


# --------------------------------------------------------------------------------------------
# loops
# --------------------------------------------------------------------------------------------

def find_symtab(harness):
    """Newest goto binary produced for `harness`."""
    best = None
    root = os.path.join(KANI_TARGET, "kani")
    suffix = "%d%s.symtab.out" % (len(harness), harness)
    for dp, dn, fn in os.walk(root):
        for f in fn:
            if f.endswith(suffix):
                p = os.path.join(dp, f)
                m = os.path.getmtime(p)
                if best is None or m > best[0]:
                    best = (m, p)
    return best[1] if best else None


def list_loops(goto_file):
    """Loop ids of a Kani symtab goto binary (linked with goto-cc first, as kani-driver does)."""
    tmp = goto_file + ".loops.tmp"
    subprocess.run(["goto-cc", goto_file, "-o", tmp], stdout=subprocess.DEVNULL, stderr=subprocess.DEVNULL)
    p = subprocess.run(["goto-instrument", "--show-loops", tmp], stdout=subprocess.PIPE,
                       stderr=subprocess.DEVNULL, text=True)
    try:
        os.unlink(tmp)
    except OSError:
        pass
    return re.findall(r"^Loop (\S+):", p.stdout, re.M)


def pretty_names(symtab):
    """Kani writes <harness>.pretty_name_map.json next to the goto binary: mangled -> Rust path."""
    p = symtab.replace(".symtab.out", ".pretty_name_map.json")
    try:
        d = json.load(open(p))
    except Exception:
        return {}
    return {k: v for k, v in d.items() if v}


def resolve_unwindset(harness, unwindset):
    """Map {pattern: bound} to CBMC loop ids of this harness' goto binary.  A pattern is a regex
    searched in the loop's (mangled) name and in its readable hint; `memcmp.0` style names match
    literally.  Unmatched patterns are reported (a refactoring renamed the loop)."""
    if not unwindset:
        return [], [], []
    sym = find_symtab(harness)
    loops = list_loops(sym) if sym else []
    pretty = pretty_names(sym) if sym else {}
    res, missing = [], []
    for pat, bound in unwindset.items():
        hit = False
        for lp in loops:
            fn, _, idx = lp.rpartition(".")
            hint = pretty.get(fn, fn) + "." + idx
            if lp == pat or re.search(pat, lp) or re.search(pat, hint):
                res.append("%s:%d" % (lp, bound))
                hit = True
        if not hit:
            lit = pat.lstrip("^").rstrip("$").replace("\\.", ".")
            if re.match(r"^[A-Za-z_][A-Za-z0-9_]*\.\d+$", lit):
                res.append("%s:%d" % (lit, bound))  # C library loop (memcmp, ...) added after codegen
            else:
                missing.append(pat)
    return res, missing, loops


# --------------------------------------------------------------------------------------------
# running one harness
# --------------------------------------------------------------------------------------------

def _limits(mem_gb):
    def f():
        os.setsid()
        # CBMC recurses deeply over large expressions (struct copies of the redb model state)
        try:
            resource.setrlimit(resource.RLIMIT_STACK, (resource.RLIM_INFINITY, resource.RLIM_INFINITY))
        except (ValueError, OSError):
            pass
        if mem_gb:
            b = int(mem_gb * (1 << 30))
            resource.setrlimit(resource.RLIMIT_AS, (b, b))
    return f


def run_cmd(cmd, cwd, cap_s, mem_gb, logfile):
    t = time.time()
    with open(logfile, "w") as lf:
        p = subprocess.Popen(cmd, cwd=cwd, env=ENV, stdout=lf, stderr=subprocess.STDOUT,
                             preexec_fn=_limits(mem_gb))
        timed_out = False
        try:
            p.wait(timeout=cap_s)
        except subprocess.TimeoutExpired:
            timed_out = True
            try:
                os.killpg(p.pid, signal.SIGKILL)
            except ProcessLookupError:
                pass
            p.wait()
    return p.returncode, timed_out, time.time() - t


CHECK_RE = re.compile(r"^Check (\d+): (\S.*)\n\t - Status: (\S+)\n\t - Description: \"(.*)\"\n\t - Location: (.*)$", re.M)


def parse_kani(out):
    r = {"verdict": None, "failed": [], "covers": [], "checks": 0, "verif_time": None, "unwind_fail": [],
         "playback": [], "error": None}
    m = re.search(r"^VERIFICATION:- (\w+)", out, re.M)
    if m:
        r["verdict"] = m.group(1)
    m = re.search(r"^Verification Time: ([\d.]+)s", out, re.M)
    if m:
        r["verif_time"] = float(m.group(1))
    for m in CHECK_RE.finditer(out):
        num, name, status, desc, loc = m.groups()
        r["checks"] += 1
        if ".cover." in name or name.endswith(".cover"):
            r["covers"].append({"desc": desc, "status": status})
            continue
        if status == "FAILURE":
            if "unwind" in name.split(".")[-2:][0] or desc.startswith("unwinding assertion"):
                r["unwind_fail"].append({"name": name, "loc": loc})
            else:
                r["failed"].append({"name": name, "desc": desc, "loc": loc})
    # concrete playback blocks
    for blk in re.finditer(r"Concrete playback unit test for `([^`]+)`:\n```\n(.*?)\n```", out, re.S):
        body = blk.group(2)
        km = re.search(r"/// Check for `(\w+)`: \"(.*)\"", body)
        vals = [[int(x) for x in v.split(",") if x.strip()] for v in re.findall(r"^\s*vec!\[([^\]]*)\],?\s*$", body, re.M)]
        # first "vec![" line is the opening of the outer vector: it has no closing bracket on its line
        r["playback"].append({"kind": km.group(1) if km else None, "desc": km.group(2) if km else None, "vals": vals})
    if r["verdict"] is None:
        if "internal compiler error" in out or "Kani unexpectedly panicked" in out or "error: internal" in out:
            r["error"] = "ICE"
        elif re.search(r"^error(\[E\d+\])?:", out, re.M):
            r["error"] = "compile error"
        elif "CBMC failed with status 139" in out:
            r["error"] = "CBMC crashed (SIGSEGV)"
        elif "CBMC failed" in out or "Status: ERROR" in out or "out of memory" in out.lower() or "std::bad_alloc" in out:
            r["error"] = "CBMC error/OOM"
        else:
            r["error"] = "no verdict"
    return r


def run_harness(h, replay_bins, tier_caps):
    name = h["name"]
    os.makedirs(LOGS, exist_ok=True)
    cap = h.get("cap", tier_caps["cap"])
    mem = h.get("mem_gb", tier_caps["mem_gb"])
    res = {"name": name, "family": h.get("family", name), "unwind": h.get("unwind"), "unwindset": h.get("unwindset", {}),
           "cap_s": cap, "status": None, "notes": []}
    t0 = time.time()
    uw = h.get("unwindset") or {}
    resolved = []
    if uw:
        # codegen first so that the goto binary exists and loop ids can be read from it
        cmd = kani_base_cmd() + ["--only-codegen", "--exact", "--harness", "harnesses::" + name]
        rc, to, dt = run_cmd(cmd, KANI_DIR, cap, None, os.path.join(LOGS, name + ".codegen.log"))
        if rc != 0 or to:
            out = open(os.path.join(LOGS, name + ".codegen.log")).read()
            res.update(status="INCONCLUSIVE", reason="codegen failed: " + (parse_kani(out)["error"] or "rc=%s" % rc),
                       wall_s=time.time() - t0)
            return res
        resolved, missing, loops = resolve_unwindset(name, uw)
        res["loops_in_binary"] = len(loops)
        if missing:
            res["notes"].append("unwindset patterns without a matching loop: %s" % missing)
    def mk(playback):
        cmd = kani_base_cmd(playback) + ["--exact", "--harness", "harnesses::" + name]
        if h.get("solver"):
            cmd += ["--solver", h["solver"]]
        cbmc_args = list(h.get("cbmc_args", []))
        if resolved:
            cbmc_args += ["--unwindset", ",".join(resolved)]
        if cbmc_args:
            cmd += ["--cbmc-args"] + cbmc_args
        return cmd
    cmd = mk(False)
    logfile = os.path.join(LOGS, name + ".log")
    rc, timed_out, dt = run_cmd(cmd, KANI_DIR, cap, mem, logfile)
    out = open(logfile, errors="replace").read()
    if not timed_out and parse_kani(out)["failed"]:
        # a counterexample exists: run again with concrete playback to obtain the concrete draws
        logfile = os.path.join(LOGS, name + ".playback.log")
        # (kani-driver parses the full JSON trace in memory: give the playback run more room)
        rc, timed_out, dt = run_cmd(mk(True), KANI_DIR, cap, max(mem or 0, 40), logfile)
        out = open(logfile, errors="replace").read()
    res["wall_s"] = round(time.time() - t0, 1)
    res["cmd"] = " ".join(cmd)
    if timed_out:
        res.update(status="INCONCLUSIVE", reason="wall cap %ds exceeded" % cap)
        return res
    pk = parse_kani(out)
    res["checks"] = pk["checks"]
    res["solver_time_s"] = pk["verif_time"]
    res["covers"] = pk["covers"]
    if pk["error"]:
        res.update(status="INCONCLUSIVE", reason=pk["error"])
        return res
    if "Solver ran out of memory" in out or re.search(r"^\t - Status: ERROR", out, re.M):
        res.update(status="INCONCLUSIVE", reason="CBMC/solver error (out of memory under the %s GB cap?)" % mem)
        return res
    unsat_covers = [c["desc"] for c in pk["covers"] if c["status"] != "SATISFIED"]
    if pk["failed"]:
        res["failed_checks"] = pk["failed"]
        # replay every failed assertion for which Kani produced concrete values
        res["replays"] = []
        for f in pk["failed"]:
            if h.get("witness"):
                # Kani-only body (no native twin): the counterexample is confirmed by a native public-API witness
                rp = {"desc": f["desc"], "vals": None, "witness": h["witness"], "profiles": {}, "native_failed": []}
                ok = []
                for prof, binp in replay_bins.items():
                    try:
                        pr = subprocess.run([binp, "--witness", h["witness"]], stdout=subprocess.PIPE, stderr=subprocess.PIPE, text=True, timeout=300)
                        rp["profiles"][prof] = {"rc": pr.returncode, "out": (pr.stdout + pr.stderr)[-300:]}
                        ok.append(pr.returncode == 1)
                    except Exception as e:  # noqa
                        rp["profiles"][prof] = {"error": str(e)}
                        ok.append(False)
                rp["reproduced"] = all(ok) if ok else None
                pbv = [p for p in pk["playback"] if p["kind"] != "cover" and p["desc"] == f["desc"]]
                if pbv:
                    rp["vals"] = pbv[0]["vals"]
                res["replays"].append(rp)
                continue
            # Kani de-duplicates playback tests with identical concrete values (CBMC reuses one model for
            # several properties), so the values for this assertion may be filed under another check:
            # try the block for this assertion first, then every other block; a candidate counts only if
            # the native run fails the same check.
            cands = [p for p in pk["playback"] if p["kind"] != "cover" and p["desc"] == f["desc"]]
            cands += [p for p in pk["playback"] if p not in cands]
            if not cands:
                res["replays"].append({"desc": f["desc"], "reproduced": None, "why": "no concrete values from Kani"})
                continue
            best = None
            for c in cands:
                rp = native_replay(name, c["vals"], replay_bins)
                rp["desc"] = f["desc"]
                rp["vals"] = c["vals"]
                is_ck = f["loc"].find("incrate/") >= 0
                same = (f["desc"] in rp.get("native_failed", [])) or (not is_ck and rp.get("native_failed"))
                if rp.get("reproduced") and same:
                    best = rp
                    break
                if best is None:
                    rp["reproduced"] = False
                    best = rp
            res["replays"].append(best)
        res["status"] = "FAILED"
        return res
    if pk["unwind_fail"]:
        res.update(status="INCONCLUSIVE", reason="unwinding assertion failed: %s" % pk["unwind_fail"][:3])
        return res
    if pk["verdict"] != "SUCCESSFUL":
        res.update(status="INCONCLUSIVE", reason="verdict %s without failed checks" % pk["verdict"])
        return res
    if unsat_covers:
        res.update(status="INCONCLUSIVE", reason="vacuous: cover(s) not satisfiable: %s" % unsat_covers)
        return res
    res["status"] = "PASS"
    return res


def native_replay(name, vals, replay_bins):
    """Run the same harness body natively (real build) on the concrete draws, dev and release."""
    out = {"reproduced": None, "profiles": {}}
    rep = []
    for prof, binp in replay_bins.items():
        try:
            p = subprocess.run([binp, name, json.dumps(vals)], stdout=subprocess.PIPE, stderr=subprocess.PIPE,
                               text=True, timeout=120)
            line = p.stdout.strip().splitlines()[-1] if p.stdout.strip() else "{}"
            o = json.loads(line)
        except Exception as e:  # noqa
            o = {"error": str(e)}
        out["profiles"][prof] = o
        ok = bool(o.get("found")) and not o.get("assumption_violated") and not o.get("draw_error") and bool(o.get("failed"))
        rep.append(ok)
    out["reproduced"] = all(rep) if rep else None
    fails = set()
    for o in out["profiles"].values():
        for f in o.get("failed", []) or []:
            fails.add(f)
    out["native_failed"] = sorted(fails)
    return out


# --------------------------------------------------------------------------------------------
# E3: MIR -> SMT glue queries
# --------------------------------------------------------------------------------------------

MIR_DIR = os.path.join(WORK, "mir")
MIR_TARGET = os.path.join(WORK, "mir-target")


def e3_props():
    sys.path.insert(0, os.path.join(VERIF, "mirsmt"))
    import queries  # noqa
    return queries.QUERIES


def regenerate_mir():
    """Dump the MIR of /repo's current working tree with the nightly toolchain.  A per-run nonce cfg
    forces rustc to run again for the crate itself (dependencies stay cached)."""
    os.makedirs(MIR_DIR, exist_ok=True)
    out = os.path.join(MIR_DIR, "iroh_docs.mir")
    nonce = "verif_mir_nonce_%d" % int(time.time() * 1000)
    cmd = ["cargo", "+nightly", "rustc", "--offline", "--lib", "--no-default-features", "--target-dir", MIR_TARGET, "--",
           "-Zunpretty=mir", "-C", "debug-assertions=off", "-C", "overflow-checks=on", "--cfg", nonce, "-A", "unexpected_cfgs"]
    t = time.time()
    with open(out, "w") as f:
        p = subprocess.run(cmd, cwd=REPO, env=ENV, stdout=f, stderr=subprocess.PIPE, text=True)
    if p.returncode != 0 or os.path.getsize(out) < 1000:
        log(p.stderr[-3000:])
        return None, time.time() - t
    return out, time.time() - t


def run_e3(prop, replay_bins, tier="quick"):
    """returns (results, build_s) ; each result: dict with status PASS/FAILED/INCONCLUSIVE"""
    mir, dt = regenerate_mir()
    if mir is None:
        return [{"name": "e3_mir_dump", "family": "e3", "status": "INCONCLUSIVE", "reason": "MIR dump failed", "wall_s": dt}], dt
    p = subprocess.run([sys.executable, os.path.join(VERIF, "mirsmt", "run.py"), mir, prop], stdout=subprocess.PIPE,
                       stderr=subprocess.PIPE, text=True, env=dict(ENV, VERIF_E3_TIER=tier))
    try:
        data = json.loads(p.stdout)
    except Exception:
        return [{"name": "e3_queries", "family": "e3", "status": "INCONCLUSIVE", "reason": "mirsmt failed: " + p.stderr[-500:], "wall_s": dt}], dt
    res = []
    for q in data["results"]:
        r = {"name": "e3_" + q["name"], "family": "e3_" + q["name"], "checks": q.get("queries", 1), "cases": q.get("cases", 1), "solver_time_s": q.get("solver_time_s"),
             "wall_s": q.get("solver_time_s"), "detail": q["detail"], "functions": q.get("functions"), "covers": [{"desc": "query reached a verdict", "status": "SATISFIED"}]}
        if q["verdict"] == "holds":
            r["status"] = "PASS"
        elif q["verdict"] == "inconclusive":
            r.update(status="INCONCLUSIVE", reason=q["detail"])
        else:
            # a satisfiable negated property: confirm against the real build with the native witness
            r["status"] = "FAILED"
            msg = q.get("check_message", q["name"])
            rp = {"desc": msg, "vals": None, "witness": q.get("witness"), "reproduced": None, "profiles": {}}
            if q.get("witness"):
                ok = []
                for prof, binp in replay_bins.items():
                    # several witnesses may be named (comma separated): the defect has to manifest in one of them
                    hit = False
                    for wid in q["witness"].split(","):
                        try:
                            pr = subprocess.run([binp, "--witness", wid], stdout=subprocess.PIPE, stderr=subprocess.PIPE, text=True, timeout=600)
                            rp["profiles"][prof + ":" + wid] = {"rc": pr.returncode, "out": (pr.stdout + pr.stderr)[-400:]}
                            if pr.returncode == 1:
                                hit = True
                                break
                        except Exception as e:  # noqa
                            rp["profiles"][prof + ":" + wid] = {"error": str(e)}
                    ok.append(hit)
                rp["reproduced"] = all(ok) if ok else None
            r["replays"] = [rp]
            r["failed_checks"] = [{"desc": msg, "loc": "MIR", "name": q["name"]}]
        res.append(r)
    return res, dt


# --------------------------------------------------------------------------------------------
# known findings
# --------------------------------------------------------------------------------------------

def load_known():
    """known_findings.txt: lines `finding: property=<id> key=<family> :: <check message> :: <what fails>`
    and `fixed: property=<id> <commit> <what failed>` (the latter suppress nothing)."""
    known = []
    p = os.path.join(VERIF, "known_findings.txt")
    if os.path.exists(p):
        for line in open(p):
            line = line.strip()
            if not line.startswith("finding:"):
                continue
            m = re.match(r"finding:\s+property=(\S+)\s+key=(\S+)\s+::\s+(.*?)\s+::\s+(.*)$", line)
            if m:
                known.append({"prop": m.group(1), "family": m.group(2), "msg": m.group(3), "what": m.group(4)})
    return known


# --------------------------------------------------------------------------------------------
# main
# --------------------------------------------------------------------------------------------

TIERS = {
    "quick": {"cap": 600, "mem_gb": 12, "jobs": 8},
    "thorough": {"cap": 3600, "mem_gb": 16, "jobs": 6},
}


def decide(prop, tier, harnesses, meta, seed=0, jobs=None, only=None, e3_only=False):
    global EVIDENCE, REPLAYS
    if only or e3_only:
        # a filtered (development) run decides only part of the property: its evidence must not replace
        # the evidence of the registered command
        EVIDENCE = os.path.join(WORK, "evidence-partial")
        REPLAYS = os.path.join(EVIDENCE, "replays")
    t_start = time.time()
    os.makedirs(EVIDENCE, exist_ok=True)
    os.makedirs(REPLAYS, exist_ok=True)
    os.makedirs(LOGS, exist_ok=True)
    sync_lockfiles()
    caps = dict(TIERS[tier])
    if jobs:
        caps["jobs"] = jobs
    hs = [h for h in harnesses if prop in h["props"] and not str(h.get("tier")).startswith("off") and (tier == "thorough" or h.get("tier", "quick") == "quick")]
    if only and os.environ.get("VERIF_INCLUDE_OFF"):
        hs = [h for h in harnesses if prop in h["props"]]
    if only:
        hs = [h for h in hs if re.search(only, h["name"])]
    if e3_only:
        hs = []
    # the seed only permutes scheduling order: verdicts are solver verdicts
    import random
    rnd = random.Random(seed)
    rnd.shuffle(hs)
    hs.sort(key=lambda h: -h.get("weight", 1))

    log("[%s/%s] building harness crate against /repo working tree ..." % (prop, tier))
    if hs:
        ok, dt_build, bout = kani_prebuild()
    else:
        # nothing for Kani to decide (E3-only property or --e3-only): the Kani build (which compiles /repo against the
        # redb model) is not needed, and a change that does not build against the model must not hide the E3 verdict
        ok, dt_build, bout = True, 0.0, ""
    if not ok:
        log("[%s] Kani build of /repo + harnesses failed" % prop)
        write_evidence(prop, tier, seed, meta, [], time.time() - t_start, 0, build_failed=True)
        return 2
    log("[%s] kani build ok (%.0fs); building native replay binaries" % (prop, dt_build))
    replay_bins = {}
    for prof in ("dev", "release") if tier == "thorough" else ("dev",):
        r = build_replay(prof)
        if r is None:
            log("[%s] native replay build failed (%s)" % (prop, prof))
            write_evidence(prop, tier, seed, meta, [], time.time() - t_start, 0, build_failed=True)
            return 2
        replay_bins[prof] = r[0]

    results = []
    with cf.ThreadPoolExecutor(max_workers=caps["jobs"]) as ex:
        futs = {ex.submit(run_harness, h, replay_bins, caps): h for h in hs}
        for fu in cf.as_completed(futs):
            r = fu.result()
            results.append(r)
            log("  %-60s %-12s %6.1fs %s" % (r["name"], r["status"], r.get("wall_s", 0), r.get("reason", "")))

    if prop in e3_props() and (not only or e3_only):
        log("[%s] E3: regenerating the MIR dump and running the glue queries" % prop)
        e3res, _ = run_e3(prop, replay_bins, tier)
        for r in e3res:
            results.append(r)
            log("  %-60s %-12s %6.1fs %s" % (r["name"], r["status"], r.get("wall_s") or 0, r.get("reason", "")))

    known = load_known()
    violations, known_hits, inconclusive = [], [], []
    for r in results:
        if r["status"] == "PASS":
            continue
        if r["status"] == "INCONCLUSIVE":
            inconclusive.append(r)
            continue
        # FAILED: every failed check must be replayed; classify
        for rp in r.get("replays", []):
            if rp.get("reproduced"):
                k = [k for k in known if k["prop"] == prop and k["family"] == r["family"] and k["msg"] == rp["desc"]]
                rec = {"harness": r["name"], "family": r["family"], "desc": rp["desc"], "vals": rp.get("vals")}
                if k:
                    rec["known"] = k[0]["what"]
                    known_hits.append(rec)
                else:
                    h = hashlib.sha1((r["name"] + rp["desc"]).encode()).hexdigest()[:10]
                    path = os.path.join(REPLAYS, "%s-%s.json" % (prop, h))
                    with open(path, "w") as f:
                        json.dump({"property": prop, "harness": r["name"], "check": rp["desc"], "witness": rp.get("witness"),
                                   "concrete_vals": rp.get("vals"), "native": rp.get("profiles"),
                                   "replay_cmd": "%s/check --replay %s" % (VERIF, path)}, f, indent=1)
                    rec["replay"] = path
                    violations.append(rec)
            else:
                r2 = dict(r)
                r2["reason"] = "counterexample for '%s' did not reproduce natively (%s)" % (rp.get("desc"), rp.get("why", rp.get("profiles")))
                inconclusive.append(r2)

    seen = set()
    for kh in known_hits:
        key = (kh["family"], kh["desc"])
        if key in seen:
            continue
        seen.add(key)
        print("KNOWN-FINDING: property=%s %s [%s]" % (prop, kh["known"], kh["harness"]))
    for v in violations:
        print("VIOLATION property=%s replay=%s" % (prop, v["replay"]))
        log("   harness=%s check=%s" % (v["harness"], v["desc"]))
    for r in inconclusive:
        log("INCONCLUSIVE %s: %s" % (r["name"], r.get("reason")))
    wall = time.time() - t_start
    write_evidence(prop, tier, seed, meta, results, wall, len(violations), known_hits=known_hits,
                   inconclusive=inconclusive, build_s=dt_build)
    sys.stdout.flush()
    if violations:
        return 1
    if inconclusive or not results:
        return 2
    return 0


def write_evidence(prop, tier, seed, meta, results, wall, nviol, known_hits=(), inconclusive=(), build_s=0, build_failed=False):
    m = meta.get(prop, {})
    passed = [r for r in results if r["status"] == "PASS"]
    nontrivial = [r for r in results if r["status"] in ("PASS", "FAILED") and r.get("covers") and all(c["status"] == "SATISFIED" for c in r["covers"])]
    samples = []
    for r in sorted(results, key=lambda r: r["name"])[:6]:
        samples.append({"harness": r["name"], "status": r["status"], "unwind_default": r.get("unwind"),
                        "unwindset": r.get("unwindset"), "checks": r.get("checks"), "solver_time_s": r.get("solver_time_s"),
                        "covers": r.get("covers")})
    for kh in list(known_hits)[:4]:
        samples.append({"replayed_counterexample": kh})
    ev = {
        "property_id": prop,
        "tier": tier,
        "seed": seed,
        "level": "model_checking",
        "coverage": {
            "evaluations": sum(r.get("checks") or 0 for r in results),
            "distinct_nontrivial": len([r for r in nontrivial if not r["name"].startswith("e3_")]) + sum(r.get("cases", 0) for r in nontrivial if r["name"].startswith("e3_")),
            "rule": "one evaluation = one CBMC property (assertion/overflow/bounds/unwinding check) decided by the SAT solver over all "
                    "inputs inside the harness bounds; a harness instance is non-trivial when all its kani::cover! witnesses "
                    "(assertion reached with the interesting precondition true) were SATISFIED; instances are distinct by name "
                    "(concrete key lengths/shapes per instance, everything else symbolic); for an E3 query the distinct cases are the feasible "
                    "paths / tracked sites / per-table obligations of the encoded body, each decided by z3 and cvc5",
            "samples": samples or [{"note": "no harness ran"}],
            "harnesses_total": len(results),
            "harnesses_passed": len(passed),
            "harnesses_failed_known": sorted({k["harness"] for k in known_hits}),
            "harnesses_inconclusive": [{"name": r["name"], "reason": r.get("reason")} for r in inconclusive],
            "solver_time_s": round(sum(r.get("solver_time_s") or 0 for r in results), 1),
            "build_s": round(build_s, 1),
            "functions_encoded": m.get("functions", []),
            "bounds": m.get("bounds", ""),
            "outside_bounds": m.get("outside", ""),
            "engine": m.get("engine", "Kani 0.68 / CBMC 6.11 (cadical), unwinding assertions on"),
            "per_harness": [{k: r.get(k) for k in ("name", "status", "checks", "solver_time_s", "wall_s", "cap_s", "reason", "detail", "functions") if r.get(k) is not None or k in ("name", "status")}
                            for r in sorted(results, key=lambda r: r["name"])],
            "build_failed": build_failed,
            "exhaustive": False,
        },
        "assumptions": m.get("assumptions", []),
        "wall_s": round(wall, 1),
        "violations": nviol,
    }
    with open(os.path.join(EVIDENCE, prop + ".json"), "w") as f:
        json.dump(ev, f, indent=1)
