#!/bin/sh
# usage: ./seed_test.sh <seed-dir-name> <property> [--only regex] : apply seeded/<name>/patch.diff to /repo, run the check, undo
name=$1; prop=$2; shift; shift
git -C /repo apply $( [ -f /verif/seeded/$name/patch_rebased.diff ] && echo /verif/seeded/$name/patch_rebased.diff || echo /verif/seeded/$name/patch.diff ) || exit 3
./check $prop "$@" > .work/seed_$name.out 2>&1
rc=$?
git -C /repo checkout -- .
echo "$name $prop rc=$rc" >> .work/seed_results.log
tail -5 .work/seed_$name.out | cut -c1-220
echo "rc=$rc"
