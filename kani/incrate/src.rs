//! Source of harness inputs: symbolic under Kani, concrete for native replay.

/// Property assertion: `kani::assert` under Kani (message must be a literal), recorded natively.
macro_rules! ck {
    ($s:expr, $c:expr, $m:literal $(,)?) => {{
        let c: bool = $c;
        #[cfg(kani)]
        kani::assert(c, $m);
        $s.check(c, $m);
    }};
}
/// Vacuity witness: `kani::cover!` under Kani, recorded natively.
macro_rules! cv {
    ($s:expr, $c:expr, $m:literal $(,)?) => {{
        let c: bool = $c;
        #[cfg(kani)]
        kani::cover!(c, $m);
        $s.cover(c, $m);
    }};
}
pub(crate) use ck;
pub(crate) use cv;

pub trait Src {
    fn u8(&mut self) -> u8;
    fn u64(&mut self) -> u64;
    fn bool(&mut self) -> bool;
    fn arr<const N: usize>(&mut self) -> [u8; N];
    /// Constrain the inputs (placed before the code it constrains).
    fn assume(&mut self, c: bool);
    /// The property assertion.
    fn check(&mut self, c: bool, msg: &'static str);
    /// Vacuity witness: must be satisfiable.
    fn cover(&mut self, c: bool, msg: &'static str);
    fn is_replay(&self) -> bool;
}

#[cfg(kani)]
pub struct KaniSrc;

#[cfg(kani)]
impl Src for KaniSrc {
    #[inline(always)]
    fn u8(&mut self) -> u8 {
        kani::any()
    }
    #[inline(always)]
    fn u64(&mut self) -> u64 {
        kani::any()
    }
    #[inline(always)]
    fn bool(&mut self) -> bool {
        kani::any()
    }
    #[inline(always)]
    fn arr<const N: usize>(&mut self) -> [u8; N] {
        kani::any()
    }
    #[inline(always)]
    fn assume(&mut self, c: bool) {
        kani::assume(c)
    }
    #[inline(always)]
    fn check(&mut self, _c: bool, _msg: &'static str) {}
    #[inline(always)]
    fn cover(&mut self, _c: bool, _msg: &'static str) {}
    fn is_replay(&self) -> bool {
        false
    }
}

/// Result of a native replay.
#[derive(Debug, Clone, Default)]
pub struct ReplayOutcome {
    /// an `assume` was false: the concrete values are not a model of the harness
    pub assumption_violated: bool,
    /// the draws ran out / had the wrong width
    pub draw_error: bool,
    /// messages of failed checks, in order
    pub failed: Vec<&'static str>,
    /// messages of satisfied covers
    pub covered: Vec<&'static str>,
    /// number of checks evaluated
    pub checks: usize,
}

pub struct ReplaySrc {
    vals: std::collections::VecDeque<Vec<u8>>,
    out: ReplayOutcome,
}

impl ReplaySrc {
    pub fn new(vals: Vec<Vec<u8>>) -> Self {
        Self {
            vals: vals.into(),
            out: Default::default(),
        }
    }
    pub fn outcome(&self) -> ReplayOutcome {
        self.out.clone()
    }
    /// Draws that run out AFTER a check already failed are not an error: the solver's trace ends at
    /// the failing assertion, while the native run continues to the end of the body.
    fn draw_failed(&mut self) {
        if self.out.failed.is_empty() {
            self.out.draw_error = true;
        }
    }

    fn take(&mut self, n: usize) -> Vec<u8> {
        // Kani prints one byte vector per `kani::any()` of a primitive; arrays come either as one
        // vector of N bytes or as N single-byte vectors.
        match self.vals.front() {
            Some(v) if v.len() == n => self.vals.pop_front().unwrap(),
            Some(v) if v.len() < n && n % v.len() == 0 => {
                let mut res = Vec::new();
                while res.len() < n {
                    match self.vals.pop_front() {
                        Some(v) => res.extend(v),
                        None => {
                            self.draw_failed();
                            res.resize(n, 0);
                        }
                    }
                }
                if res.len() != n {
                    self.draw_failed();
                    res.resize(n, 0);
                }
                res
            }
            _ => {
                self.draw_failed();
                vec![0; n]
            }
        }
    }
}

impl Src for ReplaySrc {
    fn u8(&mut self) -> u8 {
        self.take(1)[0]
    }
    fn u64(&mut self) -> u64 {
        u64::from_le_bytes(self.take(8).try_into().unwrap())
    }
    fn bool(&mut self) -> bool {
        self.take(1)[0] != 0
    }
    fn arr<const N: usize>(&mut self) -> [u8; N] {
        if N == 0 {
            return [0u8; N];
        }
        self.take(N).try_into().unwrap()
    }
    fn assume(&mut self, c: bool) {
        if !c {
            self.out.assumption_violated = true;
        }
    }
    fn check(&mut self, c: bool, msg: &'static str) {
        self.out.checks += 1;
        if !c && !self.out.assumption_violated {
            self.out.failed.push(msg);
        }
    }
    fn cover(&mut self, c: bool, msg: &'static str) {
        if c {
            self.out.covered.push(msg);
        }
    }
    fn is_replay(&self) -> bool {
        true
    }
}
