//! harness bodies: net_codec
