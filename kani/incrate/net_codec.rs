//! harness bodies: net/codec.rs (child module of `net::codec`)
use std::future::Future;
use std::pin::pin;
use std::task::{Context, Poll, Waker};

use bytes::BytesMut;
use tokio_util::codec::{Decoder, Encoder};

use super::*;
use crate::verif_incrate::src::{ck, cv, Src};

fn poll_n<F: Future>(f: F, n: usize) -> Option<F::Output> {
    let mut f = pin!(f);
    let mut cx = Context::from_waker(Waker::noop());
    let mut i = 0;
    while i < n {
        if let Poll::Ready(v) = f.as_mut().poll(&mut cx) {
            return Some(v);
        }
        i += 1;
    }
    None
}

fn empty_message() -> crate::sync::ProtocolMessage {
    unsafe { std::mem::transmute::<Vec<crate::ranger::MessagePart<crate::sync::SignedEntry>>, crate::sync::ProtocolMessage>(Vec::new()) }
}

fn frame(m: Message) -> Vec<u8> {
    let mut b = BytesMut::new();
    SyncCodec.encode(m, &mut b).unwrap();
    b.to_vec()
}

/// C09: `SyncCodec::decode` on an arbitrary N-byte buffer: never panics; `Ok(None)` exactly when
/// fewer than 4 + len bytes are present (and then nothing is consumed); oversized length prefixes
/// are errors; on `Ok(Some)` exactly 4 + len bytes are consumed.
pub fn codec_decode_total<S: Src, const N: usize>(s: &mut S) {
    let b: [u8; N] = s.arr();
    let mut buf = BytesMut::from(&b[..]);
    let r = SyncCodec.decode(&mut buf);
    let have_len = N >= 4;
    let len = if have_len { u32::from_be_bytes([b[0], b[1], b[2], b[3]]) as usize } else { 0 };
    match &r {
        Ok(None) => {
            ck!(s, !have_len || (len <= MAX_MESSAGE_SIZE && N < 4 + len), "need-more-data is reported exactly for incomplete frames");
            ck!(s, buf.len() == N, "an incomplete frame consumes nothing");
        }
        Ok(Some(_)) => {
            ck!(s, have_len && N >= 4 + len, "a message is only produced from a complete frame");
            ck!(s, buf.len() == N - 4 - len, "a decoded frame consumes exactly 4 + len bytes");
        }
        Err(_) => {
            ck!(s, have_len && (len > MAX_MESSAGE_SIZE || N >= 4 + len), "errors are reported only for oversized or complete-but-invalid frames");
        }
    }
    cv!(s, N < 6 || matches!(r, Ok(Some(_))), "codec_decode_total: some buffer decodes to a message");
    cv!(s, N < 4 || matches!(r, Err(_)), "codec_decode_total: some buffer is rejected");
    cv!(s, matches!(r, Ok(None)), "codec_decode_total: some buffer needs more data");
    std::mem::forget(r);
}

/// C09: the Abort frame survives encode -> decode for every split point of the byte stream.
pub fn codec_abort_roundtrip<S: Src>(s: &mut S) {
    let reason = match s.u8() % 3 {
        0 => AbortReason::NotFound,
        1 => AbortReason::AlreadySyncing,
        _ => AbortReason::InternalServerError,
    };
    let bytes = frame(Message::Abort { reason });
    let split = (s.u8() as usize) % (bytes.len() + 1);
    let mut buf = BytesMut::from(&bytes[..split]);
    let first = SyncCodec.decode(&mut buf);
    if split < bytes.len() {
        ck!(s, matches!(first, Ok(None)), "a truncated frame is reported as need-more-data, never as a bogus message");
        buf.extend_from_slice(&bytes[split..]);
        let second = SyncCodec.decode(&mut buf);
        ck!(s, matches!(second, Ok(Some(Message::Abort { reason: r })) if r == reason), "the message survives encode-then-decode however the stream is chunked");
        std::mem::forget(second);
    } else {
        ck!(s, matches!(first, Ok(Some(Message::Abort { reason: r })) if r == reason), "the message survives encode-then-decode");
    }
    ck!(s, buf.is_empty(), "nothing is left over after the frame");
    cv!(s, split > 0 && split < 4, "codec_abort_roundtrip: split inside the length prefix");
    std::mem::forget(first);
}

/// C09: two frames that sit in the read buffer together (back to back, or the first frame plus the start of
/// the second) are decoded one after the other; decoding the first must leave exactly the bytes of the second.
pub fn codec_back_to_back<S: Src, const HAVE: usize>(s: &mut S) {
    let pick = |x: u8| match x % 3 {
        0 => AbortReason::NotFound,
        1 => AbortReason::AlreadySyncing,
        _ => AbortReason::InternalServerError,
    };
    let (r1, r2) = (pick(s.u8()), pick(s.u8()));
    let (f1, f2) = (frame(Message::Abort { reason: r1 }), frame(Message::Abort { reason: r2 }));
    // how much of the second frame has arrived together with the first (concrete per instance: a symbolic
    // buffer length is intractable for CBMC)
    let have = HAVE.min(f2.len());
    let mut buf = BytesMut::from(&f1[..]);
    buf.extend_from_slice(&f2[..have]);
    let first = SyncCodec.decode(&mut buf);
    ck!(s, matches!(first, Ok(Some(Message::Abort { reason: r })) if r == r1), "the first of two buffered frames is decoded");
    ck!(s, buf.len() == have && buf[..] == f2[..have], "decoding a frame leaves the bytes that follow it in the buffer, untouched");
    buf.extend_from_slice(&f2[have..]);
    let second = SyncCodec.decode(&mut buf);
    ck!(s, matches!(second, Ok(Some(Message::Abort { reason: r })) if r == r2), "the second frame is decoded after the first");
    ck!(s, buf.is_empty(), "nothing is left over after the second frame");
    cv!(s, r1 != r2, "codec_back_to_back: two different messages");
    std::mem::forget(first);
    std::mem::forget(second);
}

/// C10 acceptor: `BobState::run` + `into_outcome` over an in-memory frame script, with the store
/// actor gone.  SCRIPT (concrete per instance): 0 = [Init]  1 = [Abort]  2 = [Sync]  3 = []  (early
/// close)  4 = [Init] with the request declined by the accept callback  5 = truncated Init frame.
/// The accepting side must return (success or a reported error), never panic, and must always be
/// able to report its outcome.
pub fn bob_run<S: Src, const SCRIPT: u8>(s: &mut S) {
    let ns = NamespaceId::from(&[5u8; 32]);
    let peer = crate::engine::verif_state::endpoint_id([6u8; 32]);
    let mut input: Vec<u8> = Vec::new();
    match SCRIPT {
        0 | 4 => input.extend(frame(Message::Init { namespace: ns, message: empty_message() })),
        1 => input.extend(frame(Message::Abort { reason: AbortReason::NotFound })),
        2 => input.extend(frame(Message::Sync(empty_message()))),
        5 => {
            let f = frame(Message::Init { namespace: ns, message: empty_message() });
            input.extend(&f[..f.len() - 1]);
        }
        _ => {}
    }
    let decline = SCRIPT == 4;
    // never dropped (its `Drop` expects a join handle), also not while unwinding in a native replay
    let handle = std::mem::ManuallyDrop::new(crate::actor::verif_incrate::disconnected_handle());
    let mut state = BobState::new(peer);
    let mut out: Vec<u8> = Vec::new();
    let res = poll_n(
        state.run(&mut out, &input[..], (*handle).clone(), |_ns, _peer| {
            std::future::ready(if decline { AcceptOutcome::Reject(AbortReason::AlreadySyncing) } else { AcceptOutcome::Allow })
        }),
        4,
    );
    let Some(res) = res else {
        ck!(s, false, "the accepting side never waits forever (nothing is pending: the reader is exhausted and the actor is gone)");
        return;
    };
    cv!(s, res.is_err(), "bob_run: the session ends with a reported error");
    if decline {
        ck!(s, matches!(res, Err(AcceptError::Abort { .. })), "a declined request is reported as aborted by us");
        ck!(s, out == frame(Message::Abort { reason: AbortReason::AlreadySyncing }), "declining writes exactly one Abort frame");
    }
    // net.rs `handle_connection` asks for the outcome unconditionally after `run` returned
    let _outcome = state.into_outcome();
    ck!(s, true, "the accepting side can always report its outcome");
    std::mem::forget(res);
}

// --- ICE bisection probes (development only) ---
pub fn probe_handle<S: Src>(s: &mut S) {
    let handle = crate::actor::verif_incrate::disconnected_handle();
    cv!(s, true, "probe");
    std::mem::forget(handle);
}
pub fn probe_send<S: Src>(s: &mut S) {
    let handle = crate::actor::verif_incrate::disconnected_handle();
    let r = poll_n(handle.sync_initial_message(NamespaceId::from(&[5u8; 32])), 2);
    cv!(s, matches!(r, Some(Err(_))), "probe: request fails");
    std::mem::forget(r);
    std::mem::forget(handle);
}
pub fn probe_framed<S: Src>(s: &mut S) {
    use tokio_stream::StreamExt;
    let input = frame(Message::Abort { reason: AbortReason::NotFound });
    let mut reader = FramedRead::new(&input[..], SyncCodec);
    let r = poll_n(reader.next(), 2);
    cv!(s, matches!(r, Some(Some(Ok(Message::Abort { .. })))), "probe: frame read");
    std::mem::forget(r);
}


/// C09 witness (native): messages encoded back to back into ONE buffer, and the same messages encoded
/// into fresh buffers and concatenated, must come out of the decoder unchanged at every split point of
/// the byte stream; oversized / truncated frames never produce a message.
#[cfg(not(kani))]
pub fn witness_c09frame() -> bool {
    let mut bad = false;
    let ns = NamespaceId::from(&[5u8; 32]);
    let msgs = || -> Vec<Message> {
        vec![
            Message::Init { namespace: ns, message: empty_message() },
            Message::Abort { reason: AbortReason::AlreadySyncing },
            Message::Sync(empty_message()),
            Message::Abort { reason: AbortReason::NotFound },
        ]
    };
    let same = |a: &Message, b: &Message| postcard::to_stdvec(a).unwrap() == postcard::to_stdvec(b).unwrap();
    // (a) one destination buffer for all frames
    let mut one = BytesMut::new();
    for m in msgs() {
        SyncCodec.encode(m, &mut one).unwrap();
    }
    // (b) fresh buffer per frame, concatenated
    let mut cat: Vec<u8> = Vec::new();
    for m in msgs() {
        cat.extend(frame(m));
    }
    if one[..] != cat[..] {
        eprintln!("c09frame: encoding frames back to back into one buffer differs from encoding them one by one ({} vs {} bytes)", one.len(), cat.len());
        bad = true;
    }
    for stream in [one.to_vec(), cat.clone()] {
        for split in 0..=stream.len() {
            let mut buf = BytesMut::from(&stream[..split]);
            let mut out: Vec<Message> = Vec::new();
            let mut err = false;
            loop {
                match SyncCodec.decode(&mut buf) {
                    Ok(Some(m)) => out.push(m),
                    Ok(None) => break,
                    Err(_) => {
                        err = true;
                        break;
                    }
                }
            }
            buf.extend_from_slice(&stream[split..]);
            loop {
                match SyncCodec.decode(&mut buf) {
                    Ok(Some(m)) => out.push(m),
                    Ok(None) => break,
                    Err(_) => {
                        err = true;
                        break;
                    }
                }
            }
            let want = msgs();
            if err || out.len() != want.len() || out.iter().zip(want.iter()).any(|(a, b)| !same(a, b)) || !buf.is_empty() {
                if !bad {
                    eprintln!("c09frame: split at {split}/{}: decoded {} of {} messages (error: {err}, left over: {})", stream.len(), out.len(), want.len(), buf.len());
                }
                bad = true;
            }
        }
    }
    // a complete frame is answered with a message or an error, never with "need more data" (the reader would wait for bytes
    // the peer has no reason to send), and what follows it stays buffered
    for body in [&[][..], &[0xff][..], &[7, 7, 7][..], &[0][..], &[2, 9][..]] {
        let mut f = (body.len() as u32).to_be_bytes().to_vec();
        f.extend_from_slice(body);
        f.extend_from_slice(&[0xAA, 0xBB]);
        let mut buf = BytesMut::from(&f[..]);
        match SyncCodec.decode(&mut buf) {
            Ok(None) => {
                eprintln!("c09frame: a complete frame with body {body:?} is answered with need-more-data ({} of {} bytes left in the buffer)", buf.len(), f.len());
                bad = true;
            }
            Ok(Some(_)) if buf[..] != [0xAA, 0xBB] => {
                eprintln!("c09frame: a frame with body {body:?} decoded but consumed {} of {} bytes", f.len() - buf.len(), f.len() - 2);
                bad = true;
            }
            _ => {}
        }
    }
    // an oversized length prefix is an error, never a message
    let mut big = BytesMut::from(&[0xffu8, 0xff, 0xff, 0xff, 1, 2][..]);
    if !matches!(SyncCodec.decode(&mut big), Err(_)) {
        eprintln!("c09frame: an oversized frame was not reported as an error");
        bad = true;
    }
    // ... at once, as soon as the prefix is complete and however little above the limit (never "need more data")
    let over = (super::MAX_MESSAGE_SIZE as u32 + 1).to_be_bytes();
    let mut big = BytesMut::from(&over[..]);
    if !matches!(SyncCodec.decode(&mut big), Err(_)) {
        eprintln!("c09frame: a length prefix above the limit is not rejected as soon as it is complete");
        bad = true;
    }
    bad
}


/// C10 witness (native, real store actors over in-memory duplex streams):
///  (a) a request declined by the accept callback is answered with Abort, reported as Abort{..} and leaves the
///      accepting store unchanged even if the Init frame already carries signed entries;
///  (b) the initiator's replica is closed between Init and the first Sync reply: run_alice must end with a
///      reported error, not panic and not report success;
///  (c) a normal session between two replicas ends Ok on both sides with mirrored sent / received counts, and a
///      second session transfers nothing;
///  (d) unexpected frames (Sync before Init, Init twice, Abort) end the acceptor with a reported error.
#[cfg(not(kani))]
pub fn witness_c10steps() -> bool {
    use crate::actor::OpenOpts;
    use crate::store::{Query, Store};
    use crate::NamespaceSecret;
    use n0_future::SinkExt as _;
    use tokio::io::AsyncWriteExt;
    use tokio_stream::StreamExt as _;
    let rt = tokio::runtime::Builder::new_multi_thread().worker_threads(2).enable_all().build().unwrap();
    let bad = rt.block_on(async {
        let mut bad = false;
        let secret = NamespaceSecret::from_bytes(&[61u8; 32]);
        let namespace = secret.id();
        let author = crate::Author::from_bytes(&[62u8; 32]);
        let dialer_id = iroh::SecretKey::from_bytes(&[7u8; 32]).public();
        let bob_id = iroh::SecretKey::from_bytes(&[2u8; 32]).public();
        let mk_handle = |entries: &[&str], name: &str| {
            let mut store = Store::memory();
            store.import_author(author.clone()).unwrap();
            let mut replica = store.new_replica(secret.clone()).unwrap();
            for k in entries {
                crate::verif_incrate::witness::block_on(replica.hash_and_insert(k, &author, k)).unwrap();
            }
            drop(replica);
            store.close_replica(namespace);
            SyncHandle::spawn(store, None, name.to_string())
        };
        // ---------------- (a) declined request; the dialer closes its sending half at once, or keeps it open (the acceptor's
        //                  end must not depend on the peer closing its stream: round-8 seed r8_c10_b)
        for keep_open in [false, true] {
            // a message carrying one signed entry
            let mut empty = Store::memory();
            let init_of_empty = empty.new_replica(secret.clone()).unwrap().sync_initial_message().unwrap();
            let mut ds = Store::memory();
            let mut dr = ds.new_replica(secret.clone()).unwrap();
            dr.hash_and_insert("smuggled", &author, "payload").await.unwrap();
            let with_entries = dr.sync_process_message(init_of_empty, [9u8; 32], &mut Default::default()).await.unwrap().expect("reply with items");
            drop(dr);
            let bob = mk_handle(&[], "bob-a");
            bob.open(namespace, OpenOpts::default().sync()).await.unwrap();
            let (d, b) = tokio::io::duplex(1 << 16);
            let (br, bw) = tokio::io::split(b);
            let (dr2, dw) = tokio::io::split(d);
            let mut dw = FramedWrite::new(dw, SyncCodec);
            dw.send(Message::Init { namespace, message: with_entries }).await.unwrap();
            if !keep_open {
                dw.get_mut().shutdown().await.unwrap();
            }
            let mut state = BobState::new(dialer_id);
            let res = tokio::time::timeout(std::time::Duration::from_secs(if keep_open { 4 } else { 10 }), state.run(bw, br, bob.clone(), |_ns, _peer| std::future::ready(AcceptOutcome::Reject(AbortReason::AlreadySyncing)))).await;
            match res {
                Ok(Err(AcceptError::Abort { reason: AbortReason::AlreadySyncing, .. })) => {}
                other => {
                    eprintln!("c10steps(a): a declined request was not reported as Abort (dialer keeps its stream open: {keep_open}; Err(Elapsed) = the acceptor is still waiting): {:?}", other.map(|r| r.map(|_| ())));
                    bad = true;
                }
            }
            let mut dr2 = FramedRead::new(dr2, SyncCodec);
            if !matches!(dr2.next().await, Some(Ok(Message::Abort { reason: AbortReason::AlreadySyncing }))) {
                eprintln!("c10steps(a): the dialer was not told that the request was declined");
                bad = true;
            }
            let _ = state.into_outcome();
            let mut st = bob.shutdown().await.unwrap();
            let n = st.get_many(namespace, Query::all()).unwrap().count();
            if n != 0 {
                eprintln!("c10steps(a): a declined request changed the accepting store ({n} entries)");
                bad = true;
            }
        }
        // ---------------- (b) initiator's replica closed mid-session
        {
            let alice = mk_handle(&["hello"], "alice-b");
            alice.open(namespace, OpenOpts::default().sync()).await.unwrap();
            let (a, b) = tokio::io::duplex(1 << 16);
            let (mut ar, mut aw) = tokio::io::split(a);
            let (br, bw) = tokio::io::split(b);
            let h = alice.clone();
            let task = tokio::task::spawn(async move { run_alice(&mut aw, &mut ar, &h, namespace, bob_id).await });
            let mut br = FramedRead::new(br, SyncCodec);
            let mut bw = FramedWrite::new(bw, SyncCodec);
            match br.next().await {
                Some(Ok(Message::Init { message, .. })) => {
                    let _ = alice.close(namespace).await;
                    bw.send(Message::Sync(message)).await.unwrap();
                    match tokio::time::timeout(std::time::Duration::from_secs(10), task).await {
                        Ok(Ok(Err(_))) => {}
                        Ok(Ok(Ok(_))) => {
                            eprintln!("c10steps(b): processing on a closed replica was reported as success");
                            bad = true;
                        }
                        Ok(Err(e)) => {
                            eprintln!("c10steps(b): run_alice did not end cleanly (panic): {e}");
                            bad = true;
                        }
                        Err(_) => {
                            eprintln!("c10steps(b): run_alice waits forever");
                            bad = true;
                        }
                    }
                }
                _ => {
                    eprintln!("c10steps(b): the initiator did not start with Init");
                    bad = true;
                }
            }
            let _ = alice.shutdown().await;
        }
        // ---------------- (c) full sessions: mirrored counts, second session silent
        {
            let alice = mk_handle(&["a1", "a2", "shared"], "alice-c");
            let bob = mk_handle(&["b1", "shared"], "bob-c");
            alice.open(namespace, OpenOpts::default().sync()).await.unwrap();
            bob.open(namespace, OpenOpts::default().sync()).await.unwrap();
            for round in 0..2 {
                let (a, b) = tokio::io::duplex(1 << 16);
                let (mut ar, mut aw) = tokio::io::split(a);
                let (br, bw) = tokio::io::split(b);
                let h = alice.clone();
                let at = tokio::task::spawn(async move { run_alice(&mut aw, &mut ar, &h, namespace, bob_id).await });
                let mut state = BobState::new(dialer_id);
                let bres = tokio::time::timeout(std::time::Duration::from_secs(20), state.run(bw, br, bob.clone(), |_ns, _peer| std::future::ready(AcceptOutcome::Allow))).await;
                let ares = tokio::time::timeout(std::time::Duration::from_secs(20), at).await;
                let bout = state.into_outcome();
                match (ares, bres) {
                    (Ok(Ok(Ok(aout))), Ok(Ok(ns))) => {
                        if ns != namespace || aout.num_sent != bout.num_recv || aout.num_recv != bout.num_sent {
                            eprintln!("c10steps(c): round {round}: counts do not mirror: alice sent {} recv {}, bob sent {} recv {}", aout.num_sent, aout.num_recv, bout.num_sent, bout.num_recv);
                            bad = true;
                        }
                        if round == 1 && (aout.num_sent != 0 || aout.num_recv != 0) {
                            eprintln!("c10steps(c): a second session between equal replicas transferred entries");
                            bad = true;
                        }
                    }
                    _ => {
                        eprintln!("c10steps(c): round {round}: a healthy session did not succeed on both sides");
                        bad = true;
                    }
                }
            }
            let mut sa = alice.shutdown().await.unwrap();
            let mut sb = bob.shutdown().await.unwrap();
            let ka: Vec<_> = sa.get_many(namespace, Query::all()).unwrap().map(|e| e.unwrap().key().to_vec()).collect();
            let kb: Vec<_> = sb.get_many(namespace, Query::all()).unwrap().map(|e| e.unwrap().key().to_vec()).collect();
            if ka != kb || ka.len() != 4 {
                eprintln!("c10steps(c): replicas differ after a complete session: {} vs {} entries", ka.len(), kb.len());
                bad = true;
            }
        }
        // ---------------- (c2) counts mirror also when the accepting side refuses one of the entries it is sent (an entry stamped
        // an hour ahead by a sender whose clock runs fast: stored by the sender, refused by the receiver's validation)
        {
            use crate::ranger::Store as _;
            let mut store = Store::memory();
            store.import_author(author.clone()).unwrap();
            let mut replica = store.new_replica(secret.clone()).unwrap();
            crate::verif_incrate::witness::block_on(replica.hash_and_insert("a1", &author, "a1")).unwrap();
            let ahead = (std::time::SystemTime::now() + std::time::Duration::from_secs(3600)).duration_since(std::time::UNIX_EPOCH).unwrap().as_micros() as u64;
            let e = crate::Entry::new(crate::RecordIdentifier::new(namespace, author.id(), b"ahead"), crate::Record::new(iroh_blobs::Hash::new(b"x"), 1, ahead)).sign(&secret, &author);
            replica.store.put(e).unwrap();
            drop(replica);
            store.close_replica(namespace);
            let alice = SyncHandle::spawn(store, None, "alice-c2".to_string());
            let bob = mk_handle(&["b1"], "bob-c2");
            alice.open(namespace, OpenOpts::default().sync()).await.unwrap();
            bob.open(namespace, OpenOpts::default().sync()).await.unwrap();
            let (a, b) = tokio::io::duplex(1 << 16);
            let (mut ar, mut aw) = tokio::io::split(a);
            let (br, bw) = tokio::io::split(b);
            let h = alice.clone();
            let at = tokio::task::spawn(async move { run_alice(&mut aw, &mut ar, &h, namespace, bob_id).await });
            let mut state = BobState::new(dialer_id);
            let bres = tokio::time::timeout(std::time::Duration::from_secs(20), state.run(bw, br, bob.clone(), |_ns, _peer| std::future::ready(AcceptOutcome::Allow))).await;
            let ares = tokio::time::timeout(std::time::Duration::from_secs(20), at).await;
            let bout = state.into_outcome();
            if let (Ok(Ok(Ok(aout))), Ok(Ok(_))) = (ares, bres) {
                if aout.num_sent != bout.num_recv || aout.num_recv != bout.num_sent {
                    eprintln!("c10steps(c2): both sides succeeded but the counts do not mirror: alice sent {} recv {}, bob sent {} recv {}", aout.num_sent, aout.num_recv, bout.num_sent, bout.num_recv);
                    bad = true;
                }
            }
            let _ = alice.shutdown().await;
            let _ = bob.shutdown().await;
        }
        // ---------------- (d) unexpected frames on the accepting side
        for script in 0..3 {
            let bob = mk_handle(&["b1"], "bob-d");
            bob.open(namespace, OpenOpts::default().sync()).await.unwrap();
            let (d, b) = tokio::io::duplex(1 << 16);
            let (br, bw) = tokio::io::split(b);
            let (_dr, dw) = tokio::io::split(d);
            let mut dw = FramedWrite::new(dw, SyncCodec);
            match script {
                0 => dw.send(Message::Sync(empty_message())).await.unwrap(),
                1 => dw.send(Message::Abort { reason: AbortReason::NotFound }).await.unwrap(),
                _ => {
                    let mut e = Store::memory();
                    let m1 = e.new_replica(secret.clone()).unwrap().sync_initial_message().unwrap();
                    let mut e2 = Store::memory();
                    let m2 = e2.new_replica(secret.clone()).unwrap().sync_initial_message().unwrap();
                    dw.send(Message::Init { namespace, message: m1 }).await.unwrap();
                    dw.send(Message::Init { namespace, message: m2 }).await.unwrap();
                }
            }
            dw.get_mut().shutdown().await.unwrap();
            let mut state = BobState::new(dialer_id);
            let res = tokio::time::timeout(std::time::Duration::from_secs(10), state.run(bw, br, bob.clone(), |_ns, _peer| std::future::ready(AcceptOutcome::Allow))).await;
            if !matches!(res, Ok(Err(_))) {
                eprintln!("c10steps(d): unexpected frame script {script} did not end with a reported error");
                bad = true;
            }
            let _ = state.into_outcome();
            let _ = bob.shutdown().await;
        }
        // ---------------- (e) an allowed request whose FIRST message cannot be processed (the document is not open for sync at the
        // acceptor): the failure is reported, and the state knows which document the failed session was about
        for sync_open in [false, true] {
            let bob = mk_handle(&["b1"], "bob-e");
            if sync_open {
                bob.open(namespace, OpenOpts::default()).await.unwrap(); // open, but sync switched off
            }
            let (d, b) = tokio::io::duplex(1 << 16);
            let (br, bw) = tokio::io::split(b);
            let (_dr, dw) = tokio::io::split(d);
            let mut dw = FramedWrite::new(dw, SyncCodec);
            let mut e = Store::memory();
            let m1 = e.new_replica(secret.clone()).unwrap().sync_initial_message().unwrap();
            dw.send(Message::Init { namespace, message: m1 }).await.unwrap();
            dw.get_mut().shutdown().await.unwrap();
            let mut state = BobState::new(dialer_id);
            let res = tokio::time::timeout(std::time::Duration::from_secs(10), state.run(bw, br, bob.clone(), |_ns, _peer| std::future::ready(AcceptOutcome::Allow))).await;
            if !matches!(res, Ok(Err(_))) {
                eprintln!("c10steps(e): a first message that cannot be processed did not end with a reported error");
                bad = true;
            }
            if state.namespace() != Some(namespace) {
                eprintln!("c10steps(e): after an allowed request failed, the state does not know the document ({:?})", state.namespace().is_some());
                bad = true;
            }
            let _ = state.into_outcome();
            let _ = bob.shutdown().await;
        }
        bad
    });
    bad
}

/// C10 (reporting after a failed accepted session, over a real QUIC connection on loopback): the dialer sends an allowed Init,
/// then a second Init (the session fails), then one stray byte (draining the stream fails too): the close error
/// `net::handle_connection` returns must still name the document of the session.
#[cfg(not(kani))]
pub fn witness_c10accept() -> bool {
    use crate::actor::OpenOpts;
    use crate::store::Store;
    use crate::NamespaceSecret;
    use iroh::endpoint::presets;
    use iroh::Endpoint;
    let rt = tokio::runtime::Builder::new_multi_thread().worker_threads(2).enable_all().build().unwrap();
    rt.block_on(async {
        let secret = NamespaceSecret::from_bytes(&[91u8; 32]);
        let namespace = secret.id();
        let mut store = Store::memory();
        {
            // one entry at the acceptor, so that the (empty) dialer's Init is answered and the session goes on to the next frame
            let author = crate::Author::from_bytes(&[92u8; 32]);
            let mut replica = store.new_replica(secret.clone()).unwrap();
            crate::verif_incrate::witness::block_on(replica.hash_and_insert("k", &author, "v")).unwrap();
        }
        store.close_replica(namespace);
        let bob = SyncHandle::spawn(store, None, "bob-accept".to_string());
        bob.open(namespace, OpenOpts::default().sync()).await.unwrap();
        let acc = match Endpoint::builder(presets::Minimal).alpns(vec![crate::ALPN.to_vec()]).bind().await {
            Ok(e) => e,
            Err(e) => {
                eprintln!("c10accept: cannot bind a loopback endpoint: {e}");
                return false;
            }
        };
        let dial = Endpoint::bind(presets::Minimal).await.unwrap();
        let addr = acc.addr();
        let bob2 = bob.clone();
        let acc2 = acc.clone();
        let task = tokio::task::spawn(async move {
            let incoming = acc2.accept().await.expect("an incoming connection");
            let conn = incoming.await.expect("the connection is established");
            crate::net::handle_connection(bob2, conn, |_ns, _peer| std::future::ready(AcceptOutcome::Allow), None).await
        });
        let conn = match tokio::time::timeout(std::time::Duration::from_secs(10), dial.connect(addr, crate::ALPN)).await {
            Ok(Ok(c)) => c,
            other => {
                eprintln!("c10accept: the loopback connection could not be established ({})", if other.is_err() { "timeout" } else { "error" });
                return false;
            }
        };
        let (mut send, mut recv) = conn.open_bi().await.unwrap();
        let mut buf = BytesMut::new();
        let mut e1 = Store::memory();
        let m1 = e1.new_replica(secret.clone()).unwrap().sync_initial_message().unwrap();
        let mut e2 = Store::memory();
        let m2 = e2.new_replica(secret.clone()).unwrap().sync_initial_message().unwrap();
        SyncCodec.encode(Message::Init { namespace, message: m1 }, &mut buf).unwrap();
        SyncCodec.encode(Message::Init { namespace, message: m2 }, &mut buf).unwrap();
        // the acceptor's replies are read as they come, so that its `stopped()` can complete
        let reader = tokio::task::spawn(async move { tokio::time::timeout(std::time::Duration::from_secs(10), recv.read_to_end(1 << 20)).await.is_ok() });
        send.write_all(&buf).await.unwrap();
        // stray bytes AFTER the session has failed (the frame reader buffers whatever is there while the session runs): draining
        // the stream in handle_connection then fails too
        tokio::time::sleep(std::time::Duration::from_millis(400)).await;
        let _ = send.write_all(&[0xAAu8; 2048]).await;
        let _ = send.finish();
        let _ = reader.await;
        let res = tokio::time::timeout(std::time::Duration::from_secs(20), task).await;
        let bad = match res {
            Ok(Ok(Err(err))) => {
                let ns = err.namespace();
                eprintln!("c10accept: the failed session was reported with its document: {}", ns.is_some());
                if ns != Some(namespace) {
                    eprintln!("c10accept: the accepted session failed and the report ({}) does not name its document", err.to_string().lines().next().unwrap_or(""));
                    true
                } else {
                    false
                }
            }
            Ok(Ok(Ok(_))) => {
                eprintln!("c10accept: a session with a duplicated Init was reported as a success");
                true
            }
            Ok(Err(e)) => {
                eprintln!("c10accept: handle_connection panicked: {e}");
                true
            }
            Err(_) => {
                eprintln!("c10accept: handle_connection waits forever");
                true
            }
        };
        conn.close(0u32.into(), b"done");
        let _ = bob.shutdown().await;
        bad
    })
}
