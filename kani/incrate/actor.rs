//! harness bodies: actor
