//! harness bodies: actor.rs (child module of `actor`)
use super::*;
use crate::verif_incrate::src::{ck, cv, Src};

/// C14: one step of the open/close counting from an arbitrary state of one document
/// (not open, or open with 1..=3 handles and sync on/off); a second document is never touched.
pub fn open_replicas_step<S: Src>(s: &mut S) {
    let ns = NamespaceId::from(&[1u8; 32]);
    let other = NamespaceId::from(&[2u8; 32]);
    let mut st = OpenReplicas::default();
    let pre_open = s.bool();
    let h0 = s.u8() as usize;
    s.assume(h0 >= 1 && h0 <= 3);
    let sync0 = s.bool();
    if pre_open {
        st.0.insert(ns, OpenReplica { info: ReplicaInfo::new(Capability::Read(ns)), sync: sync0, handles: h0 });
    }
    let op = s.u8();
    s.assume(op < 3);
    match op {
        0 => {
            let opt_sync = s.bool();
            let mut cb_calls = 0usize;
            let r = st.open_with(ns, OpenOpts { sync: opt_sync, subscribe: None }, || {
                cb_calls += 1;
                Ok(ReplicaInfo::new(Capability::Read(ns)))
            });
            ck!(s, r.is_ok(), "opening a loadable document succeeds");
            ck!(s, cb_calls == if pre_open { 0 } else { 1 }, "the store is asked for the document only on the first open");
            let (handles, sync) = match st.get_mut(&ns) {
                Ok(r) => (r.handles, r.sync),
                Err(e) => {
                    std::mem::forget(e);
                    (0, false)
                }
            };
            cv!(s, pre_open && sync0 && !opt_sync, "open_replicas_step: additional open without sync on a syncing document");
            ck!(s, handles == if pre_open { h0 + 1 } else { 1 }, "every open adds exactly one handle");
            ck!(s, sync == if pre_open { sync0 || opt_sync } else { opt_sync }, "enabling sync is sticky across additional opens");
        }
        1 => {
            let closed = st.close(ns);
            let want_closed = !pre_open || h0 == 1;
            cv!(s, pre_open && h0 > 1, "open_replicas_step: close with handles remaining");
            cv!(s, !pre_open, "open_replicas_step: close of a document that is not open");
            ck!(s, closed == want_closed, "close reports whether the document is closed afterwards");
            ck!(s, st.is_open(&ns) == (pre_open && h0 > 1), "a document stays open exactly while it holds at least one handle");
            if pre_open && h0 > 1 {
                let r = st.get_mut(&ns).ok().map(|r| (r.handles, r.sync));
                ck!(s, r == Some((h0 - 1, sync0)), "every close of an open document releases exactly one handle");
            }
        }
        _ => {
            let e = st.ensure_open(&ns);
            ck!(s, e.is_ok() == pre_open, "operations on a document succeed only while it is open");
            std::mem::forget(e);
            let g = st.get_mut(&ns).map(|r| (r.handles, r.sync));
            let got = g.as_ref().ok().copied();
            ck!(s, got == if pre_open { Some((h0, sync0)) } else { None }, "looking a document up does not change it");
            std::mem::forget(g);
        }
    }
    ck!(s, !st.is_open(&other), "other documents are unaffected");
    std::mem::forget(st);
}

/// A `SyncHandle` whose store actor is gone: the action channel is closed, so every request
/// fails at once — what a session observes when the actor stops (or, equivalently for the
/// session code, when the replica is closed or has sync disabled: the request returns an error).
/// No thread is spawned.  Callers `mem::forget` it (its `Drop` expects a join handle).
pub fn disconnected_handle() -> SyncHandle {
    let (tx, rx) = async_channel::bounded::<Action>(1);
    drop(rx);
    SyncHandle { tx, join_handle: Arc::new(None), metrics: Arc::new(Metrics::default()) }
}

/// Native witness for the E3 query c14_open_close: a battery of concrete open/close sequences on the
/// real `OpenReplicas`, compared with the specification.  Returns true if any sequence misbehaves.
#[cfg(not(kani))]
pub fn witness_c14() -> bool {
    let ns = NamespaceId::from(&[1u8; 32]);
    let mk = || -> Result<ReplicaInfo> { Ok(ReplicaInfo::new(Capability::Read(ns))) };
    let mut bad = Vec::new();
    // close of a document that is not open reports "closed"
    let mut st = OpenReplicas::default();
    if !st.close(ns) {
        bad.push("close of a not-open document returned false");
    }
    // open(sync), open(), sync stays on; handles count 2 -> 1 -> 0
    st.open_with(ns, OpenOpts { sync: true, subscribe: None }, mk).unwrap();
    st.open_with(ns, OpenOpts { sync: false, subscribe: None }, mk).unwrap();
    match st.get_mut(&ns) {
        Ok(r) => {
            if !r.sync {
                bad.push("sync was reset by an additional open without sync");
            }
            if r.handles != 2 {
                bad.push("two opens do not hold two handles");
            }
        }
        Err(_) => bad.push("document not open after two opens"),
    }
    if st.close(ns) {
        bad.push("close with a handle remaining reported closed");
    }
    if !st.is_open(&ns) {
        bad.push("document closed while a handle remains");
    }
    if !st.close(ns) {
        bad.push("closing the last handle did not report closed");
    }
    if st.is_open(&ns) {
        bad.push("document still open after its last handle was closed");
    }
    // open(), open(sync): sync turns on
    st.open_with(ns, OpenOpts { sync: false, subscribe: None }, mk).unwrap();
    st.open_with(ns, OpenOpts { sync: true, subscribe: None }, mk).unwrap();
    if !st.get_mut(&ns).map(|r| r.sync).unwrap_or(false) {
        bad.push("sync not enabled by a later open with sync");
    }
    for b in &bad {
        eprintln!("c14: {b}");
    }
    !bad.is_empty()
}
