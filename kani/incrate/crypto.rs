//! Ideal signature scheme (DESIGN.md §3.3): stubs for `iroh::PublicKey::{from_bytes, verify}`.
//!
//! ed25519 itself is trusted.  What is verified is the glue: which key bytes are parsed, which
//! message bytes and which signature are checked against which key, and that acceptance implies
//! all of that succeeded.  `verify(pk, msg, sig)` succeeds iff `(pk, msg, sig)` is one of the rows of
//! the harness's table of honestly produced signatures; `from_bytes` fails exactly for the
//! harness-chosen "not a curve point" ids.  Every call is logged.
use iroh::{KeyParsingError, PublicKey, Signature, SignatureError};

pub const MSG_MAX: usize = 120;

#[derive(Clone, Copy)]
pub struct SigRow {
    pub on: bool,
    pub pk: [u8; 32],
    pub msg: [u8; MSG_MAX],
    pub msg_len: usize,
    pub sig: [u8; 64],
}

pub struct CryptoModel {
    /// honest signature table
    pub table: [SigRow; 2],
    /// ids that are not curve points
    pub noncurve: [Option<[u8; 32]>; 2],
    /// log
    pub parsed: [Option<([u8; 32], bool)>; 4],
    pub n_parsed: usize,
    pub verified: [Option<(usize, bool)>; 4], // (matching table row or usize::MAX, result)
    pub n_verified: usize,
}

const EMPTY_ROW: SigRow = SigRow { on: false, pk: [0; 32], msg: [0; MSG_MAX], msg_len: 0, sig: [0; 64] };

pub static mut CM: CryptoModel = CryptoModel {
    table: [EMPTY_ROW; 2],
    noncurve: [None; 2],
    parsed: [None; 4],
    n_parsed: 0,
    verified: [None; 4],
    n_verified: 0,
};

#[allow(static_mut_refs)]
pub fn cm() -> &'static mut CryptoModel {
    unsafe { &mut CM }
}

pub fn reset() {
    let m = cm();
    m.table = [EMPTY_ROW; 2];
    m.noncurve = [None; 2];
    m.parsed = [None; 4];
    m.n_parsed = 0;
    m.verified = [None; 4];
    m.n_verified = 0;
}

pub fn set_row(i: usize, pk: [u8; 32], msg: &[u8], sig: [u8; 64]) {
    let m = cm();
    let mut buf = [0u8; MSG_MAX];
    buf[..msg.len()].copy_from_slice(msg);
    m.table[i] = SigRow { on: true, pk, msg: buf, msg_len: msg.len(), sig };
}

/// stub for `iroh::PublicKey::from_bytes`
pub fn pk_from_bytes(bytes: &[u8; 32]) -> Result<PublicKey, KeyParsingError> {
    let m = cm();
    let bad = m.noncurve.iter().any(|b| *b == Some(*bytes));
    if m.n_parsed < 4 {
        m.parsed[m.n_parsed] = Some((*bytes, !bad));
        m.n_parsed += 1;
    }
    if bad {
        Err(n0_error::e!(KeyParsingError::InvalidKeyData))
    } else {
        // PublicKey is a newtype around the 32 compressed bytes
        Ok(unsafe { std::mem::transmute::<[u8; 32], PublicKey>(*bytes) })
    }
}

/// stub for `iroh::PublicKey::verify`
pub fn pk_verify(pk: &PublicKey, message: &[u8], signature: &Signature) -> Result<(), SignatureError> {
    let m = cm();
    let sig = signature.to_bytes();
    let mut hit = usize::MAX;
    let mut i = 0;
    while i < 2 {
        let r = &m.table[i];
        if r.on && r.pk == *pk.as_bytes() && r.sig == sig && r.msg_len == message.len() && r.msg[..r.msg_len] == *message {
            hit = i;
        }
        i += 1;
    }
    if m.n_verified < 4 {
        m.verified[m.n_verified] = Some((hit, hit != usize::MAX));
        m.n_verified += 1;
    }
    if hit != usize::MAX {
        Ok(())
    } else {
        Err(SignatureError::new())
    }
}

// ---------------------------------------------------------------------------------------------
// Secret keys: `iroh::SecretKey::{from_bytes, to_bytes, public}` are stubbed as a unit.
// The SecretKey memory is treated as an opaque buffer whose first 32 bytes hold the secret
// (constructor and accessors are all stubs, so the convention is self-consistent); the public key
// is an injective function of the secret that differs from it (so confusing the two is visible).
// ---------------------------------------------------------------------------------------------
const SK_SIZE: usize = std::mem::size_of::<iroh::SecretKey>();

pub fn sk_from_bytes(bytes: &[u8; 32]) -> iroh::SecretKey {
    let mut buf = [0u8; SK_SIZE];
    buf[..32].copy_from_slice(bytes);
    unsafe { std::mem::transmute::<[u8; SK_SIZE], iroh::SecretKey>(buf) }
}

pub fn sk_to_bytes(sk: &iroh::SecretKey) -> [u8; 32] {
    unsafe { std::mem::transmute_copy::<iroh::SecretKey, [u8; 32]>(sk) }
}

/// the ideal public key of a secret: bitwise complement (injective, never equal to the secret)
pub fn ideal_public(secret: &[u8; 32]) -> [u8; 32] {
    let mut pk = *secret;
    let mut i = 0;
    while i < 32 {
        pk[i] = !pk[i];
        i += 1;
    }
    pk
}

pub fn sk_public(sk: &iroh::SecretKey) -> PublicKey {
    let pk = ideal_public(&sk_to_bytes(sk));
    unsafe { std::mem::transmute::<[u8; 32], PublicKey>(pk) }
}

// ---------------------------------------------------------------------------------------------
// Ideal hash: `blake3::Hasher::{new, update, finalize}` as a logging model.  The real hasher
// starts with CPU feature detection (inline asm); what is verified is WHICH bytes are hashed.
// ---------------------------------------------------------------------------------------------
pub const HLOG_MAX: usize = 160;
pub static mut HLOG: [u8; HLOG_MAX] = [0; HLOG_MAX];
pub static mut HLOG_LEN: usize = 0;
pub static mut HLOG_NEW: usize = 0;

pub fn hasher_new() -> blake3::Hasher {
    unsafe {
        HLOG_LEN = 0;
        HLOG_NEW += 1;
        std::mem::zeroed()
    }
}

#[allow(static_mut_refs)]
pub fn hasher_update<'a>(h: &'a mut blake3::Hasher, input: &[u8]) -> &'a mut blake3::Hasher {
    unsafe {
        let mut i = 0;
        while i < input.len() {
            if HLOG_LEN < HLOG_MAX {
                HLOG[HLOG_LEN] = input[i];
            }
            HLOG_LEN += 1;
            i += 1;
        }
    }
    h
}

/// the digest of the model: the first 32 logged bytes (enough to be a function of the log)
#[allow(static_mut_refs)]
pub fn hasher_finalize(_h: &blake3::Hasher) -> blake3::Hash {
    let mut out = [0u8; 32];
    unsafe {
        out.copy_from_slice(&HLOG[..32]);
    }
    blake3::Hash::from_bytes(out)
}
