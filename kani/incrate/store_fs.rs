//! harness bodies: store/fs.rs (child module of `store::fs`)
use std::ops::{Bound, RangeBounds};

use bytes::Bytes;

use super::{
    bounds::{ByKeyBounds, RecordsBounds},
    tables::{RecordsByKeyIdOwned, RecordsIdOwned},
};
use crate::{
    store::KeyFilter,
    verif_incrate::src::{ck, cv, Src},
    AuthorId, NamespaceId,
};

/// A 32-byte id.  FULL: all 32 bytes independent symbolic values (thorough tier).  Otherwise
/// 30 bytes of one symbolic fill value followed by two independent symbolic bytes: still covers
/// the all-0xFF / trailing-0xFF / 0x00 edges that the bound arithmetic depends on, with far fewer
/// SAT variables.
pub fn id32<S: Src, const FULL: bool>(s: &mut S) -> [u8; 32] {
    if FULL {
        s.arr()
    } else {
        let fill = s.u8();
        let t: [u8; 2] = s.arr();
        let mut a = [fill; 32];
        a[30] = t[0];
        a[31] = t[1];
        a
    }
}

// ---------------------------------------------------------------------------------------------
// C02/C05/C08/C16 bounds kernel: the range handed to redb contains exactly the ids it should.
// ---------------------------------------------------------------------------------------------

/// `RecordsBounds::author_prefix(ns, a, p)` contains `id` <=> same ns, same author, key starts
/// with p.  P = prefix length, K = candidate key length (concrete per instance).
pub fn bounds_author_prefix<S: Src, const P: usize, const K: usize, const FULL: bool>(s: &mut S) {
    let ns: [u8; 32] = id32::<S, FULL>(s);
    let author: [u8; 32] = id32::<S, FULL>(s);
    let prefix: [u8; P] = s.arr();
    let cns: [u8; 32] = id32::<S, FULL>(s);
    let cauthor: [u8; 32] = id32::<S, FULL>(s);
    let ckey: [u8; K] = s.arr();
    let b = RecordsBounds::author_prefix(
        NamespaceId::from(&ns),
        AuthorId::from(&author),
        Bytes::copy_from_slice(&prefix),
    );
    let id: RecordsIdOwned = (cns, cauthor, Bytes::copy_from_slice(&ckey));
    let got = b.contains(&id);
    let want = cns == ns && cauthor == author && ckey.starts_with(&prefix);
    // (instance-dependent witnesses are trivially true where the instance cannot satisfy them)
    cv!(s, K < P || (got && want), "bounds_author_prefix: a matching id exists");
    cv!(s, P == 0 || (!want && cns == ns && cauthor == author), "bounds_author_prefix: same author, other key");
    ck!(
        s,
        got == want,
        "author_prefix range contains exactly the ids of that namespace+author whose key starts with the prefix",
    );
}


/// `RecordsBounds::author_key(ns, a, Exact(k) | Any)`.
pub fn bounds_author_key<S: Src, const P: usize, const K: usize, const FULL: bool>(s: &mut S) {
    let ns: [u8; 32] = id32::<S, FULL>(s);
    let author: [u8; 32] = id32::<S, FULL>(s);
    let fkey: [u8; P] = s.arr();
    let exact = s.bool();
    let cns: [u8; 32] = id32::<S, FULL>(s);
    let cauthor: [u8; 32] = id32::<S, FULL>(s);
    let ckey: [u8; K] = s.arr();
    let filter = if exact {
        KeyFilter::Exact(Bytes::copy_from_slice(&fkey))
    } else {
        KeyFilter::Any
    };
    let b = RecordsBounds::author_key(NamespaceId::from(&ns), AuthorId::from(&author), filter);
    let id: RecordsIdOwned = (cns, cauthor, Bytes::copy_from_slice(&ckey));
    let got = b.contains(&id);
    let want = cns == ns && cauthor == author && (!exact || ckey[..] == fkey[..]);
    cv!(s, got && want && !exact, "bounds_author_key: Any matches");
    cv!(s, P != K || (got && want && exact), "bounds_author_key: Exact matches");
    ck!(
        s,
        got == want,
        "author_key range (Exact/Any) contains exactly the ids of that namespace+author with the exact key / any key",
    );
}

/// `RecordsBounds::namespace(ns)`, `from_start(ns, Excluded(y))`, `to_end(ns, Included(x))`:
/// the three pieces `get_range` is built from.
pub fn bounds_namespace<S: Src, const K: usize, const B: usize, const FULL: bool>(s: &mut S) {
    let ns: [u8; 32] = id32::<S, FULL>(s);
    let cns: [u8; 32] = id32::<S, FULL>(s);
    let cauthor: [u8; 32] = id32::<S, FULL>(s);
    let ckey: [u8; K] = s.arr();
    let id: RecordsIdOwned = (cns, cauthor, Bytes::copy_from_slice(&ckey));
    let nsid = NamespaceId::from(&ns);

    let got = RecordsBounds::namespace(nsid).contains(&id);
    cv!(s, got, "bounds_namespace: an id inside the namespace");
    cv!(s, !got && cns != ns, "bounds_namespace: an id outside the namespace");
    ck!(s, got == (cns == ns), "namespace range contains exactly the ids of that namespace");

    // a bound id inside the same namespace
    let bauthor: [u8; 32] = id32::<S, FULL>(s);
    let bkey: [u8; B] = s.arr();
    let bound: RecordsIdOwned = (ns, bauthor, Bytes::copy_from_slice(&bkey));
    let got = RecordsBounds::from_start(&nsid, Bound::Excluded(bound.clone())).contains(&id);
    ck!(
        s,
        got == (cns == ns && id < bound),
        "from_start(ns, Excluded(y)) contains exactly the ids of ns that sort before y",
    );
    let got = RecordsBounds::to_end(&nsid, Bound::Included(bound.clone())).contains(&id);
    ck!(
        s,
        got == (cns == ns && id >= bound),
        "to_end(ns, Included(x)) contains exactly the ids of ns that sort at or after x",
    );
}

/// `ByKeyBounds::new(ns, filter)` / `ByKeyBounds::namespace(ns)` over the (ns, key, author) index.
pub fn bounds_bykey<S: Src, const P: usize, const K: usize, const FULL: bool>(s: &mut S) {
    let ns: [u8; 32] = id32::<S, FULL>(s);
    let fkey: [u8; P] = s.arr();
    let kind = s.u8();
    s.assume(kind < 3);
    let cns: [u8; 32] = id32::<S, FULL>(s);
    let cauthor: [u8; 32] = id32::<S, FULL>(s);
    let ckey: [u8; K] = s.arr();
    let filter = match kind {
        0 => KeyFilter::Any,
        1 => KeyFilter::Exact(Bytes::copy_from_slice(&fkey)),
        _ => KeyFilter::Prefix(Bytes::copy_from_slice(&fkey)),
    };
    let b = ByKeyBounds::new(NamespaceId::from(&ns), &filter);
    let id: RecordsByKeyIdOwned = (cns, Bytes::copy_from_slice(&ckey), cauthor);
    let got = b.contains(&id);
    let want = cns == ns
        && match kind {
            0 => true,
            1 => ckey[..] == fkey[..],
            _ => ckey.starts_with(&fkey),
        };
    cv!(s, got && want && kind == 0, "bounds_bykey: Any matches");
    cv!(s, K < P || (got && want && kind == 2), "bounds_bykey: Prefix matches");
    cv!(s, P == 0 || (!want && cns == ns && kind == 2), "bounds_bykey: Prefix, other key in same namespace");
    ck!(
        s,
        got == want,
        "by-key index range contains exactly the (ns,key,author) rows whose namespace matches and key matches the filter",
    );
    let got = ByKeyBounds::namespace(NamespaceId::from(&ns)).contains(&id);
    ck!(s, got == (cns == ns), "by-key namespace range contains exactly the rows of that namespace");
}
