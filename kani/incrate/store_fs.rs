//! harness bodies: store/fs.rs (child module of `store::fs`)
use std::ops::{Bound, RangeBounds};

use bytes::Bytes;

use super::{
    bounds::{ByKeyBounds, RecordsBounds},
    tables::{RecordsByKeyIdOwned, RecordsIdOwned},
    Store, StoreInstance,
};
use crate::{
    store::KeyFilter,
    verif_incrate::src::{ck, cv, Src},
    AuthorId, NamespaceId,
};

/// A 32-byte id.  FULL: all 32 bytes independent symbolic values (thorough tier).  Otherwise
/// 30 bytes of one symbolic fill value followed by two independent symbolic bytes: still covers
/// the all-0xFF / trailing-0xFF / 0x00 edges that the bound arithmetic depends on, with far fewer
/// SAT variables.
pub fn id32<S: Src, const FULL: bool>(s: &mut S) -> [u8; 32] {
    if FULL {
        s.arr()
    } else {
        let fill = s.u8();
        let t: [u8; 2] = s.arr();
        let mut a = [fill; 32];
        a[30] = t[0];
        a[31] = t[1];
        a
    }
}

// ---------------------------------------------------------------------------------------------
// C02/C05/C08/C16 bounds kernel: the range handed to redb contains exactly the ids it should.
// ---------------------------------------------------------------------------------------------

/// `RecordsBounds::author_prefix(ns, a, p)` contains `id` <=> same ns, same author, key starts
/// with p.  P = prefix length, K = candidate key length (concrete per instance).
pub fn bounds_author_prefix<S: Src, const P: usize, const K: usize, const FULL: bool>(s: &mut S) {
    let ns: [u8; 32] = id32::<S, FULL>(s);
    let author: [u8; 32] = id32::<S, FULL>(s);
    let prefix: [u8; P] = s.arr();
    let cns: [u8; 32] = id32::<S, FULL>(s);
    let cauthor: [u8; 32] = id32::<S, FULL>(s);
    let ckey: [u8; K] = s.arr();
    let b = RecordsBounds::author_prefix(
        NamespaceId::from(&ns),
        AuthorId::from(&author),
        Bytes::copy_from_slice(&prefix),
    );
    let id: RecordsIdOwned = (cns, cauthor, Bytes::copy_from_slice(&ckey));
    let got = b.contains(&id);
    let want = cns == ns && cauthor == author && ckey.starts_with(&prefix);
    // (instance-dependent witnesses are trivially true where the instance cannot satisfy them)
    cv!(s, K < P || (got && want), "bounds_author_prefix: a matching id exists");
    cv!(s, P == 0 || (!want && cns == ns && cauthor == author), "bounds_author_prefix: same author, other key");
    ck!(
        s,
        got == want,
        "author_prefix range contains exactly the ids of that namespace+author whose key starts with the prefix",
    );
}


/// `RecordsBounds::author_key(ns, a, Exact(k) | Any)`.
pub fn bounds_author_key<S: Src, const P: usize, const K: usize, const FULL: bool>(s: &mut S) {
    let ns: [u8; 32] = id32::<S, FULL>(s);
    let author: [u8; 32] = id32::<S, FULL>(s);
    let fkey: [u8; P] = s.arr();
    let exact = s.bool();
    let cns: [u8; 32] = id32::<S, FULL>(s);
    let cauthor: [u8; 32] = id32::<S, FULL>(s);
    let ckey: [u8; K] = s.arr();
    let filter = if exact {
        KeyFilter::Exact(Bytes::copy_from_slice(&fkey))
    } else {
        KeyFilter::Any
    };
    let b = RecordsBounds::author_key(NamespaceId::from(&ns), AuthorId::from(&author), filter);
    let id: RecordsIdOwned = (cns, cauthor, Bytes::copy_from_slice(&ckey));
    let got = b.contains(&id);
    let want = cns == ns && cauthor == author && (!exact || ckey[..] == fkey[..]);
    cv!(s, got && want && !exact, "bounds_author_key: Any matches");
    cv!(s, P != K || (got && want && exact), "bounds_author_key: Exact matches");
    ck!(
        s,
        got == want,
        "author_key range (Exact/Any) contains exactly the ids of that namespace+author with the exact key / any key",
    );
}

/// `RecordsBounds::namespace(ns)`, `from_start(ns, Excluded(y))`, `to_end(ns, Included(x))`:
/// the three pieces `get_range` is built from.
pub fn bounds_namespace<S: Src, const K: usize, const B: usize, const FULL: bool>(s: &mut S) {
    let ns: [u8; 32] = id32::<S, FULL>(s);
    let cns: [u8; 32] = id32::<S, FULL>(s);
    let cauthor: [u8; 32] = id32::<S, FULL>(s);
    let ckey: [u8; K] = s.arr();
    let id: RecordsIdOwned = (cns, cauthor, Bytes::copy_from_slice(&ckey));
    let nsid = NamespaceId::from(&ns);

    let got = RecordsBounds::namespace(nsid).contains(&id);
    cv!(s, got, "bounds_namespace: an id inside the namespace");
    cv!(s, !got && cns != ns, "bounds_namespace: an id outside the namespace");
    ck!(s, got == (cns == ns), "namespace range contains exactly the ids of that namespace");

    // a bound id inside the same namespace
    let bauthor: [u8; 32] = id32::<S, FULL>(s);
    let bkey: [u8; B] = s.arr();
    let bound: RecordsIdOwned = (ns, bauthor, Bytes::copy_from_slice(&bkey));
    let got = RecordsBounds::from_start(&nsid, Bound::Excluded(bound.clone())).contains(&id);
    ck!(
        s,
        got == (cns == ns && id < bound),
        "from_start(ns, Excluded(y)) contains exactly the ids of ns that sort before y",
    );
    let got = RecordsBounds::to_end(&nsid, Bound::Included(bound.clone())).contains(&id);
    ck!(
        s,
        got == (cns == ns && id >= bound),
        "to_end(ns, Included(x)) contains exactly the ids of ns that sort at or after x",
    );
}

/// `RecordsBounds::new(Included(x), Excluded(y)).clamp_to_namespace(ns)` and the clamped `from_start` / `to_end` pieces, for
/// bound ids of ANY namespace (range end points come out of a peer's message): the scan never leaves the namespace and keeps
/// exactly the ids of `ns` inside the original bounds.
pub fn bounds_clamp<S: Src, const K: usize, const B: usize, const FULL: bool>(s: &mut S) {
    let ns: [u8; 32] = id32::<S, FULL>(s);
    let nsid = NamespaceId::from(&ns);
    let id: RecordsIdOwned = (id32::<S, FULL>(s), id32::<S, FULL>(s), Bytes::copy_from_slice(&s.arr::<K>()));
    let x: RecordsIdOwned = (id32::<S, FULL>(s), id32::<S, FULL>(s), Bytes::copy_from_slice(&s.arr::<B>()));
    let y: RecordsIdOwned = (id32::<S, FULL>(s), id32::<S, FULL>(s), Bytes::copy_from_slice(&s.arr::<B>()));
    let inside = id.0 == ns;
    cv!(s, inside && x.0 != ns && y.0 != ns && x <= id && id < y, "bounds_clamp: both end points outside, the id inside");
    cv!(s, !inside && x <= id && id < y, "bounds_clamp: an id of another namespace inside the unclamped bounds");
    let got = RecordsBounds::new(Bound::Included(x.clone()), Bound::Excluded(y.clone())).clamp_to_namespace(&nsid).contains(&id);
    ck!(s, got == (inside && x <= id && id < y), "the clamped range [x, y) contains exactly the ids of the namespace that lie in [x, y), whatever namespaces x and y name");
    let got = RecordsBounds::from_start(&nsid, Bound::Excluded(y.clone())).clamp_to_namespace(&nsid).contains(&id);
    ck!(s, got == (inside && id < y), "the clamped from_start(ns, Excluded(y)) contains exactly the ids of ns that sort before y, whatever namespace y names");
    let got = RecordsBounds::to_end(&nsid, Bound::Included(x.clone())).clamp_to_namespace(&nsid).contains(&id);
    ck!(s, got == (inside && id >= x), "the clamped to_end(ns, Included(x)) contains exactly the ids of ns that sort at or after x, whatever namespace x names");
}

/// `ByKeyBounds::new(ns, filter)` / `ByKeyBounds::namespace(ns)` over the (ns, key, author) index.
pub fn bounds_bykey<S: Src, const P: usize, const K: usize, const FULL: bool>(s: &mut S) {
    let ns: [u8; 32] = id32::<S, FULL>(s);
    let fkey: [u8; P] = s.arr();
    let kind = s.u8();
    s.assume(kind < 3);
    let cns: [u8; 32] = id32::<S, FULL>(s);
    let cauthor: [u8; 32] = id32::<S, FULL>(s);
    let ckey: [u8; K] = s.arr();
    let filter = match kind {
        0 => KeyFilter::Any,
        1 => KeyFilter::Exact(Bytes::copy_from_slice(&fkey)),
        _ => KeyFilter::Prefix(Bytes::copy_from_slice(&fkey)),
    };
    let b = ByKeyBounds::new(NamespaceId::from(&ns), &filter);
    let id: RecordsByKeyIdOwned = (cns, Bytes::copy_from_slice(&ckey), cauthor);
    let got = b.contains(&id);
    let want = cns == ns
        && match kind {
            0 => true,
            1 => ckey[..] == fkey[..],
            _ => ckey.starts_with(&fkey),
        };
    cv!(s, got && want && kind == 0, "bounds_bykey: Any matches");
    cv!(s, K < P || (got && want && kind == 2), "bounds_bykey: Prefix matches");
    cv!(s, P == 0 || (!want && cns == ns && kind == 2), "bounds_bykey: Prefix, other key in same namespace");
    ck!(
        s,
        got == want,
        "by-key index range contains exactly the (ns,key,author) rows whose namespace matches and key matches the filter",
    );
    let got = ByKeyBounds::namespace(NamespaceId::from(&ns)).contains(&id);
    ck!(s, got == (cns == ns), "by-key namespace range contains exactly the rows of that namespace");
}

// ---------------------------------------------------------------------------------------------
// E2: the real storage layer over the redb model (natively: over real redb)
// ---------------------------------------------------------------------------------------------
use crate::ranger::{InsertOutcome, Store as RangerStore};
use redb::{ReadableTable, ReadableTableMetadata};
use crate::sync::{Entry, EntrySignature, Record, RecordIdentifier, SignedEntry};
use iroh_blobs::Hash;

pub const NS: [u8; 32] = [0x11; 32];
pub const AUTHOR_A: [u8; 32] = [0xA1; 32];
pub const AUTHOR_B: [u8; 32] = [0xB2; 32];

/// key shapes: the 0xFF / prefix / empty-key edge cases named by the properties
pub const MENU: [&[u8]; 8] = [b"", b"a", b"a\xff", b"a\xff\x00", b"b", b"ab", b"\xff", b"\xff\xff"];

pub fn mk_entry(ns: [u8; 32], author: [u8; 32], key: &[u8], ts: u64, tombstone: bool, hbyte: u8) -> SignedEntry {
    let id = RecordIdentifier::new(NamespaceId::from(&ns), AuthorId::from(&author), key);
    let record = if tombstone {
        Record::empty(ts)
    } else {
        let mut h = [0x33u8; 32];
        h[0] = hbyte;
        Record::new(Hash::from_bytes(h), 7, ts)
    };
    SignedEntry::new(EntrySignature::from_parts(&[1u8; 64], &[2u8; 64]), Entry::new(id, record))
}

/// Kill-criterion probe (DESIGN.md §3.4): real `Store::memory` + `StoreInstance::put` twice + `get_exact`.
pub fn e2_probe<S: Src>(s: &mut S) {
    let mut store = Store::memory();
    let ns = NamespaceId::from(&NS);
    let (t1, t2) = (s.u64(), s.u64());
    let e1 = mk_entry(NS, AUTHOR_A, b"a", t1, false, 1);
    let e2 = mk_entry(NS, AUTHOR_A, b"ab", t2, false, 2);
    let mut inst = StoreInstance::new(ns, &mut store);
    let o1 = inst.put(e1).unwrap();
    ck!(s, matches!(o1, InsertOutcome::Inserted { removed: 0 }), "first entry inserted into the empty store");
    let o2 = inst.put(e2).unwrap();
    let admitted = t2 > t1 || (t2 == t1 && false);
    cv!(s, matches!(o2, InsertOutcome::Inserted { .. }), "e2_probe: second entry admitted");
    cv!(s, matches!(o2, InsertOutcome::NotInserted), "e2_probe: second entry rejected");
    let got = store.get_exact(ns, AuthorId::from(&AUTHOR_A), b"ab", true).unwrap();
    ck!(s, got.is_some() == matches!(o2, InsertOutcome::Inserted { .. }), "get_exact finds the entry iff it was inserted");
    std::mem::forget(store);
}

/// A store over a fresh in-memory database WITHOUT running `new_impl`'s table setup + migrations
/// (string handling of migration names is expensive to execute symbolically and irrelevant to
/// everything but C18): the tables are created by `Tables::new` on the first `tables()`/`modify()`.
pub fn fresh_store() -> Store {
    let db = redb::Database::builder().create_with_backend(redb::backends::InMemoryBackend::new()).unwrap();
    // (the E2 harnesses that needed the cheaper struct literal are run by no tier; going through the constructor keeps the
    // harness crate building when the store gains a field)
    Store::new_impl(db).unwrap()
}

/// cost probe: only `Store::memory()` (table setup + migrations on an empty database)
pub fn e2_mem<S: Src>(s: &mut S) {
    let store = Store::memory();
    cv!(s, true, "e2_mem: store created");
    std::mem::forget(store);
}

/// A view of one records-table row.
#[derive(Clone, Copy, PartialEq, Eq, Debug)]
pub struct RowView {
    pub author: [u8; 32],
    pub klen: usize,
    pub key: [u8; 4],
    pub ts: u64,
    pub len: u64,
    pub hash0: u8,
    pub empty: bool,
}

pub const VIEW_CAP: usize = 4;

impl RowView {
    pub fn of(e: &SignedEntry) -> RowView {
        let mut key = [0u8; 4];
        let k = e.key();
        let klen = k.len();
        let mut i = 0;
        while i < 4 {
            if i < klen {
                key[i] = k[i];
            }
            i += 1;
        }
        RowView {
            author: e.author().to_bytes(),
            klen,
            key,
            ts: e.timestamp(),
            len: e.content_len(),
            hash0: e.content_hash().as_bytes()[0],
            empty: e.content_hash() == Hash::EMPTY,
        }
    }
    pub fn key(&self) -> &[u8] {
        &self.key[..self.klen]
    }
    /// Record order: (timestamp, hash)
    pub fn value_le(&self, o: &RowView) -> bool {
        // hashes in the harness differ only in byte 0 (or are EMPTY = 0xaf...)
        (self.ts, self.hash_key()) <= (o.ts, o.hash_key())
    }
    fn hash_key(&self) -> u8 {
        if self.empty {
            Hash::EMPTY.as_bytes()[0]
        } else {
            self.hash0
        }
    }
}

/// all rows of `ns` in the records table, in table order
pub fn dump_records(store: &mut Store, ns: NamespaceId) -> (usize, [Option<RowView>; VIEW_CAP]) {
    let mut out = [None; VIEW_CAP];
    let mut n = 0;
    let tables = store.tables().unwrap();
    let bounds = RecordsBounds::namespace(ns);
    let mut it = tables.records.range(bounds.as_ref()).unwrap();
    while let Some(r) = it.next() {
        let (k, v) = r.unwrap();
        let e = super::into_entry(k.value(), v.value());
        if n < VIEW_CAP {
            out[n] = Some(RowView::of(&e));
        }
        n += 1;
        std::mem::forget(e);
    }
    (n, out)
}

/// write rows directly into the three record tables (an injected state), bypassing `put`
pub fn inject(store: &mut Store, entries: &[SignedEntry]) {
    store
        .modify(|tables| {
            for e in entries {
                let id = e.id();
                let ns = id.namespace().to_bytes();
                let au = id.author().to_bytes();
                let hash = e.content_hash();
                tables.records.insert(
                    (&ns, &au, id.key()),
                    (e.timestamp(), &e.signature().namespace().to_bytes(), &e.signature().author().to_bytes(), e.content_len(), hash.as_bytes()),
                )?;
                tables.records_by_key.insert((&ns, id.key(), &au), ())?;
            }
            Ok(())
        })
        .unwrap();
}

/// C02 on the real store: one `put` from an injected two-row state (row keys K1, K2 by author A
/// or B; the new entry has key KE by author A).  Key shapes are concrete per instance (indices into
/// MENU); timestamps, deletion-marker flags, hash bytes and the second row's author are symbolic.
pub fn e2_put<S: Src, const K1: usize, const K2: usize, const KE: usize>(s: &mut S) {
    let ns = NamespaceId::from(&NS);
    let mut store = fresh_store();
    let (t1, t2, te) = (s.u64(), s.u64(), s.u64());
    let (d1, d2, de) = (s.bool(), s.bool(), s.bool());
    let (h1, h2, he) = (s.u8(), s.u8(), s.u8());
    let second_by_b = s.bool();
    let a2 = if second_by_b { AUTHOR_B } else { AUTHOR_A };
    let r1 = mk_entry(NS, AUTHOR_A, MENU[K1], t1, d1, h1);
    let r2 = mk_entry(NS, a2, MENU[K2], t2, d2, h2);
    s.assume(K1 != K2 || second_by_b); // unique (author, key)
    let e = mk_entry(NS, AUTHOR_A, MENU[KE], te, de, he);
    let (v1, v2, ve) = (RowView::of(&r1), RowView::of(&r2), RowView::of(&e));
    inject(&mut store, &[r1, r2]);
    let mut inst = StoreInstance::new(ns, &mut store);
    let outcome = inst.put(e).unwrap();
    let (n, rows) = dump_records(&mut store, ns);
    // oracle
    let blocks = |x: &RowView| x.author == ve.author && ve.key().starts_with(x.key()) && ve.value_le(x);
    let admitted = !blocks(&v1) && !blocks(&v2);
    let pruned = |x: &RowView| x.author == ve.author && x.key().starts_with(ve.key()) && x.value_le(&ve);
    let has = |x: &RowView| rows.iter().any(|r| *r == Some(*x));
    cv!(s, admitted, "e2_put: admitted");
    cv!(s, !admitted, "e2_put: rejected");
    match outcome {
        // any outcome that is not `Inserted` means "not stored" (a new variant must not break the harness build)
        o if !matches!(o, InsertOutcome::Inserted { .. }) => {
            ck!(s, !admitted, "the store rejects an entry only if an entry by the same author at its key or at a prefix of it is not older");
            ck!(s, n == 2 && has(&v1) && has(&v2), "a rejected entry changes nothing");
        }
        InsertOutcome::Inserted { removed } => {
            ck!(s, admitted, "the store admits an entry only if no entry by the same author at its key or at a prefix of it is newer or equal");
            ck!(s, has(&ve), "an admitted entry is stored");
            let want_removed = pruned(&v1) as usize + pruned(&v2) as usize;
            cv!(s, want_removed > 0, "e2_put: something pruned");
            ck!(s, removed == want_removed, "the reported count is the number of same-author entries under the new key that are not newer");
            ck!(s, has(&v1) == (!pruned(&v1) || v1 == ve) && has(&v2) == (!pruned(&v2) || v2 == ve),
                "exactly the same-author entries whose key starts with the new key and that are not newer are removed; other authors and lexical neighbours are untouched");
            ck!(s, n == 3 - want_removed, "nothing else is added or removed");
        }
        #[allow(unreachable_patterns)]
        _ => {}
    }
    std::mem::forget(store);
}

// ---------------------------------------------------------------------------------------------
// controllable wall clock for the store harnesses (read by the `SystemTime::now` stub)
// ---------------------------------------------------------------------------------------------
pub static mut CLOCK_NANOS: u64 = 0;

pub fn set_clock_nanos(n: u64) {
    unsafe { CLOCK_NANOS = n }
}
pub fn clock_now() -> std::time::SystemTime {
    std::time::UNIX_EPOCH + std::time::Duration::from_nanos(unsafe { CLOCK_NANOS })
}

fn peer(b: u8) -> [u8; 32] {
    [b; 32]
}

/// write a namespace (capability) row directly
pub fn inject_namespace(store: &mut Store, ns: [u8; 32], kind: u8, bytes: [u8; 32]) {
    store.modify(|t| {
        t.namespaces.insert(&ns, (kind, &bytes))?;
        Ok(())
    }).unwrap();
}

/// C17: one registration step from an arbitrary valid list of N <= 5 useful peers (distinct
/// peers P1..PN with strictly increasing symbolic timestamps).  The registered peer is symbolic:
/// one of the stored ones or a new one.  Afterwards the list is the previous one with the peer moved
/// (or added) to the front, truncated to the five most recent; another document's list and an
/// unknown document are unaffected.
pub fn e2_peers_step<S: Src, const N: usize>(s: &mut S) {
    let ns = NS;
    let other = [0x12u8; 32];
    let mut store = fresh_store();
    inject_namespace(&mut store, ns, 2, ns);
    inject_namespace(&mut store, other, 2, other);
    let mut nanos = [0u64; 5];
    let mut prev = 0u64;
    let mut i = 0;
    while i < N {
        let d = s.u64();
        s.assume(d >= 1 && d < (1 << 40));
        prev += d;
        nanos[i] = prev;
        i += 1;
    }
    store.modify(|t| {
        let mut i = 0;
        while i < N {
            t.namespace_peers.insert(&ns, (nanos[i], &peer(i as u8 + 1)))?;
            i += 1;
        }
        t.namespace_peers.insert(&other, (7u64, &peer(0x77)))?;
        Ok(())
    }).unwrap();
    let pb = s.u8();
    s.assume(pb >= 1 && pb as usize <= N + 1); // N+1 = a new peer
    let now_delta = s.u64();
    s.assume(now_delta >= 1 && now_delta < (1 << 40));
    set_clock_nanos(prev + now_delta); // the clock is strictly increasing between registrations (stated assumption)
    let r = store.register_useful_peer(NamespaceId::from(&ns), peer(pb));
    ck!(s, r.is_ok(), "registering a peer for a known document succeeds");
    // expected list, most recent first
    let mut want = [[0u8; 32]; 5];
    let mut wn = 0;
    want[0] = peer(pb);
    wn += 1;
    let mut i = N;
    while i > 0 {
        i -= 1;
        if (i as u8 + 1) != pb && wn < 5 {
            want[wn] = peer(i as u8 + 1);
            wn += 1;
        }
    }
    let got = store.get_sync_peers(&NamespaceId::from(&ns)).unwrap();
    let mut gl = [[0u8; 32]; 6];
    let mut gn = 0;
    if let Some(it) = got {
        for p in it {
            if gn < 6 {
                gl[gn] = p;
            }
            gn += 1;
        }
    }
    cv!(s, pb as usize <= N || N == 0, "e2_peers_step: re-registration of a stored peer");
    cv!(s, pb as usize == N + 1, "e2_peers_step: a new peer");
    ck!(s, gn == wn, "the list holds at most five peers, without duplicates");
    ck!(s, gl[..5] == want[..], "the peers are the most recently registered distinct ones, most recent first");
    // the other document is untouched; an unknown document is refused and nothing changes
    let o = store.get_sync_peers(&NamespaceId::from(&other)).unwrap().map(|it| it.collect::<Vec<_>>());
    ck!(s, o == Some(vec![peer(0x77)]), "another document's peer list is unaffected");
    let unknown = store.register_useful_peer(NamespaceId::from(&[0x99u8; 32]), peer(1));
    ck!(s, unknown.is_err(), "registering for an unknown document fails");
    std::mem::forget(unknown);
    let none = store.get_sync_peers(&NamespaceId::from(&[0x99u8; 32])).unwrap();
    ck!(s, none.is_none(), "and records nothing");
    std::mem::forget(store);
}

/// all head rows `(namespace, author) -> (timestamp, key)` of a namespace
pub fn dump_heads(store: &mut Store, ns: NamespaceId) -> (usize, [Option<([u8; 32], u64)>; 3]) {
    let mut out = [None; 3];
    let mut n = 0;
    let it = store.get_latest_for_each_author(ns).unwrap();
    for r in it {
        let (a, ts, _k) = r.unwrap();
        if n < 3 {
            out[n] = Some((a.to_bytes(), ts));
        }
        n += 1;
    }
    (n, out)
}

/// C13 stored heads: after `put` of entries arriving in ANY timestamp order, the reported head of
/// an author is the greatest timestamp among that author's entries held.  Two entries by author A
/// at unrelated keys (no pruning involved), plus one by author B.
pub fn e2_heads_after_put<S: Src>(s: &mut S) {
    let ns = NamespaceId::from(&NS);
    let mut store = fresh_store();
    let (t1, t2, tb) = (s.u64(), s.u64(), s.u64());
    let e1 = mk_entry(NS, AUTHOR_A, b"a", t1, false, 1);
    let e2 = mk_entry(NS, AUTHOR_A, b"b", t2, false, 2);
    let eb = mk_entry(NS, AUTHOR_B, b"a", tb, false, 3);
    let mut inst = StoreInstance::new(ns, &mut store);
    let _ = inst.put(e1).unwrap();
    let _ = inst.put(eb).unwrap();
    let _ = inst.put(e2).unwrap();
    let (n, heads) = dump_heads(&mut store, ns);
    cv!(s, t2 < t1, "e2_heads_after_put: the later arrival is older");
    ck!(s, n == 2, "one head per author");
    let ha = heads.iter().flatten().find(|h| h.0 == AUTHOR_A).map(|h| h.1);
    let hb = heads.iter().flatten().find(|h| h.0 == AUTHOR_B).map(|h| h.1);
    ck!(s, ha == Some(t1.max(t2)), "the reported head is the greatest timestamp among the author's entries, whatever the arrival order");
    ck!(s, hb == Some(tb), "another author's head is unaffected");
    // news detection goes through the same heads
    let mut theirs = crate::AuthorHeads::default();
    let probe = s.u64();
    theirs.insert(AuthorId::from(&AUTHOR_A), probe);
    let news = store.has_news_for_us(ns, &theirs).unwrap().is_some();
    ck!(s, news == (probe > t1.max(t2)), "a head report is news exactly if it names a strictly newer timestamp than the author's newest entry");
    std::mem::forget(store);
    std::mem::forget(theirs);
}

/// C16: removing a document erases all of it and only it.  Two documents N and N+ (the byte-order
/// successor of N; N ends in 0xFF when LASTFF) with one record, index row, head, capability, peer
/// and policy each.  After `remove_replica(N)`: nothing of N is observable, everything of N+ is
/// untouched, re-creating N yields an empty document.
pub fn e2_remove_replica<S: Src, const LASTFF: bool>(s: &mut S) {
    let mut n1 = [0x20u8; 32];
    let mut n2 = [0x20u8; 32];
    if LASTFF {
        n1[31] = 0xFF;
        n2[30] = 0x21;
        n2[31] = 0x00;
    } else {
        n2[31] = 0x21;
    }
    let (ns1, ns2) = (NamespaceId::from(&n1), NamespaceId::from(&n2));
    let mut store = fresh_store();
    let (t1, t2) = (s.u64(), s.u64());
    let k1 = if s.bool() { MENU[1] } else { MENU[6] }; // "a" or "\xff"
    let e1 = mk_entry(n1, AUTHOR_A, k1, t1, false, 1);
    let e2 = mk_entry(n2, AUTHOR_A, b"a", t2, false, 2);
    inject_namespace(&mut store, n1, 2, n1);
    inject_namespace(&mut store, n2, 2, n2);
    {
        let mut i1 = StoreInstance::new(ns1, &mut store);
        let _ = i1.put(e1).unwrap();
        let mut i2 = StoreInstance::new(ns2, &mut store);
        let _ = i2.put(e2).unwrap();
    }
    set_clock_nanos(5);
    store.register_useful_peer(ns1, peer(1)).unwrap();
    store.register_useful_peer(ns2, peer(2)).unwrap();
    store.set_download_policy(&ns1, super::DownloadPolicy::NothingExcept(vec![])).unwrap();
    store.set_download_policy(&ns2, super::DownloadPolicy::NothingExcept(vec![])).unwrap();

    // refused while open
    store.open_replicas.insert(ns1);
    let refused = store.remove_replica(&ns1);
    ck!(s, refused.is_err(), "removing a document is refused while it is open");
    std::mem::forget(refused);
    ck!(s, dump_records(&mut store, ns1).0 == 1, "a refused removal changes nothing");
    store.close_replica(ns1);

    let r = store.remove_replica(&ns1);
    ck!(s, r.is_ok(), "removing a closed document succeeds");
    ck!(s, dump_records(&mut store, ns1).0 == 0, "no entry of the removed document remains");
    ck!(s, store.get_exact(ns1, AuthorId::from(&AUTHOR_A), k1, true).unwrap().is_none(), "point lookups find nothing of the removed document");
    ck!(s, dump_heads(&mut store, ns1).0 == 0, "no author head of the removed document remains");
    ck!(s, store.get_sync_peers(&ns1).unwrap().is_none(), "no useful peer of the removed document remains");
    ck!(s, matches!(store.get_download_policy(&ns1).unwrap(), super::DownloadPolicy::EverythingExcept(ref v) if v.is_empty()), "the removed document's policy is gone");
    ck!(s, matches!(store.load_replica_info(&ns1), Err(super::OpenError::NotFound)), "the removed document cannot be opened");
    // the neighbour is untouched
    let (n, rows) = dump_records(&mut store, ns2);
    ck!(s, n == 1 && rows[0].map(|r| r.ts) == Some(t2), "the neighbouring document's entries are untouched");
    ck!(s, dump_heads(&mut store, ns2).1[0] == Some((AUTHOR_A, t2)), "the neighbouring document's heads are untouched");
    ck!(s, store.get_sync_peers(&ns2).unwrap().map(|i| i.collect::<Vec<_>>()) == Some(vec![peer(2)]), "the neighbouring document's peers are untouched");
    ck!(s, matches!(store.get_download_policy(&ns2).unwrap(), super::DownloadPolicy::NothingExcept(_)), "the neighbouring document's policy is untouched");
    // re-creation yields an empty document
    inject_namespace(&mut store, n1, 2, n1);
    ck!(s, dump_records(&mut store, ns1).0 == 0 && dump_heads(&mut store, ns1).0 == 0, "re-creating the document yields an empty document (no entries, no heads)");
    cv!(s, true, "e2_remove_replica: reached the end");
    std::mem::forget(store);
}

// ---------------------------------------------------------------------------------------------
// C05 queries
// ---------------------------------------------------------------------------------------------
use super::super::{AuthorFilter, FlatQuery, Query, QueryKind, SingleLatestPerKeyQuery, SortBy, SortDirection};

/// C05: `get_many` returns exactly what the query describes, for an injected three-row state.
/// Concrete per instance: the three key shapes K1..K3 (rows 1,3 by author A, row 2 by author B —
/// row 3 switches to B when its key equals K1), the filter key KF, the query kind (LATEST), the key
/// filter kind (KFK: 0 any, 1 exact, 2 prefix) and the sort key (KEYSORT).  Symbolic: every
/// timestamp, deletion-marker flag, hash byte; author filter (any/A/B), direction, include_empty,
/// offset 0..3, limit none/0..3; presence of a stale by-key index row (an entry that was pruned).
pub fn e2_query<S: Src, const K1: usize, const K2: usize, const K3: usize, const KF: usize, const LATEST: bool, const KFK: u8, const KEYSORT: bool>(
    s: &mut S,
) {
    let ns = NamespaceId::from(&NS);
    let mut store = fresh_store();
    let a3 = if K3 == K1 { AUTHOR_B } else { AUTHOR_A };
    let specs: [([u8; 32], &[u8]); 3] = [(AUTHOR_A, MENU[K1]), (AUTHOR_B, MENU[K2]), (a3, MENU[K3])];
    let mut views = [None; 3];
    let mut entries = Vec::new();
    let mut i = 0;
    while i < 3 {
        let e = mk_entry(NS, specs[i].0, specs[i].1, s.u64(), s.bool(), s.u8());
        views[i] = Some(RowView::of(&e));
        entries.push(e);
        i += 1;
    }
    s.assume(!(K2 == K3 && a3 == AUTHOR_B)); // unique (author, key)
    inject(&mut store, &entries);
    if s.bool() {
        // a stale index row: (key "b", author A) has no record (it was removed by a prefix deletion)
        if K1 != 4 && (K3 != 4 || a3 != AUTHOR_A) {
            store.modify(|t| {
                t.records_by_key.insert((&NS, MENU[4], &AUTHOR_A), ())?;
                Ok(())
            }).unwrap();
        }
    }
    // the query
    let af = s.u8() % 3;
    let filter_author = match af {
        0 => AuthorFilter::Any,
        1 => AuthorFilter::Exact(AuthorId::from(&AUTHOR_A)),
        _ => AuthorFilter::Exact(AuthorId::from(&AUTHOR_B)),
    };
    let filter_key = match KFK {
        0 => KeyFilter::Any,
        1 => KeyFilter::Exact(Bytes::copy_from_slice(MENU[KF])),
        _ => KeyFilter::Prefix(Bytes::copy_from_slice(MENU[KF])),
    };
    let desc = s.bool();
    let include_empty = s.bool();
    let offset = (s.u8() % 4) as u64;
    let lim = s.u8() % 5;
    let limit = if lim == 4 { None } else { Some(lim as u64) };
    let query = Query {
        kind: if LATEST {
            QueryKind::SingleLatestPerKey(SingleLatestPerKeyQuery {})
        } else {
            QueryKind::Flat(FlatQuery { sort_by: if KEYSORT { SortBy::KeyAuthor } else { SortBy::AuthorKey } })
        },
        filter_author,
        filter_key,
        limit,
        offset,
        include_empty,
        sort_direction: if desc { SortDirection::Desc } else { SortDirection::Asc },
    };
    // run the real iterator
    let mut got = [None; 4];
    let mut gn = 0;
    let it = store.get_many(ns, query).unwrap();
    for r in it {
        let e = r.unwrap();
        if gn < 4 {
            got[gn] = Some(RowView::of(&e));
        }
        gn += 1;
        std::mem::forget(e);
    }
    // oracle over the three rows
    let key_ok = |v: &RowView| match KFK {
        0 => true,
        1 => v.key() == MENU[KF],
        _ => v.key().starts_with(MENU[KF]),
    };
    let author_ok = |v: &RowView| match af {
        0 => true,
        1 => v.author == AUTHOR_A,
        _ => v.author == AUTHOR_B,
    };
    let mut cand: [Option<RowView>; 3] = [None; 3];
    let mut i = 0;
    while i < 3 {
        let v = views[i].unwrap();
        let mut keep = key_ok(&v);
        if LATEST {
            // grouping by key over ALL authors, then the author filter: keep v iff no other matching row
            // with the same key has a greater timestamp (ties: see below)
            let mut j = 0;
            while j < 3 {
                if j != i {
                    let w = views[j].unwrap();
                    if key_ok(&w) && w.key() == v.key() && w.ts > v.ts {
                        keep = false;
                    }
                }
                j += 1;
            }
            keep = keep && author_ok(&v);
        } else {
            keep = keep && author_ok(&v);
        }
        keep = keep && (include_empty || !v.empty);
        if keep {
            cand[i] = Some(v);
        }
        i += 1;
    }
    // ties (equal greatest timestamps for one key) make "the latest entry" ambiguous: outside this harness
    if LATEST {
        let mut i = 0;
        while i < 3 {
            let mut j = i + 1;
            while j < 3 {
                let (v, w) = (views[i].unwrap(), views[j].unwrap());
                s.assume(!(v.key() == w.key() && v.ts == w.ts));
                j += 1;
            }
            i += 1;
        }
    }
    // sort: (author, key) or (key, author); latest-per-key is always by key
    let by_key = LATEST || KEYSORT;
    let less = |x: &RowView, y: &RowView| {
        let o = if by_key { (x.key(), &x.author[..]).cmp(&(y.key(), &y.author[..])) } else { (&x.author[..], x.key()).cmp(&(&y.author[..], y.key())) };
        if desc {
            o == std::cmp::Ordering::Greater
        } else {
            o == std::cmp::Ordering::Less
        }
    };
    let mut sorted: [Option<RowView>; 3] = [None; 3];
    let mut sn = 0;
    let mut used = [false; 3];
    let mut round = 0;
    while round < 3 {
        let mut best: Option<usize> = None;
        let mut i = 0;
        while i < 3 {
            if !used[i] {
                if let Some(v) = cand[i] {
                    best = match best {
                        None => Some(i),
                        Some(b) => {
                            if less(&v, &cand[b].unwrap()) {
                                Some(i)
                            } else {
                                Some(b)
                            }
                        }
                    };
                }
            }
            i += 1;
        }
        if let Some(b) = best {
            used[b] = true;
            sorted[sn] = cand[b];
            sn += 1;
        }
        round += 1;
    }
    let mut want = [None; 4];
    let mut wn = 0;
    let mut i = 0;
    while i < sn {
        if (i as u64) >= offset && limit.map(|l| (wn as u64) < l).unwrap_or(true) {
            want[wn] = sorted[i];
            wn += 1;
        }
        i += 1;
    }
    cv!(s, wn >= 2, "e2_query: at least two entries expected");
    cv!(s, sn == 3 && wn < 3, "e2_query: window cuts the result");
    ck!(s, gn == wn, "the query returns exactly as many entries as match, after offset and limit");
    ck!(s, got == want, "the query returns exactly the matching entries, in the requested order, after skipping the offset and truncated to the limit");
    std::mem::forget(store);
}

/// C05: point lookups agree with the state: `get_exact` finds exactly the stored entry for
/// (author, key), deletion markers only when asked for.
pub fn e2_get_exact<S: Src, const K1: usize, const KQ: usize>(s: &mut S) {
    let ns = NamespaceId::from(&NS);
    let mut store = fresh_store();
    let (t1, d1) = (s.u64(), s.bool());
    let e1 = mk_entry(NS, AUTHOR_A, MENU[K1], t1, d1, 1);
    let e2 = mk_entry(NS, AUTHOR_B, MENU[KQ], s.u64(), false, 2);
    inject(&mut store, &[e1, e2]);
    let include_empty = s.bool();
    let got = store.get_exact(ns, AuthorId::from(&AUTHOR_A), MENU[KQ], include_empty).unwrap();
    let want = K1 == KQ && (include_empty || !d1);
    cv!(s, K1 != KQ || want, "e2_get_exact: found");
    ck!(s, got.is_some() == want, "a point lookup finds exactly the entry stored for that author and key (deletion markers only on request)");
    if let Some(e) = &got {
        ck!(s, e.timestamp() == t1 && e.key() == MENU[K1], "and returns that entry");
    }
    std::mem::forget(got);
    std::mem::forget(store);
}

// ---------------------------------------------------------------------------------------------
// C02/C08 (E1): `parents()` / `get_exact()` over a harness-defined two-row records table
// ---------------------------------------------------------------------------------------------
// `parents` and `get_exact` are generic over `impl ReadableTable`; under Kani (where `redb` is the
// model crate and its traits are not sealed) the table below stands in for the records table: two
// typed rows, point lookups only.  Value decoding (`AccessGuard::value`, `into_entry`) is the real
// code.  Natively (real redb, sealed traits) this part does not exist; counterexamples are
// confirmed by a public-API witness instead.
#[cfg(kani)]
pub mod fake_records {
    use super::*;
    use redb::{AccessGuard, Range, ReadableTable, ReadableTableMetadata};
    use super::super::tables::{RecordsId, RecordsValue};

    #[derive(Clone, Copy)]
    pub struct FRow {
        pub author: [u8; 32],
        pub key: &'static [u8],
        pub ts: u64,
        pub len: u64,
        pub hash: [u8; 32],
    }
    pub struct FakeRecords {
        pub ns: [u8; 32],
        pub rows: [Option<FRow>; 2],
    }
    impl ReadableTableMetadata for FakeRecords {
        fn len(&self) -> redb::Result<u64> {
            Ok(self.rows.iter().flatten().count() as u64)
        }
    }
    impl ReadableTable<RecordsId<'static>, RecordsValue<'static>> for FakeRecords {
        fn get<'a>(&self, key: impl std::borrow::Borrow<RecordsId<'a>>) -> redb::Result<Option<AccessGuard<'_, RecordsValue<'static>>>> {
            let (ns, author, k) = *key.borrow();
            let mut i = 0;
            while i < 2 {
                if let Some(r) = &self.rows[i] {
                    if *ns == self.ns && *author == r.author && k == r.key {
                        let v: RecordsValue = (r.ts, &[1u8; 64], &[2u8; 64], r.len, &r.hash);
                        return Ok(Some(AccessGuard::verif_from_value(v)));
                    }
                }
                i += 1;
            }
            Ok(None)
        }
        fn range<'a, KR>(&self, _range: impl RangeBounds<KR> + 'a) -> redb::Result<Range<'_, RecordsId<'static>, RecordsValue<'static>>>
        where
            KR: std::borrow::Borrow<RecordsId<'a>> + 'a,
        {
            Ok(Range::verif_empty())
        }
        fn first(&self) -> redb::Result<Option<(AccessGuard<'_, RecordsId<'static>>, AccessGuard<'_, RecordsValue<'static>>)>> {
            Ok(None)
        }
        fn last(&self) -> redb::Result<Option<(AccessGuard<'_, RecordsId<'static>>, AccessGuard<'_, RecordsValue<'static>>)>> {
            Ok(None)
        }
    }
}

/// C02/C08: `parents(table, ns, author, key)` — what `put` consults to decide admission — returns
/// every same-author entry stored at `key` or at a prefix of it, **the empty key and deletion
/// markers included**, shortest key first; other authors' entries are not returned.
/// Rows: R1 = (author A, key P1), R2 = (author A or B, key P2); looked-up key "ab".  P1/P2 concrete
/// per instance (MENU indices; 0 = "", 1 = "a", 5 = "ab", 4 = "b"); timestamps, deletion-marker
/// flags and R2's author symbolic.
#[cfg(kani)]
pub fn parents_law<S: Src, const P1: usize, const P2: usize>(s: &mut S) {
    use fake_records::*;
    let (t1, t2) = (s.u64(), s.u64());
    let (d1, d2) = (s.bool(), s.bool());
    let r2_by_b = s.bool();
    let mk = |author: [u8; 32], key: &'static [u8], ts: u64, tomb: bool, hb: u8| -> FRow {
        let mut h = [0x33u8; 32];
        h[0] = hb;
        FRow { author, key, ts, len: if tomb { 0 } else { 7 }, hash: if tomb { *Hash::EMPTY.as_bytes() } else { h } }
    };
    let r1 = mk(AUTHOR_A, MENU[P1], t1, d1, 1);
    let r2 = mk(if r2_by_b { AUTHOR_B } else { AUTHOR_A }, MENU[P2], t2, d2, 2);
    s.assume(P1 != P2 || r2_by_b);
    let table = FakeRecords { ns: NS, rows: [Some(r1), Some(r2)] };
    let res = super::parents(&table, NamespaceId::from(&NS), AuthorId::from(&AUTHOR_A), b"ab".to_vec());
    // expected: rows of author A whose key is a prefix of "ab", shortest first
    let want1 = b"ab".starts_with(MENU[P1]);
    let want2 = !r2_by_b && b"ab".starts_with(MENU[P2]);
    let mut got1 = false;
    let mut got2 = false;
    let mut n = 0;
    let mut last_len = 0usize;
    let mut ordered = true;
    for e in res.iter() {
        let e = e.as_ref().unwrap();
        n += 1;
        if e.key() == MENU[P1] && e.timestamp() == t1 {
            got1 = true;
        }
        if e.key() == MENU[P2] && e.timestamp() == t2 && e.author().to_bytes() != AUTHOR_B {
            got2 = true;
        }
        ordered &= e.key().len() >= last_len;
        last_len = e.key().len();
    }
    cv!(s, want1 && d1, "parents_law: a deletion marker at a prefix");
    cv!(s, !(b"ab".starts_with(MENU[P1]) && b"ab".starts_with(MENU[P2])) || (want1 && want2), "parents_law: two parents");
    ck!(s, got1 == want1, "the entries consulted for admission include every same-author entry at the key or at a prefix of it, the empty key and deletion markers included (row 1)");
    ck!(s, got2 == want2, "the entries consulted for admission include every same-author entry at the key or at a prefix of it, the empty key and deletion markers included (row 2)");
    ck!(s, n == want1 as usize + want2 as usize, "nothing else is returned (other authors, non-prefix keys)");
    ck!(s, ordered, "parents are returned shortest key first");
    std::mem::forget(res);
}

// ---------------------------------------------------------------------------------------------
// C05 (E1): LatestPerKeySelector — the grouping used by latest-per-key queries
// ---------------------------------------------------------------------------------------------
use super::super::util::{IndexKind, LatestPerKeySelector, SelectorRes};

/// C05: pushing a key-sorted sequence of three entries (keys k1 <= k2 <= k3 from {"a","a","b"} /
/// {"a","b","b"} / {"a","a","a"} / {"a","b","c"}: pattern G concrete) and then end-of-input yields,
/// per key, exactly one entry carrying the greatest timestamp of that key's group, in key order.
pub fn selector_groups<S: Src, const G: u8>(s: &mut S) {
    let keys: [&[u8]; 3] = match G {
        0 => [b"a", b"a", b"b"],
        1 => [b"a", b"b", b"b"],
        2 => [b"a", b"a", b"a"],
        _ => [b"a", b"b", b"c"],
    };
    let ts = [s.u64(), s.u64(), s.u64()];
    let authors = [AUTHOR_A, AUTHOR_B, [0xC3u8; 32]];
    let mut sel = LatestPerKeySelector::default();
    let mut out: [Option<(usize, u64)>; 4] = [None; 4]; // (key index in `keys` by first occurrence, timestamp)
    let mut n = 0;
    let mut i = 0;
    while i < 5 {
        let input = if i < 3 { Some(mk_entry(NS, authors[i], keys[i], ts[i], false, i as u8)) } else { None };
        match sel.push(input) {
            SelectorRes::Continue => {}
            SelectorRes::Finished => {}
            SelectorRes::Some(e) => {
                let ki = if e.key() == keys[0] { 0 } else if e.key() == keys[1] { 1 } else { 2 };
                if n < 4 {
                    out[n] = Some((ki, e.timestamp()));
                }
                n += 1;
                std::mem::forget(e);
            }
        }
        i += 1;
    }
    // oracle: groups of equal keys, max timestamp each
    let mut want: [Option<(usize, u64)>; 4] = [None; 4];
    let mut wn = 0;
    let mut i = 0;
    while i < 3 {
        let first = i == 0 || keys[i] != keys[i - 1];
        if first {
            let mut m = ts[i];
            let mut j = i + 1;
            while j < 3 && keys[j] == keys[i] {
                if ts[j] > m {
                    m = ts[j];
                }
                j += 1;
            }
            let ki = if keys[i] == keys[0] { 0 } else if keys[i] == keys[1] { 1 } else { 2 };
            want[wn] = Some((ki, m));
            wn += 1;
        }
        i += 1;
    }
    cv!(s, G == 3 || ts[1] > ts[0], "selector_groups: the later entry of a group is newer");
    ck!(s, n == wn, "a latest-per-key selection yields exactly one entry per key");
    ck!(s, out == want, "each yielded entry carries the greatest timestamp among the entries of its key, in key order");
}

// ---------------------------------------------------------------------------------------------
// C18 native witness: derived tables deleted with plain redb are rebuilt exactly at the next open;
// reopening an up-to-date database changes nothing.  (Real redb, file-backed; not compiled by Kani.)
// ---------------------------------------------------------------------------------------------
#[cfg(not(kani))]
pub mod witness_c18 {
    use super::super::tables::{LATEST_PER_AUTHOR_TABLE, RECORDS_BY_KEY_TABLE};
    use super::Store;
    use crate::store::{Query, SortBy, SortDirection};
    use crate::sync::{ContentStatus, Entry, Record, RecordIdentifier, SignedEntry};
    use crate::verif_incrate::witness::block_on;
    use crate::{Author, NamespaceId, NamespaceSecret};
    use iroh_blobs::Hash;

    type Head = (Vec<u8>, u64, Vec<u8>);
    type Row = (Vec<u8>, Vec<u8>, u64, Vec<u8>);

    #[derive(PartialEq, Debug, Clone)]
    struct Answers {
        heads: Vec<Vec<Head>>,
        by_key: Vec<Vec<Row>>,
        latest_per_key: Vec<Vec<Row>>,
        by_author: Vec<Vec<Row>>,
    }

    fn answers(store: &mut Store, docs: &[NamespaceId]) -> Answers {
        let mut a = Answers { heads: vec![], by_key: vec![], latest_per_key: vec![], by_author: vec![] };
        for d in docs {
            let mut h: Vec<Head> = store
                .get_latest_for_each_author(*d)
                .unwrap()
                .map(|r| r.map(|(a, t, k)| (a.as_bytes().to_vec(), t, k)).unwrap())
                .collect();
            h.sort();
            a.heads.push(h);
            let row = |e: SignedEntry| (e.author().as_bytes().to_vec(), e.key().to_vec(), e.timestamp(), e.content_hash().as_bytes().to_vec());
            let q = Query::all().include_empty().sort_by(SortBy::KeyAuthor, SortDirection::Asc).build();
            a.by_key.push(store.get_many(*d, q).unwrap().map(|e| row(e.unwrap())).collect());
            let q = Query::single_latest_per_key().include_empty().build();
            a.latest_per_key.push(store.get_many(*d, q).unwrap().map(|e| row(e.unwrap())).collect());
            let q = Query::all().include_empty().sort_by(SortBy::AuthorKey, SortDirection::Asc).build();
            a.by_author.push(store.get_many(*d, q).unwrap().map(|e| row(e.unwrap())).collect());
        }
        a
    }

    /// heads equal up to the choice of key among entries that tie on the greatest timestamp
    fn heads_equivalent(reference: &Answers, got: &Answers) -> bool {
        if reference.heads.len() != got.heads.len() {
            return false;
        }
        for (d, (r, g)) in reference.heads.iter().zip(got.heads.iter()).enumerate() {
            let strip = |v: &Vec<Head>| v.iter().map(|(a, t, _)| (a.clone(), *t)).collect::<Vec<_>>();
            if strip(r) != strip(g) {
                return false;
            }
            for (a, t, k) in g {
                if !reference.by_author[d].iter().any(|(ra, rk, rt, _)| ra == a && rk == k && rt == t) {
                    return false;
                }
            }
        }
        true
    }

    pub fn run() -> bool {
        let dir = std::env::temp_dir().join(format!("verif-c18-{}", std::process::id()));
        let _ = std::fs::remove_dir_all(&dir);
        std::fs::create_dir_all(&dir).unwrap();
        let bad = run_in(&dir);
        let _ = std::fs::remove_dir_all(&dir);
        bad
    }

    fn run_in(dir: &std::path::Path) -> bool {
        let base = dir.join("base.redb");
        // the records table is ordered by (namespace, author, key): make the LAST author of the first document
        // also the (only) author of the second one, so that the same author is adjacent across documents
        let (na, nb) = (NamespaceSecret::from_bytes(&[21u8; 32]), NamespaceSecret::from_bytes(&[22u8; 32]));
        let (ns1, ns2) = if na.id().as_bytes() < nb.id().as_bytes() { (na, nb) } else { (nb, na) };
        let (xa, xb) = (Author::from_bytes(&[31u8; 32]), Author::from_bytes(&[32u8; 32]));
        let (aa, ab) = if xa.id().as_bytes() < xb.id().as_bytes() { (xa, xb) } else { (xb, xa) };
        let docs = [ns1.id(), ns2.id()];
        let now = std::time::SystemTime::now().duration_since(std::time::UNIX_EPOCH).unwrap().as_micros() as u64;
        let t = now - 1_000_000;
        let reference = {
            let mut store = Store::new_impl(redb::Database::create(&base).unwrap()).unwrap();
            // (doc, author, key, timestamp, deletion marker?)   written in this order
            let writes: Vec<(&NamespaceSecret, &Author, &[u8], u64, bool)> = vec![
                (&ns1, &aa, b"b", t, false),
                (&ns1, &aa, b"a", t, false), // ties with "b" on the timestamp
                (&ns1, &aa, b"c", t - 5, false),
                (&ns1, &ab, b"a", t - 3, false),
                (&ns1, &ab, b"d", t + 1, true), // deletion marker is the newest of author B
                (&ns2, &ab, b"", t - 12, false), // empty key: parent of everything, so it must be the oldest
                (&ns2, &ab, b"z", t - 10, false),
                (&ns2, &ab, b"\xff\xff", t - 6, false),
            ];
            for ns in [&ns1, &ns2] {
                let _ = store.new_replica(ns.clone()).unwrap();
            }
            for (ns, author, key, ts, del) in writes {
                let mut replica = store.open_replica(&ns.id()).unwrap();
                let id = RecordIdentifier::new(ns.id(), author.id(), key);
                let rec = if del { Record::empty(ts) } else { Record::new(Hash::new([key, b"!".as_slice()].concat()), 1 + key.len() as u64, ts) };
                let e = SignedEntry::from_entry(Entry::new(id, rec), ns, author);
                block_on(replica.insert_remote_entry(e, [9u8; 32], ContentStatus::Complete)).unwrap();
                drop(replica);
                store.close_replica(ns.id());
            }
            store.flush().unwrap();
            let a = answers(&mut store, &docs);
            store.flush().unwrap();
            a
        };
        let mut bad = false;
        if reference.by_author.iter().map(|v| v.len()).sum::<usize>() != 8 {
            eprintln!("c18: setup stored {:?} entries, expected 8 (deletion marker at 'd' replaces nothing)", reference.by_author.iter().map(|v| v.len()).collect::<Vec<_>>());
        }
        // `emptied`: the derived table is there but empty, which is what an open of an older file leaves behind when it is
        // interrupted after the transaction that creates the tables and before the populate migrations committed
        for (name, drop_heads, drop_index, emptied) in [("none", false, false, false), ("heads", true, false, false), ("by-key index", false, true, false), ("both", true, true, false),
            ("heads (left empty)", true, false, true), ("by-key index (left empty)", false, true, true), ("both (left empty)", true, true, true)] {
            let path = dir.join(format!("{}.redb", name.replace([' ', '(', ')'], "_")));
            std::fs::copy(&base, &path).unwrap();
            {
                let db = redb::Database::create(&path).unwrap();
                let tx = db.begin_write().unwrap();
                if drop_heads {
                    tx.delete_table(LATEST_PER_AUTHOR_TABLE).unwrap();
                }
                if drop_index {
                    tx.delete_table(RECORDS_BY_KEY_TABLE).unwrap();
                }
                tx.commit().unwrap();
                if emptied {
                    let tx = db.begin_write().unwrap();
                    if drop_heads {
                        let _ = tx.open_table(LATEST_PER_AUTHOR_TABLE).unwrap();
                    }
                    if drop_index {
                        let _ = tx.open_table(RECORDS_BY_KEY_TABLE).unwrap();
                    }
                    tx.commit().unwrap();
                }
            }
            let first = {
                let mut store = match Store::new_impl(redb::Database::create(&path).unwrap()) {
                    Ok(s) => s,
                    Err(e) => {
                        eprintln!("c18[{name} removed]: reopening failed: {e}");
                        bad = true;
                        continue;
                    }
                };
                let a = answers(&mut store, &docs);
                store.flush().unwrap();
                a
            };
            let exact = first.by_key == reference.by_key && first.latest_per_key == reference.latest_per_key && first.by_author == reference.by_author;
            let heads_ok = if drop_heads { heads_equivalent(&reference, &first) } else { first.heads == reference.heads };
            if !exact || !heads_ok {
                eprintln!("c18[{name} removed]: after reopening, queries equal: {exact}, heads as maintained: {heads_ok}\n  reference heads {:?}\n  rebuilt heads   {:?}\n  reference by-key {:?}\n  rebuilt by-key   {:?}",
                    reference.heads, first.heads, reference.by_key.iter().map(|v| v.len()).collect::<Vec<_>>(), first.by_key.iter().map(|v| v.len()).collect::<Vec<_>>());
                bad = true;
            }
            // any further reopen is a no-op
            for round in 0..2 {
                let mut store = Store::new_impl(redb::Database::create(&path).unwrap()).unwrap();
                let again = answers(&mut store, &docs);
                store.flush().unwrap();
                if again != first {
                    eprintln!("c18[{name} removed]: reopen #{} of the up-to-date database changed the answers\n  before {:?}\n  after  {:?}", round + 2, first.heads, again.heads);
                    bad = true;
                }
            }
        }
        bad
    }
}

// ---------------------------------------------------------------------------------------------
// C06 hook + native witness.  `commit_age::age(w)` runs (feature `verif` only) right before the
// age test of `Store::tables` / `Store::modify`: arm(n) makes the n-th such test from now see a
// transaction older than MAX_COMMIT_DELAY once, which emulates a slow or suspended process.
// ---------------------------------------------------------------------------------------------
pub mod commit_age {
    use std::sync::atomic::{AtomicI64, Ordering};
    static COUNTDOWN: AtomicI64 = AtomicI64::new(-1);
    static FIRED: AtomicI64 = AtomicI64::new(0);
    /// the n-th (0-based) age test from now reports "too old"; negative: never
    pub fn arm(n: i64) {
        FIRED.store(0, Ordering::SeqCst);
        COUNTDOWN.store(n, Ordering::SeqCst);
    }
    pub fn fired() -> bool {
        FIRED.load(Ordering::SeqCst) != 0
    }
    /// the hook in `Store::tables` / `Store::modify`: when due, the open transaction looks older
    /// than MAX_COMMIT_DELAY (its start time is moved back)
    pub fn age(mut w: super::super::tables::TransactionAndTables) -> super::super::tables::TransactionAndTables {
        if due() {
            if let Some(t) = w.since.checked_sub(crate::actor::MAX_COMMIT_DELAY + std::time::Duration::from_millis(50)) {
                w.since = t;
            }
        }
        w
    }
    pub fn due() -> bool {
        let v = COUNTDOWN.load(Ordering::SeqCst);
        if v < 0 {
            return false;
        }
        COUNTDOWN.store(v - 1, Ordering::SeqCst);
        if v == 0 {
            FIRED.store(1, Ordering::SeqCst);
        }
        v == 0
    }
}

#[cfg(not(kani))]
pub mod witness_c06 {
    //! Crash images: a durable state must be a state between two complete operations.  The store
    //! holds "ab" and "ac" (flushed).  Then "a" is inserted with a newer timestamp, which supersedes
    //! both.  For every position n of a forced age-commit the database FILE is copied without flush
    //! right after the insert returned (= the image a kill at that instant leaves) and reopened:
    //! it must show {ab, ac} or {a}, never the pruned store without "a".
    use super::commit_age;
    use super::Store;
    use crate::store::Query;
    use crate::sync::{ContentStatus, Entry, Record, RecordIdentifier, SignedEntry};
    use crate::verif_incrate::witness::block_on;
    use crate::{Author, NamespaceSecret};
    use iroh_blobs::Hash;

    fn keys(store: &mut Store, ns: &NamespaceSecret) -> Vec<Vec<u8>> {
        let q = Query::all().include_empty().build();
        let mut v: Vec<Vec<u8>> = store.get_many(ns.id(), q).unwrap().map(|e| e.unwrap().key().to_vec()).collect();
        v.sort();
        v
    }

    fn put(store: &mut Store, ns: &NamespaceSecret, author: &Author, key: &[u8], ts: u64) {
        let mut replica = store.open_replica(&ns.id()).unwrap();
        let id = RecordIdentifier::new(ns.id(), author.id(), key);
        let e = SignedEntry::from_entry(Entry::new(id, Record::new(Hash::new(key), 1 + key.len() as u64, ts)), ns, author);
        block_on(replica.insert_remote_entry(e, [9u8; 32], ContentStatus::Complete)).unwrap();
        drop(replica);
        store.close_replica(ns.id());
    }

    pub fn run() -> bool {
        let dir = std::env::temp_dir().join(format!("verif-c06-{}", std::process::id()));
        let _ = std::fs::remove_dir_all(&dir);
        std::fs::create_dir_all(&dir).unwrap();
        let d2 = dir.clone();
        let bad = match std::panic::catch_unwind(move || run_in(&d2)) {
            Ok(b) => b,
            Err(_) => {
                eprintln!("c06: the scenario could not be completed on the reopened store (see the panic above): acknowledged data is not there");
                true
            }
        };
        commit_age::arm(-1);
        let _ = std::fs::remove_dir_all(&dir);
        bad
    }

    fn run_in(dir: &std::path::Path) -> bool {
        let ns = NamespaceSecret::from_bytes(&[41u8; 32]);
        let author = Author::from_bytes(&[42u8; 32]);
        let now = std::time::SystemTime::now().duration_since(std::time::UNIX_EPOCH).unwrap().as_micros() as u64;
        let t = now - 1_000_000;
        let base = dir.join("base.redb");
        {
            let mut store = Store::new_impl(redb::Database::create(&base).unwrap()).unwrap();
            let _ = store.new_replica(ns.clone()).unwrap();
            store.close_replica(ns.id());
            put(&mut store, &ns, &author, b"ab", t);
            put(&mut store, &ns, &author, b"ac", t);
            store.flush().unwrap();
        }
        let before: Vec<Vec<u8>> = vec![b"ab".to_vec(), b"ac".to_vec()];
        let after: Vec<Vec<u8>> = vec![b"a".to_vec()];
        let mut bad = false;
        {
            // a read access (snapshot) between a write and the flush must not eat the durability of the write
            let live = dir.join("snap-live.redb");
            let image = dir.join("snap-image.redb");
            std::fs::copy(&base, &live).unwrap();
            let extra = Author::from_bytes(&[43u8; 32]);
            {
                let mut store = Store::new_impl(redb::Database::create(&live).unwrap()).unwrap();
                store.import_author(extra.clone()).unwrap();
                let _n = store.list_authors().unwrap().count();
                let _m = store.list_namespaces().unwrap().count();
                store.flush().unwrap();
                std::fs::copy(&live, &image).unwrap();
            }
            let mut reopened = Store::new_impl(redb::Database::create(&image).unwrap()).unwrap();
            if reopened.get_author(&extra.id()).unwrap().is_none() {
                eprintln!("c06: an author imported before list_authors + flush is missing from the crash image taken after the flush");
                bad = true;
            }
        }
        {
            // everything acknowledged before the flush is there after the process went away
            let mut store = Store::new_impl(redb::Database::create(&base).unwrap()).unwrap();
            let seen = if store.load_replica_info(&ns.id()).is_ok() { keys(&mut store, &ns) } else { vec![b"<document missing>".to_vec()] };
            if seen != before {
                eprintln!("c06: after flush + reopen the store shows {:?}, expected [ab, ac]", seen.iter().map(|k| String::from_utf8_lossy(k).to_string()).collect::<Vec<_>>());
                return true;
            }
        }
        let mut fired_any = false;
        for n in 0..12i64 {
            let live = dir.join(format!("live-{n}.redb"));
            let image = dir.join(format!("image-{n}.redb"));
            std::fs::copy(&base, &live).unwrap();
            let fired;
            {
                let mut store = Store::new_impl(redb::Database::create(&live).unwrap()).unwrap();
                // an acknowledged write opens the shared write transaction
                store.register_useful_peer(ns.id(), [7u8; 32]).unwrap();
                commit_age::arm(n);
                put(&mut store, &ns, &author, b"a", t + 1);
                fired = commit_age::fired();
                commit_age::arm(-1);
                // the process dies here: whatever is committed in the file is what survives
                std::fs::copy(&live, &image).unwrap();
                let now_live = keys(&mut store, &ns);
                if now_live != after {
                    eprintln!("c06[n={n}]: live store after the insert shows {:?}", now_live.iter().map(|k| String::from_utf8_lossy(k).to_string()).collect::<Vec<_>>());
                    bad = true;
                }
            }
            fired_any |= fired;
            let mut reopened = match Store::new_impl(redb::Database::create(&image).unwrap()) {
                Ok(s) => s,
                Err(e) => {
                    eprintln!("c06[n={n}]: the crash image does not open: {e}");
                    bad = true;
                    continue;
                }
            };
            let seen = keys(&mut reopened, &ns);
            if seen != before && seen != after {
                eprintln!(
                    "c06[forced age-commit at access {n}, fired: {fired}]: crash image shows keys {:?}: neither the state before the insert {{ab, ac}} nor after it {{a}}",
                    seen.iter().map(|k| String::from_utf8_lossy(k).to_string()).collect::<Vec<_>>()
                );
                bad = true;
            }
            drop(reopened);
            let _ = std::fs::remove_file(&live);
            let _ = std::fs::remove_file(&image);
        }
        if !fired_any {
            eprintln!("c06: the age hook never fired (hook not compiled in?)");
        }
        bad
    }
}

// ---------------------------------------------------------------------------------------------
// C15 witness (file-backed; real redb; not compiled by Kani)
// ---------------------------------------------------------------------------------------------
#[cfg(not(kani))]
pub mod witness_c15 {
    use super::Store;
    use crate::store::{DownloadPolicy, FilterKind};
    use crate::NamespaceSecret;

    /// C15 (persistence): a policy can only be set for an existing document and a refused set leaves no
    /// trace (also after the document is created later, and after reopening the file); a policy that was
    /// set is read back unchanged, survives flush + reopen, and other documents keep theirs.
    pub fn run() -> bool {
        let mut bad = false;
        let path = std::env::temp_dir().join(format!("verif-c15store-{}.redb", std::process::id()));
        let _ = std::fs::remove_file(&path);
        let ns1 = NamespaceSecret::from_bytes(&[51u8; 32]);
        let ns2 = NamespaceSecret::from_bytes(&[52u8; 32]);
        let p1 = DownloadPolicy::NothingExcept(vec![FilterKind::Exact("foo".into()), FilterKind::Prefix(vec![0xffu8, 0x00].into())]);
        let p2 = DownloadPolicy::EverythingExcept(vec![FilterKind::Prefix("".into())]);
        {
            let mut store = Store::new_impl(redb::Database::create(&path).unwrap()).unwrap();
            // refused sets (document unknown), twice
            for round in 0..2 {
                if store.set_download_policy(&ns1.id(), p1.clone()).is_ok() {
                    eprintln!("c15store: round {round}: a policy was accepted for a document that does not exist");
                    bad = true;
                }
            }
            // the document is created later: it must start with the default policy
            drop(store.new_replica(ns1.clone()).unwrap());
            let got = store.get_download_policy(&ns1.id()).unwrap();
            if got != DownloadPolicy::default() {
                eprintln!("c15store: a refused set left a policy behind: {got:?}");
                bad = true;
            }
            drop(store.new_replica(ns2.clone()).unwrap());
            store.set_download_policy(&ns1.id(), p1.clone()).unwrap();
            store.set_download_policy(&ns2.id(), p2.clone()).unwrap();
            store.set_download_policy(&ns1.id(), p1.clone()).unwrap();
            if store.get_download_policy(&ns1.id()).unwrap() != p1 || store.get_download_policy(&ns2.id()).unwrap() != p2 {
                eprintln!("c15store: a policy that was set is not read back unchanged");
                bad = true;
            }
            store.flush().unwrap();
        }
        {
            let mut store = Store::new_impl(redb::Database::create(&path).unwrap()).unwrap();
            if store.get_download_policy(&ns1.id()).unwrap() != p1 || store.get_download_policy(&ns2.id()).unwrap() != p2 {
                eprintln!("c15store: policies changed across reopen");
                bad = true;
            }
            // a stored policy is replaced by whatever is set later — the default policy and the empty NothingExcept included
            for later in [DownloadPolicy::default(), DownloadPolicy::NothingExcept(vec![]), DownloadPolicy::EverythingExcept(vec![])] {
                store.set_download_policy(&ns1.id(), p1.clone()).unwrap();
                store.set_download_policy(&ns1.id(), later.clone()).unwrap();
                let got = store.get_download_policy(&ns1.id()).unwrap();
                if got != later {
                    eprintln!("c15store: after setting {later:?} over a stored policy, {got:?} is read back");
                    bad = true;
                }
            }
            store.flush().unwrap();
        }
        {
            let mut store = Store::new_impl(redb::Database::create(&path).unwrap()).unwrap();
            if store.get_download_policy(&ns1.id()).unwrap() != DownloadPolicy::EverythingExcept(vec![]) {
                eprintln!("c15store: the policy set last is not the one read after reopen");
                bad = true;
            }
        }
        let _ = std::fs::remove_file(&path);
        bad
    }
}

#[cfg(not(kani))]
pub mod witness_c06dur {
    use super::super::Store;
    use crate::{Author, NamespaceSecret};

    /// C06 (flush is durable): whatever the first access after a commit was (a read or a write), what is there at a flush is in the
    /// database FILE after the flush: a copy of the file taken right after it, opened as a store, shows the entry.
    pub fn run() -> bool {
        let dir = std::env::temp_dir().join(format!("verif-c06dur-{}", std::process::id()));
        let _ = std::fs::remove_dir_all(&dir);
        std::fs::create_dir_all(&dir).unwrap();
        let mut bad = false;
        for read_first in [true, false] {
            let path = dir.join(format!("docs-{read_first}.redb"));
            let copy = dir.join(format!("copy-{read_first}.redb"));
            let ns = NamespaceSecret::from_bytes(&[71u8; 32]);
            let author = Author::from_bytes(&[72u8; 32]);
            let id = ns.id();
            {
                let mut store = Store::new_impl(redb::Database::create(&path).unwrap()).unwrap();
                store.import_namespace(ns.clone().into()).unwrap();
                store.flush().unwrap();
                if read_first {
                    // the first access after the commit is a read
                    let _ = store.get_exact(id, author.id(), b"nothing", false).unwrap();
                }
                {
                    let mut replica = store.open_replica(&id).unwrap();
                    let (h, l) = (crate::verif_incrate::Hash::new(b"flushed"), 7u64);
                    crate::verif_incrate::witness::block_on(replica.insert(b"k", &author, h, l)).unwrap();
                }
                store.close_replica(id);
                store.flush().unwrap();
                // the process "dies" here: only what is in the file counts
                std::fs::copy(&path, &copy).unwrap();
                std::mem::forget(store);
            }
            match redb::Database::create(&copy).map_err(anyhow::Error::from).and_then(Store::new_impl) {
                Ok(mut reopened) => {
                    let there = reopened.get_exact(id, author.id(), b"k", false).map(|e| e.is_some()).unwrap_or(false);
                    if !there {
                        eprintln!("c06dur: the entry flushed before the crash is missing from the file (first access after the commit was a {})", if read_first { "read" } else { "write" });
                        bad = true;
                    }
                }
                Err(e) => {
                    eprintln!("c06dur: the copy of the flushed file does not open: {e}");
                    bad = true;
                }
            }
        }
        let _ = std::fs::remove_dir_all(&dir);
        bad
    }
}
