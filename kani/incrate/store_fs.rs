//! harness bodies: store/fs.rs (child module of `store::fs`)
use std::ops::{Bound, RangeBounds};

use bytes::Bytes;

use super::{
    bounds::{ByKeyBounds, RecordsBounds},
    tables::{RecordsByKeyIdOwned, RecordsIdOwned},
    Store, StoreInstance,
};
use crate::{
    store::KeyFilter,
    verif_incrate::src::{ck, cv, Src},
    AuthorId, NamespaceId,
};

/// A 32-byte id.  FULL: all 32 bytes independent symbolic values (thorough tier).  Otherwise
/// 30 bytes of one symbolic fill value followed by two independent symbolic bytes: still covers
/// the all-0xFF / trailing-0xFF / 0x00 edges that the bound arithmetic depends on, with far fewer
/// SAT variables.
pub fn id32<S: Src, const FULL: bool>(s: &mut S) -> [u8; 32] {
    if FULL {
        s.arr()
    } else {
        let fill = s.u8();
        let t: [u8; 2] = s.arr();
        let mut a = [fill; 32];
        a[30] = t[0];
        a[31] = t[1];
        a
    }
}

// ---------------------------------------------------------------------------------------------
// C02/C05/C08/C16 bounds kernel: the range handed to redb contains exactly the ids it should.
// ---------------------------------------------------------------------------------------------

/// `RecordsBounds::author_prefix(ns, a, p)` contains `id` <=> same ns, same author, key starts
/// with p.  P = prefix length, K = candidate key length (concrete per instance).
pub fn bounds_author_prefix<S: Src, const P: usize, const K: usize, const FULL: bool>(s: &mut S) {
    let ns: [u8; 32] = id32::<S, FULL>(s);
    let author: [u8; 32] = id32::<S, FULL>(s);
    let prefix: [u8; P] = s.arr();
    let cns: [u8; 32] = id32::<S, FULL>(s);
    let cauthor: [u8; 32] = id32::<S, FULL>(s);
    let ckey: [u8; K] = s.arr();
    let b = RecordsBounds::author_prefix(
        NamespaceId::from(&ns),
        AuthorId::from(&author),
        Bytes::copy_from_slice(&prefix),
    );
    let id: RecordsIdOwned = (cns, cauthor, Bytes::copy_from_slice(&ckey));
    let got = b.contains(&id);
    let want = cns == ns && cauthor == author && ckey.starts_with(&prefix);
    // (instance-dependent witnesses are trivially true where the instance cannot satisfy them)
    cv!(s, K < P || (got && want), "bounds_author_prefix: a matching id exists");
    cv!(s, P == 0 || (!want && cns == ns && cauthor == author), "bounds_author_prefix: same author, other key");
    ck!(
        s,
        got == want,
        "author_prefix range contains exactly the ids of that namespace+author whose key starts with the prefix",
    );
}


/// `RecordsBounds::author_key(ns, a, Exact(k) | Any)`.
pub fn bounds_author_key<S: Src, const P: usize, const K: usize, const FULL: bool>(s: &mut S) {
    let ns: [u8; 32] = id32::<S, FULL>(s);
    let author: [u8; 32] = id32::<S, FULL>(s);
    let fkey: [u8; P] = s.arr();
    let exact = s.bool();
    let cns: [u8; 32] = id32::<S, FULL>(s);
    let cauthor: [u8; 32] = id32::<S, FULL>(s);
    let ckey: [u8; K] = s.arr();
    let filter = if exact {
        KeyFilter::Exact(Bytes::copy_from_slice(&fkey))
    } else {
        KeyFilter::Any
    };
    let b = RecordsBounds::author_key(NamespaceId::from(&ns), AuthorId::from(&author), filter);
    let id: RecordsIdOwned = (cns, cauthor, Bytes::copy_from_slice(&ckey));
    let got = b.contains(&id);
    let want = cns == ns && cauthor == author && (!exact || ckey[..] == fkey[..]);
    cv!(s, got && want && !exact, "bounds_author_key: Any matches");
    cv!(s, P != K || (got && want && exact), "bounds_author_key: Exact matches");
    ck!(
        s,
        got == want,
        "author_key range (Exact/Any) contains exactly the ids of that namespace+author with the exact key / any key",
    );
}

/// `RecordsBounds::namespace(ns)`, `from_start(ns, Excluded(y))`, `to_end(ns, Included(x))`:
/// the three pieces `get_range` is built from.
pub fn bounds_namespace<S: Src, const K: usize, const B: usize, const FULL: bool>(s: &mut S) {
    let ns: [u8; 32] = id32::<S, FULL>(s);
    let cns: [u8; 32] = id32::<S, FULL>(s);
    let cauthor: [u8; 32] = id32::<S, FULL>(s);
    let ckey: [u8; K] = s.arr();
    let id: RecordsIdOwned = (cns, cauthor, Bytes::copy_from_slice(&ckey));
    let nsid = NamespaceId::from(&ns);

    let got = RecordsBounds::namespace(nsid).contains(&id);
    cv!(s, got, "bounds_namespace: an id inside the namespace");
    cv!(s, !got && cns != ns, "bounds_namespace: an id outside the namespace");
    ck!(s, got == (cns == ns), "namespace range contains exactly the ids of that namespace");

    // a bound id inside the same namespace
    let bauthor: [u8; 32] = id32::<S, FULL>(s);
    let bkey: [u8; B] = s.arr();
    let bound: RecordsIdOwned = (ns, bauthor, Bytes::copy_from_slice(&bkey));
    let got = RecordsBounds::from_start(&nsid, Bound::Excluded(bound.clone())).contains(&id);
    ck!(
        s,
        got == (cns == ns && id < bound),
        "from_start(ns, Excluded(y)) contains exactly the ids of ns that sort before y",
    );
    let got = RecordsBounds::to_end(&nsid, Bound::Included(bound.clone())).contains(&id);
    ck!(
        s,
        got == (cns == ns && id >= bound),
        "to_end(ns, Included(x)) contains exactly the ids of ns that sort at or after x",
    );
}

/// `ByKeyBounds::new(ns, filter)` / `ByKeyBounds::namespace(ns)` over the (ns, key, author) index.
pub fn bounds_bykey<S: Src, const P: usize, const K: usize, const FULL: bool>(s: &mut S) {
    let ns: [u8; 32] = id32::<S, FULL>(s);
    let fkey: [u8; P] = s.arr();
    let kind = s.u8();
    s.assume(kind < 3);
    let cns: [u8; 32] = id32::<S, FULL>(s);
    let cauthor: [u8; 32] = id32::<S, FULL>(s);
    let ckey: [u8; K] = s.arr();
    let filter = match kind {
        0 => KeyFilter::Any,
        1 => KeyFilter::Exact(Bytes::copy_from_slice(&fkey)),
        _ => KeyFilter::Prefix(Bytes::copy_from_slice(&fkey)),
    };
    let b = ByKeyBounds::new(NamespaceId::from(&ns), &filter);
    let id: RecordsByKeyIdOwned = (cns, Bytes::copy_from_slice(&ckey), cauthor);
    let got = b.contains(&id);
    let want = cns == ns
        && match kind {
            0 => true,
            1 => ckey[..] == fkey[..],
            _ => ckey.starts_with(&fkey),
        };
    cv!(s, got && want && kind == 0, "bounds_bykey: Any matches");
    cv!(s, K < P || (got && want && kind == 2), "bounds_bykey: Prefix matches");
    cv!(s, P == 0 || (!want && cns == ns && kind == 2), "bounds_bykey: Prefix, other key in same namespace");
    ck!(
        s,
        got == want,
        "by-key index range contains exactly the (ns,key,author) rows whose namespace matches and key matches the filter",
    );
    let got = ByKeyBounds::namespace(NamespaceId::from(&ns)).contains(&id);
    ck!(s, got == (cns == ns), "by-key namespace range contains exactly the rows of that namespace");
}

// ---------------------------------------------------------------------------------------------
// E2: the real storage layer over the redb model (natively: over real redb)
// ---------------------------------------------------------------------------------------------
use crate::ranger::{InsertOutcome, Store as RangerStore};
use redb::{ReadableTable, ReadableTableMetadata};
use crate::sync::{Entry, EntrySignature, Record, RecordIdentifier, SignedEntry};
use iroh_blobs::Hash;

pub const NS: [u8; 32] = [0x11; 32];
pub const AUTHOR_A: [u8; 32] = [0xA1; 32];
pub const AUTHOR_B: [u8; 32] = [0xB2; 32];

/// key shapes: the 0xFF / prefix / empty-key edge cases named by the properties
pub const MENU: [&[u8]; 8] = [b"", b"a", b"a\xff", b"a\xff\x00", b"b", b"ab", b"\xff", b"\xff\xff"];

pub fn mk_entry(ns: [u8; 32], author: [u8; 32], key: &[u8], ts: u64, tombstone: bool, hbyte: u8) -> SignedEntry {
    let id = RecordIdentifier::new(NamespaceId::from(&ns), AuthorId::from(&author), key);
    let record = if tombstone {
        Record::empty(ts)
    } else {
        let mut h = [0x33u8; 32];
        h[0] = hbyte;
        Record::new(Hash::from_bytes(h), 7, ts)
    };
    SignedEntry::new(EntrySignature::from_parts(&[1u8; 64], &[2u8; 64]), Entry::new(id, record))
}

/// Kill-criterion probe (DESIGN.md §3.4): real `Store::memory` + `StoreInstance::put` twice + `get_exact`.
pub fn e2_probe<S: Src>(s: &mut S) {
    let mut store = Store::memory();
    let ns = NamespaceId::from(&NS);
    let (t1, t2) = (s.u64(), s.u64());
    let e1 = mk_entry(NS, AUTHOR_A, b"a", t1, false, 1);
    let e2 = mk_entry(NS, AUTHOR_A, b"ab", t2, false, 2);
    let mut inst = StoreInstance::new(ns, &mut store);
    let o1 = inst.put(e1).unwrap();
    ck!(s, matches!(o1, InsertOutcome::Inserted { removed: 0 }), "first entry inserted into the empty store");
    let o2 = inst.put(e2).unwrap();
    let admitted = t2 > t1 || (t2 == t1 && false);
    cv!(s, matches!(o2, InsertOutcome::Inserted { .. }), "e2_probe: second entry admitted");
    cv!(s, matches!(o2, InsertOutcome::NotInserted), "e2_probe: second entry rejected");
    let got = store.get_exact(ns, AuthorId::from(&AUTHOR_A), b"ab", true).unwrap();
    ck!(s, got.is_some() == matches!(o2, InsertOutcome::Inserted { .. }), "get_exact finds the entry iff it was inserted");
    std::mem::forget(store);
}

/// A store over a fresh in-memory database WITHOUT running `new_impl`'s table setup + migrations
/// (string handling of migration names is expensive to execute symbolically and irrelevant to
/// everything but C18): the tables are created by `Tables::new` on the first `tables()`/`modify()`.
pub fn fresh_store() -> Store {
    let db = redb::Database::builder().create_with_backend(redb::backends::InMemoryBackend::new()).unwrap();
    Store { db, transaction: Default::default(), open_replicas: Default::default(), pubkeys: Default::default() }
}

/// cost probe: only `Store::memory()` (table setup + migrations on an empty database)
pub fn e2_mem<S: Src>(s: &mut S) {
    let store = Store::memory();
    cv!(s, true, "e2_mem: store created");
    std::mem::forget(store);
}

/// A view of one records-table row.
#[derive(Clone, Copy, PartialEq, Eq, Debug)]
pub struct RowView {
    pub author: [u8; 32],
    pub klen: usize,
    pub key: [u8; 4],
    pub ts: u64,
    pub len: u64,
    pub hash0: u8,
    pub empty: bool,
}

pub const VIEW_CAP: usize = 4;

impl RowView {
    pub fn of(e: &SignedEntry) -> RowView {
        let mut key = [0u8; 4];
        let k = e.key();
        let klen = k.len();
        let mut i = 0;
        while i < 4 {
            if i < klen {
                key[i] = k[i];
            }
            i += 1;
        }
        RowView {
            author: e.author().to_bytes(),
            klen,
            key,
            ts: e.timestamp(),
            len: e.content_len(),
            hash0: e.content_hash().as_bytes()[0],
            empty: e.content_hash() == Hash::EMPTY,
        }
    }
    pub fn key(&self) -> &[u8] {
        &self.key[..self.klen]
    }
    /// Record order: (timestamp, hash)
    pub fn value_le(&self, o: &RowView) -> bool {
        // hashes in the harness differ only in byte 0 (or are EMPTY = 0xaf...)
        (self.ts, self.hash_key()) <= (o.ts, o.hash_key())
    }
    fn hash_key(&self) -> u8 {
        if self.empty {
            Hash::EMPTY.as_bytes()[0]
        } else {
            self.hash0
        }
    }
}

/// all rows of `ns` in the records table, in table order
pub fn dump_records(store: &mut Store, ns: NamespaceId) -> (usize, [Option<RowView>; VIEW_CAP]) {
    let mut out = [None; VIEW_CAP];
    let mut n = 0;
    let tables = store.tables().unwrap();
    let bounds = RecordsBounds::namespace(ns);
    let mut it = tables.records.range(bounds.as_ref()).unwrap();
    while let Some(r) = it.next() {
        let (k, v) = r.unwrap();
        let e = super::into_entry(k.value(), v.value());
        if n < VIEW_CAP {
            out[n] = Some(RowView::of(&e));
        }
        n += 1;
        std::mem::forget(e);
    }
    (n, out)
}

/// write rows directly into the three record tables (an injected state), bypassing `put`
pub fn inject(store: &mut Store, entries: &[SignedEntry]) {
    store
        .modify(|tables| {
            for e in entries {
                let id = e.id();
                let ns = id.namespace().to_bytes();
                let au = id.author().to_bytes();
                let hash = e.content_hash();
                tables.records.insert(
                    (&ns, &au, id.key()),
                    (e.timestamp(), &e.signature().namespace().to_bytes(), &e.signature().author().to_bytes(), e.content_len(), hash.as_bytes()),
                )?;
                tables.records_by_key.insert((&ns, id.key(), &au), ())?;
            }
            Ok(())
        })
        .unwrap();
}

/// C02 on the real store: one `put` from an injected two-row state (row keys K1, K2 by author A
/// or B; the new entry has key KE by author A).  Key shapes are concrete per instance (indices into
/// MENU); timestamps, deletion-marker flags, hash bytes and the second row's author are symbolic.
pub fn e2_put<S: Src, const K1: usize, const K2: usize, const KE: usize>(s: &mut S) {
    let ns = NamespaceId::from(&NS);
    let mut store = fresh_store();
    let (t1, t2, te) = (s.u64(), s.u64(), s.u64());
    let (d1, d2, de) = (s.bool(), s.bool(), s.bool());
    let (h1, h2, he) = (s.u8(), s.u8(), s.u8());
    let second_by_b = s.bool();
    let a2 = if second_by_b { AUTHOR_B } else { AUTHOR_A };
    let r1 = mk_entry(NS, AUTHOR_A, MENU[K1], t1, d1, h1);
    let r2 = mk_entry(NS, a2, MENU[K2], t2, d2, h2);
    s.assume(K1 != K2 || second_by_b); // unique (author, key)
    let e = mk_entry(NS, AUTHOR_A, MENU[KE], te, de, he);
    let (v1, v2, ve) = (RowView::of(&r1), RowView::of(&r2), RowView::of(&e));
    inject(&mut store, &[r1, r2]);
    let mut inst = StoreInstance::new(ns, &mut store);
    let outcome = inst.put(e).unwrap();
    let (n, rows) = dump_records(&mut store, ns);
    // oracle
    let blocks = |x: &RowView| x.author == ve.author && ve.key().starts_with(x.key()) && ve.value_le(x);
    let admitted = !blocks(&v1) && !blocks(&v2);
    let pruned = |x: &RowView| x.author == ve.author && x.key().starts_with(ve.key()) && x.value_le(&ve);
    let has = |x: &RowView| rows.iter().any(|r| *r == Some(*x));
    cv!(s, admitted, "e2_put: admitted");
    cv!(s, !admitted, "e2_put: rejected");
    match outcome {
        InsertOutcome::NotInserted => {
            ck!(s, !admitted, "the store rejects an entry only if an entry by the same author at its key or at a prefix of it is not older");
            ck!(s, n == 2 && has(&v1) && has(&v2), "a rejected entry changes nothing");
        }
        InsertOutcome::Inserted { removed } => {
            ck!(s, admitted, "the store admits an entry only if no entry by the same author at its key or at a prefix of it is newer or equal");
            ck!(s, has(&ve), "an admitted entry is stored");
            let want_removed = pruned(&v1) as usize + pruned(&v2) as usize;
            cv!(s, want_removed > 0, "e2_put: something pruned");
            ck!(s, removed == want_removed, "the reported count is the number of same-author entries under the new key that are not newer");
            ck!(s, has(&v1) == (!pruned(&v1) || v1 == ve) && has(&v2) == (!pruned(&v2) || v2 == ve),
                "exactly the same-author entries whose key starts with the new key and that are not newer are removed; other authors and lexical neighbours are untouched");
            ck!(s, n == 3 - want_removed, "nothing else is added or removed");
        }
    }
    std::mem::forget(store);
}
