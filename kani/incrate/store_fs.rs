//! harness bodies: store/fs.rs (child module of `store::fs`)
use std::ops::{Bound, RangeBounds};

use bytes::Bytes;

use super::{
    bounds::{ByKeyBounds, RecordsBounds},
    tables::{RecordsByKeyIdOwned, RecordsIdOwned},
};
use crate::{
    store::KeyFilter,
    verif_incrate::src::{ck, cv, Src},
    AuthorId, NamespaceId,
};

// ---------------------------------------------------------------------------------------------
// C02/C05/C08/C16 bounds kernel: the range handed to redb contains exactly the ids it should.
// ---------------------------------------------------------------------------------------------

/// `RecordsBounds::author_prefix(ns, a, p)` contains `id` <=> same ns, same author, key starts
/// with p.  P = prefix length, K = candidate key length (concrete per instance).
pub fn bounds_author_prefix<S: Src, const P: usize, const K: usize>(s: &mut S) {
    let ns: [u8; 32] = s.arr();
    let author: [u8; 32] = s.arr();
    let prefix: [u8; P] = s.arr();
    let cns: [u8; 32] = s.arr();
    let cauthor: [u8; 32] = s.arr();
    let ckey: [u8; K] = s.arr();
    let b = RecordsBounds::author_prefix(
        NamespaceId::from(&ns),
        AuthorId::from(&author),
        Bytes::copy_from_slice(&prefix),
    );
    let id: RecordsIdOwned = (cns, cauthor, Bytes::copy_from_slice(&ckey));
    let got = b.contains(&id);
    let want = cns == ns && cauthor == author && ckey.starts_with(&prefix);
    if K >= P {
        cv!(s, got && want, "bounds_author_prefix: a matching id exists");
    }
    cv!(s, !want && cns == ns && cauthor == author, "bounds_author_prefix: same author, other key");
    ck!(
        s,
        got == want,
        "author_prefix range contains exactly the ids of that namespace+author whose key starts with the prefix",
    );
}

pub fn dispatch<S: Src>(name: &str, s: &mut S) -> bool {
    match name {
        "c02_bounds_author_prefix_p0_k1" => bounds_author_prefix::<S, 0, 1>(s),
        "c02_bounds_author_prefix_p1_k1" => bounds_author_prefix::<S, 1, 1>(s),
        "c02_bounds_author_prefix_p1_k2" => bounds_author_prefix::<S, 1, 2>(s),
        "c02_bounds_author_prefix_p2_k1" => bounds_author_prefix::<S, 2, 1>(s),
        "c02_bounds_author_prefix_p2_k2" => bounds_author_prefix::<S, 2, 2>(s),
        "c02_bounds_author_prefix_p2_k3" => bounds_author_prefix::<S, 2, 3>(s),
        _ => return false,
    }
    true
}
