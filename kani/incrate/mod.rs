//! Harness bodies for the solver-based checks of /verif.
//!
//! The files in this directory are compiled *as modules of the `iroh_docs` crate* (hooks: one
//! `#[path]` include per source file whose private items are needed, feature `verif`).  Every
//! body is generic over [`src::Src`]: under Kani the source is `kani::any()` (symbolic); natively
//! it is the list of concrete values that Kani's concrete playback printed for a counterexample,
//! so the same body replays the counterexample against the real build (real redb, bytes, blake3).

pub mod src;
pub mod ranger_l;
pub mod crypto;
pub mod kernels;
#[cfg(not(kani))]
pub mod witness;
#[cfg(not(kani))]
pub mod witness_pm;

/// re-export for the native witness programs (iroh-blobs is not a dependency of /verif/replay)
pub use iroh_blobs::Hash;

pub use crate::actor::verif_incrate as actor;
pub use crate::engine::verif_state as engine_state;
pub use crate::net::verif_codec as net_codec;
pub use crate::store::fs::verif_incrate as store_fs;
pub use crate::sync::verif_incrate as sync;

mod dispatch_gen;

/// Run harness body `name` natively on concrete draws.
pub fn replay(name: &str, vals: Vec<Vec<u8>>) -> Option<src::ReplayOutcome> {
    let mut s = src::ReplaySrc::new(vals);
    let found = dispatch_gen::dispatch(name, &mut s);
    if !found {
        return None;
    }
    Some(s.outcome())
}
