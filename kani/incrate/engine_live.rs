//! In-crate native witness for the C11 glue of `engine/live.rs` (child module of `engine::live`, so it can
//! build a `LiveActor` and call its private completion handlers).  Never compiled by Kani.
#![cfg(not(kani))]
use super::*;

/// A live actor that is never run: the witness calls its handlers directly (real endpoint bound to
/// a local socket, real gossip/blob/sync handles; nothing is sent).
async fn actor() -> anyhow::Result<LiveActor> {
    let endpoint = Endpoint::bind(iroh::endpoint::presets::Minimal).await?;
    let gossip = Gossip::builder().spawn(endpoint.clone());
    let blobs = iroh_blobs::store::mem::MemStore::new();
    let blobs: iroh_blobs::api::Store = (*blobs).clone();
    let downloader = blobs.downloader(&endpoint);
    let sync = SyncHandle::spawn(crate::store::Store::memory(), None, "verif-c11live".into());
    let metrics = sync.metrics().clone();
    let (tx, rx) = mpsc::channel(64);
    LiveActor::new(sync, endpoint, gossip, blobs, downloader, rx, tx, metrics)
}

fn fin(ns: NamespaceId, peer: PublicKey) -> SyncFinished {
    SyncFinished { namespace: ns, peer, outcome: Default::default(), timings: Default::default() }
}

/// returns true when a defect manifests
async fn scenarios() -> anyhow::Result<bool> {
    let mut bad = false;
    let ns = NamespaceId::from(&[7u8; 32]);
    let peer = iroh::SecretKey::from_bytes(&[9u8; 32]).public();
    // ---- (1) every way a dial can end leaves the pair ready again (no request, reply or session in flight)
    let ends: Vec<(&str, Box<dyn Fn() -> Result<SyncFinished, ConnectError>>)> = vec![
        ("success", Box::new(move || Ok(fin(ns, peer)))),
        ("declined: not found", Box::new(|| Err(ConnectError::RemoteAbort(AbortReason::NotFound)))),
        ("declined: already syncing", Box::new(|| Err(ConnectError::RemoteAbort(AbortReason::AlreadySyncing)))),
        ("declined: internal error", Box::new(|| Err(ConnectError::RemoteAbort(AbortReason::InternalServerError)))),
        ("connect error", Box::new(|| Err(ConnectError::Connect { error: anyhow::anyhow!("x") }))),
        ("sync error", Box::new(|| Err(ConnectError::Sync { error: anyhow::anyhow!("x") }))),
        ("close error", Box::new(|| Err(ConnectError::Close { error: anyhow::anyhow!("x") }))),
    ];
    for (label, mk) in ends.iter() {
        let mut a = actor().await?;
        a.state.insert(ns);
        a.sync_with_peer(ns, peer, SyncReason::DirectJoin);
        if a.running_sync_connect.len() != 1 || a.state.start_connect(&ns, peer, SyncReason::NewNeighbor) {
            eprintln!("c11live: a dial did not take the slot / spawn exactly one connect task");
            bad = true;
        }
        a.on_sync_via_connect_finished(ns, peer, SyncReason::DirectJoin, mk()).await;
        if !a.state.start_connect(&ns, peer, SyncReason::NewNeighbor) {
            eprintln!("c11live: the pair is still marked busy after our dial ended with: {label}");
            bad = true;
        }
    }
    // ---- (2) every way an accepted session can end frees the acceptor's slot; a request we declined changes nothing
    let aends: Vec<(&str, Box<dyn Fn() -> Result<SyncFinished, AcceptError>>)> = vec![
        ("success", Box::new(move || Ok(fin(ns, peer)))),
        ("sync error", Box::new(move || Err(AcceptError::Sync { peer, namespace: Some(ns), error: anyhow::anyhow!("x") }))),
        ("close error", Box::new(move || Err(AcceptError::Close { peer, namespace: Some(ns), error: anyhow::anyhow!("x") }))),
    ];
    for (label, mk) in aends.iter() {
        let mut a = actor().await?;
        a.state.insert(ns);
        if !matches!(a.accept_sync_request(ns, peer), AcceptOutcome::Allow) {
            eprintln!("c11live: a request for an idle pair was not accepted");
            bad = true;
        }
        if !matches!(a.accept_sync_request(ns, peer), AcceptOutcome::Reject(AbortReason::AlreadySyncing)) {
            eprintln!("c11live: a second request during a running session was not declined as already syncing");
            bad = true;
        }
        // our own decline of that second request must not free the running session's slot
        a.on_sync_via_accept_finished(Err(AcceptError::Abort { peer, namespace: ns, reason: AbortReason::AlreadySyncing })).await;
        if a.state.start_connect(&ns, peer, SyncReason::NewNeighbor) {
            eprintln!("c11live: declining a second request freed the slot of the running session");
            bad = true;
        }
        a.on_sync_via_accept_finished(mk()).await;
        if !a.state.start_connect(&ns, peer, SyncReason::NewNeighbor) {
            eprintln!("c11live: the pair is still marked busy after the accepted session ended with: {label}");
            bad = true;
        }
    }
    // a request for a document that is not syncing is declined as not found
    {
        let mut a = actor().await?;
        if !matches!(a.accept_sync_request(ns, peer), AcceptOutcome::Reject(AbortReason::NotFound)) {
            eprintln!("c11live: a request for a document that is not syncing was not declined as not found");
            bad = true;
        }
    }
    // ---- (3) a refused report leads to exactly one follow-up dial when the running session finishes, ok or failed
    for ok in [true, false] {
        let mut a = actor().await?;
        a.state.insert(ns);
        a.sync_with_peer(ns, peer, SyncReason::DirectJoin);
        // a sync report arrives while the session runs: refused, remembered
        a.sync_with_peer(ns, peer, SyncReason::SyncReport);
        let before = a.running_sync_connect.len();
        let res = if ok { Ok(fin(ns, peer)) } else { Err(ConnectError::Sync { error: anyhow::anyhow!("x") }) };
        a.on_sync_via_connect_finished(ns, peer, SyncReason::DirectJoin, res).await;
        let after = a.running_sync_connect.len();
        if before != 1 || after != 2 {
            eprintln!("c11live: refused report, session finished (ok={ok}): connect tasks before {before}, after {after} (expected 1, 2)");
            bad = true;
        }
        // and no second follow-up when that one finishes
        a.on_sync_via_connect_finished(ns, peer, SyncReason::Resync, Ok(fin(ns, peer))).await;
        if a.running_sync_connect.len() != 2 {
            eprintln!("c11live: a second follow-up dial was made");
            bad = true;
        }
    }
    Ok(bad)
}

pub fn witness_c11live() -> bool {
    let rt = tokio::runtime::Builder::new_current_thread().enable_all().build().unwrap();
    match rt.block_on(scenarios()) {
        Ok(bad) => bad,
        Err(e) => {
            eprintln!("c11live: could not set up a live actor: {e:?}");
            false
        }
    }
}
