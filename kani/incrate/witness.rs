//! Native witnesses that need crate-private constructors (messages with hand-made parts).
//! Each returns `true` when the defect manifests on the real build (real redb, real ed25519).
#![cfg(not(kani))]
use std::future::Future;
use std::pin::pin;
use std::task::{Context, Poll, Waker};

use crate::ranger::{Message, MessagePart, Range, RangeItem};
use crate::store::fs::Store;
use crate::sync::{ContentStatus, Entry, Record, RecordIdentifier, SignedEntry, SyncOutcome};
use crate::{Author, NamespaceSecret};
use iroh_blobs::Hash;

pub fn block_on<F: Future>(f: F) -> F::Output {
    let mut f = pin!(f);
    let mut cx = Context::from_waker(Waker::noop());
    loop {
        if let Poll::Ready(v) = f.as_mut().poll(&mut cx) {
            return v;
        }
        std::thread::yield_now();
    }
}

fn message(parts: Vec<MessagePart<SignedEntry>>) -> Message<SignedEntry> {
    // `Message { parts }` has one private field
    unsafe { std::mem::transmute::<Vec<MessagePart<SignedEntry>>, Message<SignedEntry>>(parts) }
}

/// D3: an honestly signed entry with non-zero length but the EMPTY hash is refused by
/// `insert_remote_entry` (validate_empty) — is it also refused inside a reconciliation message?
pub fn d3() -> bool {
    let mut store = Store::memory();
    let ns = NamespaceSecret::from_bytes(&[3u8; 32]);
    let author = Author::from_bytes(&[4u8; 32]);
    let mut replica = store.new_replica(ns.clone()).unwrap();
    let now = std::time::SystemTime::now().duration_since(std::time::UNIX_EPOCH).unwrap().as_micros() as u64;
    let id = RecordIdentifier::new(ns.id(), author.id(), b"k");
    let malformed = SignedEntry::from_entry(Entry::new(id.clone(), Record::new(Hash::EMPTY, 5, now)), &ns, &author);
    let direct = block_on(replica.insert_remote_entry(malformed.clone(), [9u8; 32], ContentStatus::Missing));
    let range = Range::new(RecordIdentifier::default(), RecordIdentifier::default());
    let msg = message(vec![MessagePart::RangeItem(RangeItem { range, values: vec![(malformed, ContentStatus::Missing)], have_local: true })]);
    let mut outcome = SyncOutcome::default();
    let _ = block_on(replica.sync_process_message(msg, [9u8; 32], &mut outcome)).unwrap();
    let nsid = replica.id();
    drop(replica);
    let stored = store.get_exact(nsid, author.id(), b"k", true).unwrap().is_some();
    eprintln!("d3: direct remote insert rejected: {}; stored via reconciliation message: {stored}", direct.is_err());
    direct.is_err() && stored
}

/// C03 (query c03_remote_insert): the emptiness rule on BOTH ingress paths.  Malformed shapes (EMPTY hash with a length, a
/// real hash with length 0) are refused and not stored; a proper deletion marker and a proper record are accepted.
pub fn c03remote() -> bool {
    let ns = NamespaceSecret::from_bytes(&[3u8; 32]);
    let author = Author::from_bytes(&[4u8; 32]);
    let now = std::time::SystemTime::now().duration_since(std::time::UNIX_EPOCH).unwrap().as_micros() as u64;
    let mut bad = false;
    // (name, hash, len, acceptable)
    let shapes: Vec<(&str, Hash, u64, bool)> = vec![
        ("empty hash with a length", Hash::EMPTY, 5, false),
        ("real hash with length 0", Hash::new(b"x"), 0, false),
        ("deletion marker", Hash::EMPTY, 0, true),
        ("record", Hash::new(b"x"), 1, true),
    ];
    for (i, (what, hash, len, ok)) in shapes.into_iter().enumerate() {
        for via_message in [false, true] {
            let mut store = Store::memory();
            let mut replica = store.new_replica(ns.clone()).unwrap();
            let key = [b'k', i as u8];
            let id = RecordIdentifier::new(ns.id(), author.id(), key);
            let e = SignedEntry::from_entry(Entry::new(id, Record::new(hash, len, now - 1000)), &ns, &author);
            let accepted = if via_message {
                let range = Range::new(RecordIdentifier::default(), RecordIdentifier::default());
                let msg = message(vec![MessagePart::RangeItem(RangeItem { range, values: vec![(e, ContentStatus::Missing)], have_local: true })]);
                let mut outcome = SyncOutcome::default();
                let _ = block_on(replica.sync_process_message(msg, [9u8; 32], &mut outcome));
                None
            } else {
                Some(block_on(replica.insert_remote_entry(e, [9u8; 32], ContentStatus::Missing)).is_ok())
            };
            let nsid = replica.id();
            drop(replica);
            let stored = store.get_exact(nsid, author.id(), key, true).unwrap().is_some();
            if stored != ok || accepted.map(|a| a != ok).unwrap_or(false) {
                eprintln!("c03remote: {what} via {}: accepted {accepted:?}, stored {stored}, expected {ok}", if via_message { "a reconciliation message" } else { "insert_remote_entry" });
                bad = true;
            }
        }
    }
    bad
}

/// D6: the store actor is gone when the Init message is processed: `BobState::run` returns an error
/// with `progress` taken; `into_outcome` (called unconditionally by `net::handle_connection`) panics.
pub fn d6() -> bool {
    let r = std::panic::catch_unwind(|| {
        let mut s = crate::verif_incrate::src::ReplaySrc::new(vec![]);
        crate::net::verif_codec::bob_run::<_, 0>(&mut s);
    });
    eprintln!("d6: BobState::run + into_outcome with the store actor gone panicked: {}", r.is_err());
    r.is_err()
}

/// C12: an entry applied by a reconciliation message is announced once, as a RemoteInsert event
/// carrying that entry, the providing peer, the delivered content status and the policy decision.
pub fn c12() -> bool {
    use crate::store::{DownloadPolicy, FilterKind};
    use crate::sync::Event;
    let mut store = Store::memory();
    let ns = NamespaceSecret::from_bytes(&[3u8; 32]);
    let author = Author::from_bytes(&[4u8; 32]);
    let nsid = ns.id();
    store.import_namespace(ns.clone().into()).unwrap();
    store.set_download_policy(&nsid, DownloadPolicy::NothingExcept(vec![FilterKind::Prefix("dl".into())])).unwrap();
    let mut replica = store.open_replica(&nsid).unwrap();
    let (tx, rx) = async_channel::bounded(8);
    replica.info.subscribe(tx);
    let now = std::time::SystemTime::now().duration_since(std::time::UNIX_EPOCH).unwrap().as_micros() as u64;
    let mk = |key: &[u8]| {
        let id = RecordIdentifier::new(nsid, author.id(), key);
        SignedEntry::from_entry(Entry::new(id, Record::new(Hash::new(key), key.len() as u64, now)), &ns, &author)
    };
    let (e1, e2) = (mk(b"dl/x"), mk(b"other"));
    // a deletion marker whose key the policy selects: the flag is the policy's answer for the key
    let e3 = SignedEntry::from_entry(Entry::new(RecordIdentifier::new(nsid, author.id(), b"dl/gone"), Record::empty(now)), &ns, &author);
    let range = Range::new(RecordIdentifier::default(), RecordIdentifier::default());
    let msg = message(vec![MessagePart::RangeItem(RangeItem {
        range,
        values: vec![(e1.clone(), ContentStatus::Complete), (e2.clone(), ContentStatus::Incomplete), (e3.clone(), ContentStatus::Complete)],
        have_local: true,
    })]);
    let mut outcome = SyncOutcome::default();
    let _ = block_on(replica.sync_process_message(msg, [9u8; 32], &mut outcome)).unwrap();
    let mut bad = false;
    let mut n = 0;
    while let Ok(ev) = rx.try_recv() {
        let (want_entry, want_status, want_dl) = match n {
            0 => (&e1, ContentStatus::Complete, true),
            1 => (&e2, ContentStatus::Incomplete, false),
            _ => (&e3, ContentStatus::Complete, true),
        };
        match ev {
            Event::RemoteInsert { namespace, entry, from, should_download, remote_content_status } => {
                let ok = namespace == nsid && &entry == want_entry && from == [9u8; 32] && should_download == want_dl && remote_content_status == want_status;
                if !ok {
                    eprintln!("c12: event {n} has wrong fields");
                    bad = true;
                }
            }
            _ => {
                eprintln!("c12: event {n} is not a RemoteInsert");
                bad = true;
            }
        }
        n += 1;
    }
    if n != 3 {
        eprintln!("c12: expected 3 events, got {n}");
        bad = true;
    }
    bad
}

/// C03/C12, the per-entry loop of process_message on the real replica: a message carrying an
/// acceptable entry, an entry superseded by a newer local one, an entry signed for another
/// document and a second acceptable entry must store and announce exactly the two acceptable ones,
/// in message order, with the content status delivered with each.
pub fn c12pm() -> bool {
    use crate::sync::Event;
    let mut store = Store::memory();
    let ns = NamespaceSecret::from_bytes(&[13u8; 32]);
    let other_ns = NamespaceSecret::from_bytes(&[14u8; 32]);
    let author = Author::from_bytes(&[15u8; 32]);
    let nsid = ns.id();
    store.import_namespace(ns.clone().into()).unwrap();
    let mut replica = store.open_replica(&nsid).unwrap();
    let now = std::time::SystemTime::now().duration_since(std::time::UNIX_EPOCH).unwrap().as_micros() as u64;
    let mk = |n: &NamespaceSecret, key: &[u8], ts: u64| {
        let id = RecordIdentifier::new(nsid, author.id(), key);
        SignedEntry::from_entry(Entry::new(id, Record::new(Hash::new(key), 1 + key.len() as u64, ts)), n, &author)
    };
    // local state: a newer entry at "old"
    block_on(replica.insert_remote_entry(mk(&ns, b"old", now - 10), [1u8; 32], ContentStatus::Complete)).unwrap();
    let (tx, rx) = async_channel::bounded(16);
    replica.info.subscribe(tx);
    let ok1 = mk(&ns, b"k1", now - 100);
    let superseded = mk(&ns, b"old", now - 1000);
    let forged = mk(&other_ns, b"forged", now - 100); // namespace signature by the wrong key
    let ok2 = mk(&ns, b"k2", now - 100);
    // superseded by an entry earlier in the SAME part: same key (older), and below a newer prefix
    let dup_new = mk(&ns, b"dup", now - 100);
    let dup_old = mk(&ns, b"dup", now - 200);
    let below = mk(&ns, b"dup/child", now - 300);
    let range = Range::new(RecordIdentifier::default(), RecordIdentifier::default());
    let msg = message(vec![MessagePart::RangeItem(RangeItem {
        range,
        values: vec![
            (ok1.clone(), ContentStatus::Incomplete),
            (superseded.clone(), ContentStatus::Complete),
            (forged.clone(), ContentStatus::Complete),
            (ok2.clone(), ContentStatus::Missing),
            (dup_new.clone(), ContentStatus::Complete),
            (dup_old.clone(), ContentStatus::Complete),
            (below.clone(), ContentStatus::Complete),
        ],
        have_local: true,
    })]);
    let mut outcome = SyncOutcome::default();
    let r = block_on(replica.sync_process_message(msg, [9u8; 32], &mut outcome));
    let mut bad = false;
    if r.is_err() {
        eprintln!("c12pm: processing the message failed: {:?}", r.err());
        bad = true;
    }
    let mut events = vec![];
    while let Ok(ev) = rx.try_recv() {
        if let Event::RemoteInsert { entry, remote_content_status, .. } = ev {
            events.push((entry.key().to_vec(), entry.timestamp(), remote_content_status));
        } else {
            eprintln!("c12pm: unexpected event kind");
            bad = true;
        }
    }
    let want = vec![
        (b"k1".to_vec(), now - 100, ContentStatus::Incomplete),
        (b"k2".to_vec(), now - 100, ContentStatus::Missing),
        (b"dup".to_vec(), now - 100, ContentStatus::Complete),
    ];
    if events != want {
        eprintln!("c12pm: events {:?}, expected {:?}", events, want);
        bad = true;
    }
    drop(replica);
    let mut have = |k: &[u8]| store.get_exact(nsid, author.id(), k, true).unwrap().map(|e| e.timestamp());
    let state = (have(b"k1"), have(b"k2"), have(b"old"), have(b"forged"));
    if state != (Some(now - 100), Some(now - 100), Some(now - 10), None) {
        eprintln!("c12pm: store after the message: k1 {:?}, k2 {:?}, old {:?}, forged {:?}", state.0, state.1, state.2, state.3);
        bad = true;
    }
    bad
}

/// C01 silence: two replicas that hold the same entries (0, 1, 2 or 5 of them) exchange an initial
/// message: the receiver must stay silent (no reply), and nothing may be inserted.
pub fn c01silence() -> bool {
    let ns = NamespaceSecret::from_bytes(&[16u8; 32]);
    let author = Author::from_bytes(&[17u8; 32]);
    let now = std::time::SystemTime::now().duration_since(std::time::UNIX_EPOCH).unwrap().as_micros() as u64;
    let mut bad = false;
    for n in [0usize, 1, 2, 5] {
        let mut sa = Store::memory();
        let mut sb = Store::memory();
        let mut a = sa.new_replica(ns.clone()).unwrap();
        let mut b = sb.new_replica(ns.clone()).unwrap();
        for i in 0..n {
            let key = [b'k', i as u8];
            let id = RecordIdentifier::new(ns.id(), author.id(), key);
            let e = SignedEntry::from_entry(Entry::new(id, Record::new(Hash::new(key), 2, now - 50 - i as u64)), &ns, &author);
            block_on(a.insert_remote_entry(e.clone(), [1u8; 32], ContentStatus::Complete)).unwrap();
            block_on(b.insert_remote_entry(e, [1u8; 32], ContentStatus::Complete)).unwrap();
        }
        let init = a.sync_initial_message().unwrap();
        let mut outcome = SyncOutcome::default();
        let reply = block_on(b.sync_process_message(init, [2u8; 32], &mut outcome)).unwrap();
        if let Some(m) = &reply {
            eprintln!("c01silence[{n} equal entries]: the receiver answered with {} part(s), {} value(s)", m.parts().len(), m.value_count());
            bad = true;
        }
        if outcome.num_recv != 0 || outcome.num_sent != 0 {
            eprintln!("c01silence[{n} equal entries]: counters recv {} sent {}", outcome.num_recv, outcome.num_sent);
            bad = true;
        }
    }
    bad
}

/// Fingerprints: two entries that differ in exactly one of namespace, author, key, timestamp or
/// content hash must have different range fingerprints (real blake3).
pub fn fp() -> bool {
    use crate::ranger::RangeEntry;
    use crate::sync::EntrySignature;
    let mk = |ns: u8, au: u8, key: &[u8], ts: u64, h: u8| {
        let id = RecordIdentifier::new(crate::NamespaceId::from(&[ns; 32]), crate::AuthorId::from(&[au; 32]), key);
        SignedEntry::new(EntrySignature::from_parts(&[1u8; 64], &[2u8; 64]), Entry::new(id, Record::new(Hash::from_bytes([h; 32]), 3, ts)))
    };
    let base = mk(1, 2, b"k", 10, 7).as_fingerprint();
    let variants = [mk(9, 2, b"k", 10, 7), mk(1, 9, b"k", 10, 7), mk(1, 2, b"x", 10, 7), mk(1, 2, b"k", 11, 7), mk(1, 2, b"k", 10, 8)];
    let names = ["namespace", "author", "key", "timestamp", "content hash"];
    let mut bad = false;
    for (v, n) in variants.iter().zip(names) {
        if v.as_fingerprint() == base {
            eprintln!("fp: changing the {n} does not change the fingerprint");
            bad = true;
        }
    }
    bad
}


/// Replica::insert_entry (direct path): validate, then put decides admission, then one event.
/// Scenarios: (1) equal timestamps, the greater content hash arrives second and must win; an older and an
/// equal entry are refused as NewerEntryExists; (2) a read-only replica refuses local writes but accepts
/// remote entries AND remote deletion markers; (3) per applied entry exactly one event with the right
/// variant and fields, none for refused / invalid entries; should_download follows the stored policy.
pub fn insglue() -> bool {
    use crate::store::{DownloadPolicy, FilterKind};
    use crate::sync::{Capability, Event, InsertError};
    let mut bad = false;
    let now = std::time::SystemTime::now().duration_since(std::time::UNIX_EPOCH).unwrap().as_micros() as u64;
    let ns = NamespaceSecret::from_bytes(&[33u8; 32]);
    let author = Author::from_bytes(&[34u8; 32]);
    let nsid = ns.id();
    let mk = |key: &[u8], rec: Record| SignedEntry::from_entry(Entry::new(RecordIdentifier::new(nsid, author.id(), key), rec), &ns, &author);
    // ---- (1) + (3) on a writable replica with a policy
    {
        let mut store = Store::memory();
        store.import_namespace(ns.clone().into()).unwrap();
        store.set_download_policy(&nsid, DownloadPolicy::NothingExcept(vec![FilterKind::Prefix("dl".into())])).unwrap();
        let mut replica = store.open_replica(&nsid).unwrap();
        let (tx, rx) = async_channel::bounded(32);
        replica.info.subscribe(tx);
        let (h1, h2) = (Hash::new(b"one"), Hash::new(b"two"));
        let (lo, hi) = if h1.as_bytes() < h2.as_bytes() { (h1, h2) } else { (h2, h1) };
        let e_lo = mk(b"dl/k", Record::new(lo, 3, now));
        let e_hi = mk(b"dl/k", Record::new(hi, 3, now));
        let e_old = mk(b"dl/k", Record::new(hi, 3, now - 10));
        let e_other = mk(b"zz", Record::new(hi, 3, now));
        let other_ns = NamespaceSecret::from_bytes(&[35u8; 32]);
        let e_foreign = SignedEntry::from_entry(Entry::new(RecordIdentifier::new(other_ns.id(), author.id(), b"f"), Record::new(hi, 3, now)), &other_ns, &author);
        let r1 = block_on(replica.insert_remote_entry(e_lo.clone(), [7u8; 32], ContentStatus::Complete));
        let r2 = block_on(replica.insert_remote_entry(e_hi.clone(), [8u8; 32], ContentStatus::Missing));
        let r3 = block_on(replica.insert_remote_entry(e_hi.clone(), [8u8; 32], ContentStatus::Missing));
        let r4 = block_on(replica.insert_remote_entry(e_old.clone(), [8u8; 32], ContentStatus::Missing));
        let r5 = block_on(replica.insert_remote_entry(e_foreign.clone(), [8u8; 32], ContentStatus::Missing));
        let r6 = block_on(replica.insert_remote_entry(e_other.clone(), [9u8; 32], ContentStatus::Incomplete));
        let r7 = block_on(replica.insert(b"local", &author, hi, 3));
        if r1.is_err() || r2.is_err() || r6.is_err() || r7.is_err() {
            eprintln!("insglue: an acceptable entry was refused: {:?} {:?} {:?} {:?}", r1.is_ok(), r2.is_ok(), r6.is_ok(), r7.is_ok());
            bad = true;
        }
        if !matches!(r3, Err(InsertError::NewerEntryExists)) || !matches!(r4, Err(InsertError::NewerEntryExists)) {
            eprintln!("insglue: an equal / older entry was not refused as NewerEntryExists");
            bad = true;
        }
        if r5.is_ok() {
            eprintln!("insglue: an entry signed for another document was accepted");
            bad = true;
        }
        let mut evs = vec![];
        while let Ok(ev) = rx.try_recv() {
            evs.push(ev);
        }
        let want: [(&SignedEntry, [u8; 32], ContentStatus, bool); 3] = [(&e_lo, [7u8; 32], ContentStatus::Complete, true), (&e_hi, [8u8; 32], ContentStatus::Missing, true), (&e_other, [9u8; 32], ContentStatus::Incomplete, false)];
        if evs.len() != 4 {
            eprintln!("insglue: expected 4 events (3 remote, 1 local), got {}", evs.len());
            bad = true;
        }
        for (i, w) in want.iter().enumerate() {
            match evs.get(i) {
                Some(Event::RemoteInsert { namespace, entry, from, should_download, remote_content_status }) => {
                    if *namespace != nsid || entry != w.0 || *from != w.1 || *remote_content_status != w.2 || *should_download != w.3 {
                        eprintln!("insglue: remote event {i} has wrong fields");
                        bad = true;
                    }
                }
                _ => {
                    eprintln!("insglue: event {i} is not a RemoteInsert");
                    bad = true;
                }
            }
        }
        match evs.get(3) {
            Some(Event::LocalInsert { namespace, entry }) if *namespace == nsid && entry.key() == b"local" => {}
            _ => {
                eprintln!("insglue: the local insert was not announced as LocalInsert");
                bad = true;
            }
        }
        drop(replica);
        let held = store.get_exact(nsid, author.id(), b"dl/k", true).unwrap();
        if held.map(|e| e.content_hash()) != Some(hi) {
            eprintln!("insglue: with equal timestamps the greater content hash must be the one held");
            bad = true;
        }
    }
    // ---- (1b) deletion markers that prune NOTHING when applied are entries like any other: stored, and announced once
    {
        let mut store = Store::memory();
        store.import_namespace(ns.clone().into()).unwrap();
        let mut replica = store.open_replica(&nsid).unwrap();
        let (tx, rx) = async_channel::bounded(16);
        replica.info.subscribe(tx);
        // remote marker for a prefix nothing is held under; local deletion of a key that never existed
        let tomb = mk(b"nothing/here/", Record::empty(now - 3));
        let r = block_on(replica.insert_remote_entry(tomb.clone(), [7u8; 32], ContentStatus::Complete));
        let l = block_on(replica.delete_prefix(b"never-existed", &author));
        let mut kinds = vec![];
        while let Ok(ev) = rx.try_recv() {
            match ev {
                Event::RemoteInsert { entry, .. } => kinds.push(("remote", entry.key().to_vec())),
                Event::LocalInsert { entry, .. } => kinds.push(("local", entry.key().to_vec())),
                _ => {}
            }
        }
        let want = vec![("remote", b"nothing/here/".to_vec()), ("local", b"never-existed".to_vec())];
        if !matches!(r, Ok(0)) || !matches!(l, Ok(0)) || kinds != want {
            eprintln!("insglue: deletion markers that removed nothing: results {:?} {:?}, events {:?} (expected one event each)", r.is_ok(), l.is_ok(), kinds.len());
            bad = true;
        }
        drop(replica);
        if store.get_exact(nsid, author.id(), b"nothing/here/", true).unwrap().is_none() {
            eprintln!("insglue: the deletion marker was not stored");
            bad = true;
        }
    }
    // ---- (1c) the policy is changed while the replica is open: the next remote event follows the NEW policy
    {
        let mut store = Store::memory();
        store.import_namespace(ns.clone().into()).unwrap();
        store.set_download_policy(&nsid, DownloadPolicy::NothingExcept(vec![FilterKind::Prefix("a/".into())])).unwrap();
        let mut flags = vec![];
        {
            let mut replica = store.open_replica(&nsid).unwrap();
            let (tx, rx) = async_channel::bounded(16);
            replica.info.subscribe(tx);
            block_on(replica.insert_remote_entry(mk(b"a/1", Record::new(Hash::new(b"1"), 1, now - 9)), [7u8; 32], ContentStatus::Complete)).unwrap();
            // the store is reachable through the replica: same object the actor writes the policy to
            replica.store.store.set_download_policy(&nsid, DownloadPolicy::NothingExcept(vec![FilterKind::Prefix("b/".into())])).unwrap();
            block_on(replica.insert_remote_entry(mk(b"a/2", Record::new(Hash::new(b"2"), 1, now - 8)), [7u8; 32], ContentStatus::Complete)).unwrap();
            block_on(replica.insert_remote_entry(mk(b"b/1", Record::new(Hash::new(b"3"), 1, now - 7)), [7u8; 32], ContentStatus::Complete)).unwrap();
            while let Ok(ev) = rx.try_recv() {
                if let Event::RemoteInsert { entry, should_download, .. } = ev {
                    flags.push((entry.key().to_vec(), should_download));
                }
            }
        }
        let want = vec![(b"a/1".to_vec(), true), (b"a/2".to_vec(), false), (b"b/1".to_vec(), true)];
        if flags != want {
            eprintln!("insglue: download flags after the policy changed while the replica was open: {:?}, expected {:?}", flags, want);
            bad = true;
        }
    }
    // ---- (2) read-only replica
    {
        let mut store = Store::memory();
        store.import_namespace(Capability::Read(nsid)).unwrap();
        let mut replica = store.open_replica(&nsid).unwrap();
        let local = block_on(replica.insert(b"k", &author, Hash::new(b"x"), 1));
        let local_del = block_on(replica.delete_prefix(b"k", &author));
        let e = mk(b"docs/a", Record::new(Hash::new(b"x"), 1, now - 5));
        let tomb = mk(b"docs/", Record::empty(now));
        let r1 = block_on(replica.insert_remote_entry(e, [7u8; 32], ContentStatus::Complete));
        let r2 = block_on(replica.insert_remote_entry(tomb, [7u8; 32], ContentStatus::Complete));
        if local.is_ok() || local_del.is_ok() {
            eprintln!("insglue: a read-only replica authored an entry or a deletion");
            bad = true;
        }
        if r1.is_err() || r2.is_err() {
            eprintln!("insglue: a read-only replica refused a validly signed remote entry / deletion marker: {:?} {:?}", r1.is_ok(), r2.is_ok());
            bad = true;
        }
    }
    bad
}


/// C08: get_range / get_first / get_fingerprint of the redb-backed store against the ordered-map
/// definitions, in a store that also holds a document with a smaller and one with a greater id, two
/// authors, the empty key and 0xFF keys; every pair (x, y) of stored ids (and the default id) is tried.
pub fn c08range() -> bool {
    use crate::ranger::{Range, RangeEntry, Store as _};
    let now = std::time::SystemTime::now().duration_since(std::time::UNIX_EPOCH).unwrap().as_micros() as u64;
    let mut store = Store::memory();
    // three documents; pick the one whose id is in the middle
    let mut docs: Vec<NamespaceSecret> = (40u8..43).map(|b| NamespaceSecret::from_bytes(&[b; 32])).collect();
    docs.sort_by_key(|d| *d.id().as_bytes());
    let a1 = Author::from_bytes(&[44u8; 32]);
    let a2 = Author::from_bytes(&[45u8; 32]);
    let keys: [&[u8]; 5] = [b"", b"a", b"a\xff", b"b", b"\xff\xff"];
    for d in docs.iter() {
        let mut r = store.new_replica(d.clone()).unwrap();
        for (i, k) in keys.iter().enumerate() {
            for au in [&a1, &a2] {
                if i % 2 == 0 || au.id() == a1.id() {
                    // the last key of the first author is a deletion marker (an entry like any other for ranges and fingerprints)
                    let rec = if i == 4 && au.id() == a1.id() { Record::empty(now + i as u64) } else { Record::new(Hash::new([b"v".as_slice(), k].concat()), 1 + k.len() as u64, now + i as u64) };
                    let e = SignedEntry::from_entry(Entry::new(RecordIdentifier::new(d.id(), au.id(), k), rec), d, au);
                    block_on(r.insert_remote_entry(e, [1u8; 32], ContentStatus::Complete)).unwrap();
                }
            }
        }
    }
    let mid = docs[1].id();
    let all: Vec<SignedEntry> = store.get_many(mid, crate::store::Query::all().include_empty()).unwrap().collect::<Result<Vec<_>, _>>().unwrap();
    let mut ids: Vec<RecordIdentifier> = all.iter().map(|e| e.id().clone()).collect();
    ids.sort();
    let mut bad = false;
    let mut replica = store.open_replica(&mid).unwrap();
    let first = replica.store.get_first().unwrap();
    if first != ids[0] {
        eprintln!("c08range: get_first is not the smallest id of the document");
        bad = true;
    }
    let mut points = ids.clone();
    points.push(RecordIdentifier::default());
    let mut n = 0;
    for x in points.iter() {
        for y in points.iter() {
            if (x == &RecordIdentifier::default()) != (y == &RecordIdentifier::default()) {
                continue; // the default id only occurs as the (x, x) range of an empty replica
            }
            let got: Vec<RecordIdentifier> = replica.store.get_range(Range::new(x.clone(), y.clone())).unwrap().map(|e| e.unwrap().id().clone()).collect();
            let want: Vec<RecordIdentifier> = if x == y {
                ids.clone()
            } else if x < y {
                ids.iter().filter(|t| *t >= x && *t < y).cloned().collect()
            } else {
                ids.iter().filter(|t| *t < y).chain(ids.iter().filter(|t| *t >= x)).cloned().collect()
            };
            n += 1;
            if got != want {
                if !bad {
                    eprintln!("c08range: get_range(x, y) differs from the ordered-map definition: got {} ids, want {} (x<y: {}, x==y: {})", got.len(), want.len(), x < y, x == y);
                }
                bad = true;
            }
            let fp = replica.store.get_fingerprint(&Range::new(x.clone(), y.clone())).unwrap();
            let mut wfp = crate::ranger::Fingerprint::empty();
            for e in all.iter().filter(|e| want.contains(e.id())) {
                wfp ^= e.as_fingerprint();
            }
            if fp != wfp {
                if !bad {
                    eprintln!("c08range: get_fingerprint differs from the XOR over the range's entries");
                }
                bad = true;
            }
        }
    }
    drop(replica);
    store.close_replica(mid);
    // an EMPTY document whose id sorts before / between / after the filled ones: its first key is the default id, its whole range
    // and every fingerprint are empty (nothing of a neighbouring document shows through)
    for b in [1u8, 2, 3, 250, 251, 252] {
        let d = NamespaceSecret::from_bytes(&[b; 32]);
        let _ = store.new_replica(d.clone()).unwrap();
        let mut r = store.open_replica(&d.id()).unwrap();
        let first = r.store.get_first().unwrap();
        let dflt = RecordIdentifier::default();
        let n_all = r.store.get_range(Range::new(dflt.clone(), dflt.clone())).unwrap().count();
        let fp = r.store.get_fingerprint(&Range::new(dflt.clone(), dflt.clone())).unwrap();
        if first != dflt || n_all != 0 || fp != crate::ranger::Fingerprint::empty() {
            if !bad {
                eprintln!("c08range: an empty document (seed {b}) next to filled ones: get_first is the default id: {}, entries in its whole range: {n_all}, empty fingerprint: {}", first == dflt, fp == crate::ranger::Fingerprint::empty());
            }
            bad = true;
        }
        drop(r);
        store.close_replica(d.id());
    }
    // a document is asked for its whole-range fingerprint, removed, re-created: the fingerprint of the new (empty) document is the
    // empty one (nothing computed for the old contents may be answered again)
    {
        let d = docs[0].clone();
        let dflt = RecordIdentifier::default();
        let mut r = store.open_replica(&d.id()).unwrap();
        let before = r.store.get_fingerprint(&Range::new(dflt.clone(), dflt.clone())).unwrap();
        drop(r);
        store.close_replica(d.id());
        store.remove_replica(&d.id()).unwrap();
        let _ = store.new_replica(d.clone()).unwrap();
        let mut r = store.open_replica(&d.id()).unwrap();
        let after = r.store.get_fingerprint(&Range::new(dflt.clone(), dflt.clone())).unwrap();
        drop(r);
        store.close_replica(d.id());
        if before == crate::ranger::Fingerprint::empty() || after != crate::ranger::Fingerprint::empty() {
            eprintln!("c08range: whole-range fingerprint of a removed and re-created (empty) document: empty before removal: {}, empty afterwards: {}", before == crate::ranger::Fingerprint::empty(), after == crate::ranger::Fingerprint::empty());
            bad = true;
        }
    }
    eprintln!("c08range: {n} ranges over {} ids compared; mismatch: {bad}", ids.len());
    bad
}


/// C09/C10: identifiers and signed entries decoded from hostile bytes (an id of fewer than 64 bytes, inside a
/// signed entry or as a range bound) must be refused by the decoder, or at least be usable without a panic.
pub fn c09recid() -> bool {
    use bytes::Bytes;
    let mut bad = false;
    for n in [0usize, 3, 31, 32, 40, 63] {
        let raw = postcard::to_stdvec(&Bytes::from(vec![7u8; n])).unwrap();
        match postcard::from_bytes::<RecordIdentifier>(&raw) {
            Err(_) => {}
            Ok(id) => {
                let r = std::panic::catch_unwind(|| {
                    let _ = id.namespace();
                    let _ = id.author();
                    let _ = id.key().len();
                    let _ = id.as_byte_tuple();
                });
                if r.is_err() {
                    eprintln!("c09recid: a {n}-byte identifier was accepted by the decoder and its accessors panic");
                    bad = true;
                }
            }
        }
    }
    // a well-formed identifier still round-trips
    let good = RecordIdentifier::new(crate::NamespaceId::from(&[1u8; 32]), crate::AuthorId::from(&[2u8; 32]), b"key");
    let back: Result<RecordIdentifier, _> = postcard::from_bytes(&postcard::to_stdvec(&good).unwrap());
    if back.ok() != Some(good.clone()) {
        eprintln!("c09recid: a well-formed identifier does not survive encode/decode");
        bad = true;
    }
    let empty_key = RecordIdentifier::new(crate::NamespaceId::from(&[1u8; 32]), crate::AuthorId::from(&[2u8; 32]), b"");
    let back: Result<RecordIdentifier, _> = postcard::from_bytes(&postcard::to_stdvec(&empty_key).unwrap());
    if back.ok() != Some(empty_key) {
        eprintln!("c09recid: the identifier with the empty key does not survive encode/decode");
        bad = true;
    }
    bad
}

/// C12 (subscribers): every live subscriber sees every applied entry exactly once and in order, whichever other
/// subscriber dropped its receiver or unsubscribed (first, middle or last registered).
pub fn c12subs() -> bool {
    use crate::sync::Event;
    let mut bad = false;
    for nsubs in 2..=4usize {
        for gone in 0..nsubs {
            for by_unsubscribe in [false, true] {
                let mut store = Store::memory();
                let ns = NamespaceSecret::from_bytes(&[23u8; 32]);
                let author = Author::from_bytes(&[24u8; 32]);
                let mut replica = store.new_replica(ns.clone()).unwrap();
                let mut chans: Vec<(async_channel::Sender<Event>, Option<async_channel::Receiver<Event>>)> = vec![];
                for _ in 0..nsubs {
                    let (tx, rx) = async_channel::bounded(64);
                    replica.info.subscribe(tx.clone());
                    chans.push((tx, Some(rx)));
                }
                if by_unsubscribe {
                    replica.info.unsubscribe(&chans[gone].0);
                } else {
                    chans[gone].1 = None; // the receiver is dropped
                }
                let keys: [&[u8]; 3] = [b"k1", b"k2", b"k3"];
                for k in keys {
                    block_on(replica.insert(k, &author, Hash::new(k), k.len() as u64)).unwrap();
                }
                for (i, (_tx, rx)) in chans.iter().enumerate() {
                    let Some(rx) = rx else { continue };
                    let mut got = vec![];
                    while let Ok(ev) = rx.try_recv() {
                        if let Event::LocalInsert { entry, .. } = ev {
                            got.push(entry.key().to_vec());
                        }
                    }
                    let want: Vec<Vec<u8>> = if by_unsubscribe && i == gone { vec![] } else { keys.iter().map(|k| k.to_vec()).collect() };
                    if got != want {
                        if !bad {
                            eprintln!("c12subs: {nsubs} subscribers, #{gone} {}: subscriber #{i} saw {} events, expected {}", if by_unsubscribe { "unsubscribed" } else { "dropped its receiver" }, got.len(), want.len());
                        }
                        bad = true;
                    }
                }
            }
        }
    }
    bad
}

/// C03 (future bound, both ingress paths): an entry stamped 15 minutes ahead of the local clock is refused as a single remote
/// insert AND inside a reconciliation message; one stamped 5 minutes ahead is accepted on both.
pub fn c03clock() -> bool {
    let mut bad = false;
    let ns = NamespaceSecret::from_bytes(&[81u8; 32]);
    let author = Author::from_bytes(&[82u8; 32]);
    let nsid = ns.id();
    let now = std::time::SystemTime::now().duration_since(std::time::UNIX_EPOCH).unwrap().as_micros() as u64;
    let mk = |key: &[u8], ts: u64| SignedEntry::from_entry(Entry::new(RecordIdentifier::new(nsid, author.id(), key), Record::new(Hash::new(key), 1 + key.len() as u64, ts)), &ns, &author);
    let min = 60_000_000u64;
    for via_message in [false, true] {
        let mut store = Store::memory();
        store.import_namespace(ns.clone().into()).unwrap();
        let mut replica = store.open_replica(&nsid).unwrap();
        let far = mk(b"far", now + 15 * min);
        let near = mk(b"near", now + 5 * min);
        if via_message {
            let range = Range::new(RecordIdentifier::default(), RecordIdentifier::default());
            let msg = message(vec![MessagePart::RangeItem(RangeItem { range, values: vec![(far.clone(), ContentStatus::Complete), (near.clone(), ContentStatus::Complete)], have_local: true })]);
            let mut outcome = SyncOutcome::default();
            let _ = block_on(replica.sync_process_message(msg, [9u8; 32], &mut outcome));
        } else {
            let _ = block_on(replica.insert_remote_entry(far.clone(), [9u8; 32], ContentStatus::Complete));
            let _ = block_on(replica.insert_remote_entry(near.clone(), [9u8; 32], ContentStatus::Complete));
        }
        drop(replica);
        let has_far = store.get_exact(nsid, author.id(), b"far", true).unwrap().is_some();
        let has_near = store.get_exact(nsid, author.id(), b"near", true).unwrap().is_some();
        if has_far || !has_near {
            eprintln!("c03clock ({}): entry 15 min ahead stored: {has_far}; entry 5 min ahead stored: {has_near}", if via_message { "reconciliation message" } else { "single remote insert" });
            bad = true;
        }
    }
    bad
}

/// constants of the real build, by name
pub fn constant(name: &str) -> Option<u64> {
    Some(match name {
        "PEERS_PER_DOC_CACHE_SIZE" => crate::store::PEERS_PER_DOC_CACHE_SIZE.get() as u64,
        _ => return None,
    })
}

pub fn run(id: &str) -> Option<bool> {
    Some(match id {
        "d3" => d3(),
        "c08foreign" => super::witness_pm::c08foreign(),
        "c03remote" => c03remote(),
        "d6" => d6(),
        "c12" => c12(),
        "c12pm" => c12pm(),
        "c03clock" => c03clock(),
        "c12subs" => c12subs(),
        "insglue" => insglue(),
        "c08range" => c08range(),
        "c09recid" => c09recid(),
        "c01silence" => c01silence(),
        "c01reply" => super::witness_pm::c01reply(),
        "c02prune" => super::witness_pm::c02prune(),
        "c02local" => super::witness_pm::c02local(),
        "c01session" => super::witness_pm::c01session(),
        "fp" => fp(),
        "c14" => crate::actor::verif_incrate::witness_c14(),
        "c11live" => crate::engine::verif_live::witness_c11live(),
        "c09frame" => crate::net::verif_codec::witness_c09frame(),
        "c10steps" => crate::net::verif_codec::witness_c10steps(),
        "c10accept" => crate::net::verif_codec::witness_c10accept(),
        "c18" => crate::store::fs::verif_incrate::witness_c18::run(),
        "c06" => crate::store::fs::verif_incrate::witness_c06::run(),
        "c06dur" => crate::store::fs::verif_incrate::witness_c06dur::run(),
        "c15store" => crate::store::fs::verif_incrate::witness_c15::run(),
        _ => return None,
    })
}
