//! Native witnesses that need crate-private constructors (messages with hand-made parts).
//! Each returns `true` when the defect manifests on the real build (real redb, real ed25519).
#![cfg(not(kani))]
use std::future::Future;
use std::pin::pin;
use std::task::{Context, Poll, Waker};

use crate::ranger::{Message, MessagePart, Range, RangeItem};
use crate::store::fs::Store;
use crate::sync::{ContentStatus, Entry, Record, RecordIdentifier, SignedEntry, SyncOutcome};
use crate::{Author, NamespaceSecret};
use iroh_blobs::Hash;

pub fn block_on<F: Future>(f: F) -> F::Output {
    let mut f = pin!(f);
    let mut cx = Context::from_waker(Waker::noop());
    loop {
        if let Poll::Ready(v) = f.as_mut().poll(&mut cx) {
            return v;
        }
        std::thread::yield_now();
    }
}

fn message(parts: Vec<MessagePart<SignedEntry>>) -> Message<SignedEntry> {
    // `Message { parts }` has one private field
    unsafe { std::mem::transmute::<Vec<MessagePart<SignedEntry>>, Message<SignedEntry>>(parts) }
}

/// D3: an honestly signed entry with non-zero length but the EMPTY hash is refused by
/// `insert_remote_entry` (validate_empty) — is it also refused inside a reconciliation message?
pub fn d3() -> bool {
    let mut store = Store::memory();
    let ns = NamespaceSecret::from_bytes(&[3u8; 32]);
    let author = Author::from_bytes(&[4u8; 32]);
    let mut replica = store.new_replica(ns.clone()).unwrap();
    let now = std::time::SystemTime::now().duration_since(std::time::UNIX_EPOCH).unwrap().as_micros() as u64;
    let id = RecordIdentifier::new(ns.id(), author.id(), b"k");
    let malformed = SignedEntry::from_entry(Entry::new(id.clone(), Record::new(Hash::EMPTY, 5, now)), &ns, &author);
    let direct = block_on(replica.insert_remote_entry(malformed.clone(), [9u8; 32], ContentStatus::Missing));
    let range = Range::new(RecordIdentifier::default(), RecordIdentifier::default());
    let msg = message(vec![MessagePart::RangeItem(RangeItem { range, values: vec![(malformed, ContentStatus::Missing)], have_local: true })]);
    let mut outcome = SyncOutcome::default();
    let _ = block_on(replica.sync_process_message(msg, [9u8; 32], &mut outcome)).unwrap();
    let nsid = replica.id();
    drop(replica);
    let stored = store.get_exact(nsid, author.id(), b"k", true).unwrap().is_some();
    eprintln!("d3: direct remote insert rejected: {}; stored via reconciliation message: {stored}", direct.is_err());
    direct.is_err() && stored
}

/// D6: the store actor is gone when the Init message is processed: `BobState::run` returns an error
/// with `progress` taken; `into_outcome` (called unconditionally by `net::handle_connection`) panics.
pub fn d6() -> bool {
    let r = std::panic::catch_unwind(|| {
        let mut s = crate::verif_incrate::src::ReplaySrc::new(vec![]);
        crate::net::verif_codec::bob_run::<_, 0>(&mut s);
    });
    eprintln!("d6: BobState::run + into_outcome with the store actor gone panicked: {}", r.is_err());
    r.is_err()
}

pub fn run(id: &str) -> Option<bool> {
    Some(match id {
        "d3" => d3(),
        "d6" => d6(),
        _ => return None,
    })
}
