//! harness bodies over public items: download policies (C15), author heads (C13), decoders (C09)
use bytes::Bytes;

use crate::store::{DownloadPolicy, FilterKind};
use crate::sync::{Entry, Record, RecordIdentifier};
use crate::verif_incrate::src::{ck, cv, Src};
use crate::{AuthorHeads, AuthorId, NamespaceId};

fn any_filter<S: Src, const F: usize>(s: &mut S) -> (bool, [u8; F], FilterKind) {
    let exact = s.bool();
    let b: [u8; F] = s.arr();
    let f = if exact { FilterKind::Exact(Bytes::copy_from_slice(&b)) } else { FilterKind::Prefix(Bytes::copy_from_slice(&b)) };
    (exact, b, f)
}

/// C15: `DownloadPolicy::matches` = (NothingExcept: some filter matches) / (EverythingExcept: no
/// filter matches); prefix filter = starts_with, exact filter = equality.  Two filters of lengths
/// F1, F2 (0 = the empty filter), key of length K, all bytes symbolic (non-UTF-8 included).
pub fn policy_matches<S: Src, const F1: usize, const F2: usize, const K: usize, const NF: usize>(s: &mut S) {
    let (e1, b1, f1) = any_filter::<S, F1>(s);
    let (e2, b2, f2) = any_filter::<S, F2>(s);
    let key: [u8; K] = s.arr();
    // number of filters in the list: concrete per instance (a Vec of symbolic length is a memory
    // bomb for CBMC's array theory)
    let n = NF as u8;
    let mut filters = Vec::with_capacity(2);
    if n >= 1 {
        filters.push(f1);
    }
    if n >= 2 {
        filters.push(f2);
    }
    let nothing_except = s.bool();
    let policy = if nothing_except { DownloadPolicy::NothingExcept(filters) } else { DownloadPolicy::EverythingExcept(filters) };
    let id = RecordIdentifier::new(NamespaceId::from(&[1u8; 32]), AuthorId::from(&[2u8; 32]), key);
    // (a non-empty record: `Record::new` then skips its debug assertion's 32-byte hash comparison)
    let entry = Entry::new(id, Record::new(iroh_blobs::Hash::from_bytes([7u8; 32]), 1, 0));
    let m1 = if e1 { key[..] == b1[..] } else { key.starts_with(&b1) };
    let m2 = if e2 { key[..] == b2[..] } else { key.starts_with(&b2) };
    let any = (n >= 1 && m1) || (n >= 2 && m2);
    let want = if nothing_except { any } else { !any };
    let got = policy.matches(&entry);
    cv!(s, NF < 2 || (!m1 && m2), "policy_matches: only the second filter matches");
    cv!(s, NF > 0 || got == !nothing_except, "policy_matches: empty filter list");
    ck!(s, got == want, "an entry is selected exactly when (nothing-except) some filter matches / (everything-except) no filter matches");
    std::mem::forget(policy);
    std::mem::forget(entry);
}

/// C12/C15: the policy's answer depends on the KEY only: for a deletion marker (no content) it is the same as for a record.
pub fn policy_matches_marker<S: Src, const F1: usize, const K: usize>(s: &mut S) {
    let (e1, b1, f1) = any_filter::<S, F1>(s);
    let key: [u8; K] = s.arr();
    let nothing_except = s.bool();
    let filters = vec![f1];
    let policy = if nothing_except { DownloadPolicy::NothingExcept(filters) } else { DownloadPolicy::EverythingExcept(filters) };
    let id = RecordIdentifier::new(NamespaceId::from(&[1u8; 32]), AuthorId::from(&[2u8; 32]), key);
    let entry = Entry::new(id, Record::empty(s.u64()));
    let m1 = if e1 { key[..] == b1[..] } else { key.starts_with(&b1) };
    let want = if nothing_except { m1 } else { !m1 };
    let got = policy.matches(&entry);
    cv!(s, m1, "policy_matches_marker: the filter matches the marker's key");
    cv!(s, !m1, "policy_matches_marker: the filter does not match");
    ck!(s, got == want, "a deletion marker is selected exactly when its key is (the flag of an event is the policy's answer for the key, content or not)");
    std::mem::forget(policy);
    std::mem::forget(entry);
}

/// C15/C09: filters survive their textual form unchanged (`from_str(to_string(f)) == f`), for
/// UTF-8 and non-UTF-8 (hex) bytes.
pub fn filter_text_roundtrip<S: Src, const F: usize>(s: &mut S) {
    let (_exact, b, f) = any_filter::<S, F>(s);
    let text = f.to_string();
    let back: Result<FilterKind, _> = text.parse();
    cv!(s, std::str::from_utf8(&b).is_err(), "filter_text_roundtrip: non-UTF-8 filter bytes (hex form)");
    cv!(s, std::str::from_utf8(&b).is_ok(), "filter_text_roundtrip: UTF-8 filter bytes");
    match &back {
        Ok(g) => ck!(s, *g == f, "a filter survives its textual form unchanged"),
        Err(_) => ck!(s, false, "the textual form of a filter always parses"),
    }
    std::mem::forget(back);
}

/// C09/C15: `FilterKind::from_str` never panics on arbitrary (UTF-8) strings of length N.
pub fn filter_from_str_total<S: Src, const N: usize>(s: &mut S) {
    let b: [u8; N] = s.arr();
    if let Ok(text) = std::str::from_utf8(&b) {
        let r: Result<FilterKind, _> = text.parse();
        cv!(s, r.is_ok(), "filter_from_str_total: some string parses");
        cv!(s, r.is_err(), "filter_from_str_total: some string is rejected");
        std::mem::forget(r);
    }
}

// ---------------------------------------------------------------------------------------------
// C13 author heads
// ---------------------------------------------------------------------------------------------

fn author(b: u8) -> AuthorId {
    let mut a = [0u8; 32];
    a[0] = b;
    AuthorId::from(&a)
}

/// C13: `insert` keeps the maximum per author; `has_news_for` counts exactly the authors with a
/// strictly newer timestamp or unknown to the other side.  One author per side (the two ids are
/// symbolic in one byte and may coincide), two inserts for ours, u64 timestamps.  (B-tree maps
/// with 32-byte keys are expensive for CBMC, DESIGN.md P12: the two-author variant is thorough-only.)
pub fn heads_news_1<S: Src>(s: &mut S) {
    let (a1, b1) = (s.u8(), s.u8());
    let (ta, ta2, tb) = (s.u64(), s.u64(), s.u64());
    let mut ours = AuthorHeads::default();
    ours.insert(author(a1), ta);
    ours.insert(author(a1), ta2);
    let mut theirs = AuthorHeads::default();
    theirs.insert(author(b1), tb);
    let our_head = ta.max(ta2);
    ck!(s, ours.get(&author(a1)) == Some(our_head) && ours.len() == 1, "insert keeps the greatest timestamp per author");
    let want = if b1 == a1 { (tb > our_head) as u64 } else { 1 };
    let got = theirs.has_news_for(&ours).map(|n| n.get()).unwrap_or(0);
    cv!(s, b1 == a1 && tb == our_head, "heads_news_1: the report names exactly the head we hold");
    cv!(s, b1 != a1, "heads_news_1: unknown author");
    ck!(s, got == want, "a head report is news exactly for the authors with a strictly newer timestamp or unknown to us");
    std::mem::forget(ours);
    std::mem::forget(theirs);
}

/// C13: `insert` keeps the maximum per author; `has_news_for` counts exactly the authors with a
/// strictly newer timestamp or unknown to the other side.  Two authors per side (ids symbolic in
/// one byte, may coincide), u64 timestamps.
pub fn heads_news_2<S: Src>(s: &mut S) {
    let (a1, a2, b1, b2) = (s.u8(), s.u8(), s.u8(), s.u8());
    let (ta1, ta1b, ta2, tb1, tb2) = (s.u64(), s.u64(), s.u64(), s.u64(), s.u64());
    let mut ours = AuthorHeads::default();
    ours.insert(author(a1), ta1);
    ours.insert(author(a1), ta1b);
    ours.insert(author(a2), ta2);
    let mut theirs = AuthorHeads::default();
    theirs.insert(author(b1), tb1);
    theirs.insert(author(b2), tb2);
    // spec of the two maps
    let our_a1 = if a1 == a2 { ta1.max(ta1b).max(ta2) } else { ta1.max(ta1b) };
    let our_a2 = if a1 == a2 { our_a1 } else { ta2 };
    ck!(s, ours.get(&author(a1)) == Some(our_a1) && ours.get(&author(a2)) == Some(our_a2), "insert keeps the greatest timestamp per author");
    ck!(s, ours.len() == if a1 == a2 { 1 } else { 2 }, "one head per author");
    let their_b1 = if b1 == b2 { tb1.max(tb2) } else { tb1 };
    let their_b2 = if b1 == b2 { their_b1 } else { tb2 };
    let our_ts = |x: u8| -> Option<u64> {
        if x == a1 {
            Some(our_a1)
        } else if x == a2 {
            Some(our_a2)
        } else {
            None
        }
    };
    let news = |x: u8, t: u64| -> bool { our_ts(x).map(|o| t > o).unwrap_or(true) };
    let mut want = 0u64;
    if news(b1, their_b1) {
        want += 1;
    }
    if b2 != b1 && news(b2, their_b2) {
        want += 1;
    }
    let got = theirs.has_news_for(&ours).map(|n| n.get()).unwrap_or(0);
    cv!(s, want == 2, "heads_news: news for two authors");
    cv!(s, want == 0 && b1 == a1, "heads_news: nothing new for a known author");
    ck!(s, got == want, "a head report is news exactly for the authors with a strictly newer timestamp or unknown to us");
    std::mem::forget(ours);
    std::mem::forget(theirs);
}

/// C13/C09: `encode(None)` keeps every author (also authors sharing a timestamp) and `decode`
/// returns what was kept; `encode(Some(limit))` never exceeds the limit and keeps the newest heads.
pub fn heads_encode_roundtrip<S: Src, const LIMITED: bool>(s: &mut S) {
    let (a1, a2) = (s.u8(), s.u8());
    s.assume(a1 != a2);
    let (t1, t2) = (s.u64(), s.u64());
    let mut h = AuthorHeads::default();
    h.insert(author(a1), t1);
    h.insert(author(a2), t2);
    let limit = if LIMITED { Some((s.u8() % 100) as usize) } else { None };
    let enc = h.encode(limit);
    let Ok(bytes) = &enc else {
        ck!(s, false, "encoding author heads does not fail");
        return;
    };
    if let Some(l) = limit {
        ck!(s, bytes.len() <= l, "the encoding never exceeds the size limit");
    }
    let dec = AuthorHeads::decode(bytes);
    let Ok(d) = &dec else {
        ck!(s, false, "an encoding produced by encode decodes");
        return;
    };
    cv!(s, t1 == t2, "heads_encode_roundtrip: two authors sharing a timestamp");
    if !LIMITED {
        ck!(s, d.len() == 2 && d.get(&author(a1)) == Some(t1) && d.get(&author(a2)) == Some(t2),
            "without a size limit encoding keeps every author and decoding returns what was kept");
    } else {
        // what was kept is a subset with the right timestamps, closed under "newer"
        let k1 = d.get(&author(a1));
        let k2 = d.get(&author(a2));
        ck!(s, (k1.is_none() || k1 == Some(t1)) && (k2.is_none() || k2 == Some(t2)) && d.len() == k1.is_some() as usize + k2.is_some() as usize,
            "decoding returns a subset of the heads with unchanged timestamps");
        ck!(s, !(k1.is_some() && k2.is_none() && t2 > t1) && !(k2.is_some() && k1.is_none() && t1 > t2),
            "under a size limit the newest heads are kept");
        cv!(s, d.len() == 1, "heads_encode_roundtrip: the limit drops one head");
    }
    std::mem::forget(h);
    std::mem::forget(enc);
    std::mem::forget(dec);
}

/// C09: `AuthorHeads::decode` on arbitrary bytes yields a value or an error, never a panic.
pub fn heads_decode_total<S: Src, const N: usize>(s: &mut S) {
    let b: [u8; N] = s.arr();
    let r = AuthorHeads::decode(&b);
    cv!(s, r.is_ok(), "heads_decode_total: some bytes decode");
    cv!(s, r.is_err(), "heads_decode_total: some bytes are rejected");
    std::mem::forget(r);
}
