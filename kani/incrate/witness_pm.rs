//! Native witnesses for the reconciliation replies of the REAL generic `ranger::Store::process_message`, run over the
//! REAL redb-backed `StoreInstance` (in-memory database) with honestly signed entries:
//!   `c01reply`   one fingerprint / item part at a time, every (x, y) over the stored ids and ids between them, split
//!                factors 2..4, max set sizes 0..3, compared with the specification of the reply;
//!   `c01session` whole sessions between two replicas (both initiators, the same configurations): termination within
//!                a bound, both sides end with the join, a second session transfers nothing, counters mirror.
//! Each returns `true` when the defect manifests.
#![cfg(not(kani))]
use super::witness::block_on;
use crate::ranger::{Fingerprint, Message, MessagePart, Range, RangeEntry, RangeFingerprint, RangeItem, Store as _, SyncConfig};
use crate::store::fs::Store;
use crate::sync::{ContentStatus, Entry, Record, RecordIdentifier, SignedEntry};
use crate::{Author, NamespaceSecret};
use iroh_blobs::Hash;

fn message(parts: Vec<MessagePart<SignedEntry>>) -> Message<SignedEntry> {
    unsafe { std::mem::transmute::<Vec<MessagePart<SignedEntry>>, Message<SignedEntry>>(parts) }
}

/// `SyncConfig` has private fields; it is built by transmutation and the result is checked through its Debug output.
fn cfg(max_set_size: usize, split_factor: usize) -> SyncConfig {
    let c = unsafe { std::mem::transmute::<(usize, usize), SyncConfig>((max_set_size, split_factor)) };
    let want = format!("SyncConfig {{ max_set_size: {max_set_size}, split_factor: {split_factor} }}");
    if format!("{c:?}") == want {
        return c;
    }
    let c = unsafe { std::mem::transmute::<(usize, usize), SyncConfig>((split_factor, max_set_size)) };
    assert_eq!(format!("{c:?}"), want, "SyncConfig layout not understood");
    c
}

fn in_range(x: &RecordIdentifier, y: &RecordIdentifier, t: &RecordIdentifier) -> bool {
    if x == y {
        true
    } else if x < y {
        x <= t && t < y
    } else {
        x <= t || t < y
    }
}

fn status_of(e: &SignedEntry) -> ContentStatus {
    // a content status that depends on the entry, so that mixed-up statuses are noticed
    match e.key().first().copied().unwrap_or(0) % 3 {
        0 => ContentStatus::Complete,
        1 => ContentStatus::Incomplete,
        _ => ContentStatus::Missing,
    }
}

struct Doc {
    ns: NamespaceSecret,
    authors: Vec<Author>,
    now: u64,
}

impl Doc {
    fn new(seed: u8) -> Self {
        let mut authors: Vec<Author> = (0..2u8).map(|i| Author::from_bytes(&[seed + 1 + i; 32])).collect();
        authors.sort_by_key(|a| *a.id().as_bytes());
        Doc {
            ns: NamespaceSecret::from_bytes(&[seed; 32]),
            authors,
            now: std::time::SystemTime::now().duration_since(std::time::UNIX_EPOCH).unwrap().as_micros() as u64,
        }
    }
    fn id(&self, author: usize, key: &[u8]) -> RecordIdentifier {
        RecordIdentifier::new(self.ns.id(), self.authors[author].id(), key)
    }
    fn entry(&self, author: usize, key: &[u8], age: u64, val: u8) -> SignedEntry {
        let rec = Record::new(Hash::new([&[val][..], key].concat()), 1 + key.len() as u64, self.now - 1_000_000 - age);
        SignedEntry::from_entry(Entry::new(self.id(author, key), rec), &self.ns, &self.authors[author])
    }
}

fn fill(store: &mut Store, doc: &Doc, entries: &[SignedEntry]) {
    let mut r = store.new_replica(doc.ns.clone()).unwrap();
    for e in entries {
        let _ = block_on(r.insert_remote_entry(e.clone(), [1u8; 32], ContentStatus::Complete)); // a superseded entry is refused: fine
    }
}

fn all_of(store: &mut Store, doc: &Doc) -> Vec<SignedEntry> {
    let mut v: Vec<SignedEntry> = store
        .get_many(doc.ns.id(), crate::store::Query::all().include_empty())
        .unwrap()
        .collect::<Result<Vec<_>, _>>()
        .unwrap();
    v.sort_by(|a, b| a.id().cmp(b.id()));
    v
}

/// one call of the real generic process_message on the real store; every received entry is accepted
fn pm(store: &mut Store, doc: &Doc, config: &SyncConfig, msg: Message<SignedEntry>, inserted: &mut usize) -> Option<Message<SignedEntry>> {
    let mut replica = store.open_replica(&doc.ns.id()).unwrap();
    let n = std::cell::Cell::new(0usize);
    let r = block_on(replica.store.process_message(
        config,
        msg,
        |_s, _e, _c| true,
        async |_s, _e, _c| {
            n.set(n.get() + 1);
        },
        async |e: &SignedEntry| status_of(e),
    ))
    .expect("process_message on an in-memory store");
    *inserted += n.get();
    drop(replica);
    store.close_replica(doc.ns.id());
    r
}

const KEYS: [&[u8]; 7] = [b"", b"a", b"a\xff", b"b", b"c", b"\xff", b"\xff\xff"];

pub fn c01reply() -> bool {
    let doc = Doc::new(60);
    let mut bad = false;
    let mut report = |msg: String| {
        if !bad {
            eprintln!("c01reply: {msg}");
        }
        bad = true;
    };
    let mut ncalls = 0usize;
    // stored sets of 0..5 entries over two authors; probe / bound ids: every stored id and ids that fall between them
    for n in 0..=5usize {
        let mut entries = vec![];
        for i in 0..n {
            // keys spread over both authors, with the empty key and 0xFF edges
            let (author, key) = [(0usize, KEYS[1]), (0, KEYS[3]), (1, KEYS[0]), (1, KEYS[2]), (0, KEYS[6])][i];
            entries.push(doc.entry(author, key, 100 - i as u64, 1)); // later entries are newer: no prefix pruning among them
        }
        let mut store = Store::memory();
        fill(&mut store, &doc, &entries);
        let local = all_of(&mut store, &doc);
        let mut points: Vec<RecordIdentifier> = local.iter().map(|e| e.id().clone()).collect();
        for a in 0..2 {
            for k in KEYS {
                let id = doc.id(a, k);
                if !points.contains(&id) {
                    points.push(id);
                }
            }
        }
        points.sort();
        for sf in 2..=4usize {
            for ms in 0..=3usize {
                let config = cfg(ms, sf);
                for x in points.iter() {
                    for y in points.iter() {
                        let in_r: Vec<&SignedEntry> = local.iter().filter(|e| in_range(x, y, e.id())).collect();
                        // wrap-around ranges list the part before y first (key order), like the ordered map does
                        let mut local_fp = Fingerprint::empty();
                        for e in in_r.iter() {
                            local_fp ^= e.as_fingerprint();
                        }
                        for remote in 0..3u8 {
                            // 0: equal fingerprint; 1: the peer's set is empty; 2: some other fingerprint
                            let fp = match remote {
                                0 => local_fp,
                                1 => Fingerprint::empty(),
                                _ => Fingerprint([0x5a; 32]),
                            };
                            if remote == 1 && local_fp == Fingerprint::empty() {
                                continue;
                            }
                            let msg = message(vec![MessagePart::RangeFingerprint(RangeFingerprint { range: Range::new(x.clone(), y.clone()), fingerprint: fp })]);
                            let mut ins = 0;
                            ncalls += 1;
                            let reply = pm(&mut store, &doc, &config, msg, &mut ins);
                            let what = format!("n={n} split_factor={sf} max_set_size={ms} x={} y={} remote={remote} local in range={}", hex(x), hex(y), in_r.len());
                            if remote == 0 {
                                if reply.is_some() {
                                    report(format!("equal fingerprints were answered ({what})"));
                                }
                                continue;
                            }
                            let Some(reply) = reply else {
                                report(format!("a differing fingerprint was not answered ({what})"));
                                continue;
                            };
                            let parts = reply.parts();
                            if in_r.len() <= 1 || remote == 1 {
                                let ok = parts.len() == 1
                                    && match &parts[0] {
                                        MessagePart::RangeItem(RangeItem { range, values, have_local }) => {
                                            range.x() == x && range.y() == y && !*have_local && values.len() == in_r.len() && values.iter().zip(in_r.iter()).all(|((e, s), w)| e == *w && *s == status_of(w))
                                        }
                                        _ => false,
                                    };
                                if !ok {
                                    report(format!("recursion anchor: the reply is not the item part of the range with exactly its local entries ({what}; {} parts)", parts.len()));
                                }
                                continue;
                            }
                            // recursion: every key of the range lies in a reply range that makes progress (holds fewer local entries
                            // than the received range); redundant / overlapping reply ranges are tolerated (they cost traffic only)
                            for p in points.iter().filter(|p| in_range(x, y, p)) {
                                let covered = parts.iter().any(|part| {
                                    let r = match part {
                                        MessagePart::RangeItem(i) => &i.range,
                                        MessagePart::RangeFingerprint(f) => &f.range,
                                    };
                                    in_range(r.x(), r.y(), p) && local.iter().filter(|e| in_range(r.x(), r.y(), e.id())).count() < in_r.len()
                                });
                                if !covered {
                                    report(format!("recursion: key {} of the received range lies in no reply range that makes progress ({what})", hex(p)));
                                }
                            }
                            for part in parts {
                                let r = match part {
                                    MessagePart::RangeItem(i) => &i.range,
                                    MessagePart::RangeFingerprint(f) => &f.range,
                                };
                                let sub: Vec<&SignedEntry> = local.iter().filter(|e| in_range(r.x(), r.y(), e.id())).collect();
                                match part {
                                    MessagePart::RangeItem(i) => {
                                        if i.have_local || i.values.len() != sub.len() || !i.values.iter().zip(sub.iter()).all(|((e, s), w)| e == *w && *s == status_of(w)) {
                                            report(format!("recursion: an item part does not carry exactly the local entries of its range ({what})"));
                                        }
                                    }
                                    MessagePart::RangeFingerprint(f) => {
                                        let mut w = Fingerprint::empty();
                                        for e in sub.iter() {
                                            w ^= e.as_fingerprint();
                                        }
                                        if f.fingerprint != w {
                                            report(format!("recursion: a fingerprint part does not carry the fingerprint of its range ({what})"));
                                        }
                                    }
                                }
                            }
                        }
                    }
                }
            }
        }
        // item parts: the diff sent back
        if n >= 2 {
            let config = cfg(1, 2);
            for have_local in [false, true] {
                for pattern in 0..4u8 {
                    // received values: (same key as local[0], newer | older), (same key as local[1], equal), one unknown key
                    let l0 = &local[0];
                    let l1 = &local[1];
                    let a0 = doc.authors.iter().position(|a| a.id() == l0.author()).unwrap();
                    let newer = doc.entry(a0, l0.key(), 0, 9);
                    let older_age = 900_000;
                    let older = doc.entry(a0, l0.key(), older_age, 9);
                    let unknown = doc.entry(0, b"zz-unknown", 5, 9);
                    let values: Vec<SignedEntry> = match pattern {
                        0 => vec![],
                        1 => vec![older.clone()],
                        2 => vec![l1.clone(), unknown.clone()],
                        _ => vec![unknown.clone(), older.clone(), l1.clone()],
                    };
                    let _ = &newer;
                    let x = local[0].id().clone();
                    let y = RecordIdentifier::new(doc.ns.id(), doc.authors[1].id(), [0xffu8, 0xff, 0xff]);
                    let mut s2 = Store::memory();
                    fill(&mut s2, &doc, &entries);
                    let before = all_of(&mut s2, &doc);
                    let in_r: Vec<&SignedEntry> = before.iter().filter(|e| in_range(&x, &y, e.id())).collect();
                    let want: Vec<&SignedEntry> = in_r.iter().filter(|our| !values.iter().any(|t| t.id() == our.id() && t.value() >= our.value())).cloned().collect();
                    let msg = message(vec![MessagePart::RangeItem(RangeItem { range: Range::new(x.clone(), y.clone()), values: values.iter().map(|e| (e.clone(), ContentStatus::Complete)).collect(), have_local })]);
                    let mut ins = 0;
                    ncalls += 1;
                    let reply = pm(&mut s2, &doc, &config, msg, &mut ins);
                    let what = format!("item part n={n} have_local={have_local} pattern={pattern}");
                    match reply {
                        None => {
                            if !have_local && !want.is_empty() {
                                report(format!("{what}: no reply although {} local entries are missing on the other side", want.len()));
                            }
                        }
                        Some(m) => {
                            let ok = !have_local
                                && m.parts().len() == 1
                                && match &m.parts()[0] {
                                    MessagePart::RangeItem(i) => i.have_local && i.range.x() == &x && i.range.y() == &y && i.values.len() == want.len() && i.values.iter().zip(want.iter()).all(|((e, s), w)| e == *w && *s == status_of(w)),
                                    _ => false,
                                };
                            if !ok || want.is_empty() {
                                report(format!("{what}: the reply is not the item part holding exactly the local entries the sender lacks"));
                            }
                        }
                    }
                }
            }
        }
    }
    eprintln!("c01reply: {ncalls} process_message calls compared with the specification; mismatch: {bad}");
    bad
}

fn hex(id: &RecordIdentifier) -> String {
    let b = id.as_ref();
    format!("{:02x}..{:02x}/{:?}", b[32], b[63], &b[64..])
}

/// whole sessions over the real store, all configurations, both initiators
pub fn c01session() -> bool {
    let doc = Doc::new(70);
    let mut bad = false;
    let mut nsessions = 0usize;
    let mut worst = 0usize;
    let pool: Vec<(usize, &[u8], u64, u8)> = vec![
        (0, KEYS[1], 10, 1), (0, KEYS[3], 20, 1), (1, KEYS[0], 30, 1), (1, KEYS[2], 40, 1), (0, KEYS[6], 50, 1), (1, KEYS[4], 60, 1),
        // the same ids again with other timestamps / contents (newer, and equal timestamp with another hash)
        (0, KEYS[1], 5, 2), (1, KEYS[0], 30, 3), (0, KEYS[4], 70, 1), (1, KEYS[5], 80, 1),
    ];
    let sets: Vec<(Vec<usize>, Vec<usize>)> = vec![
        (vec![], vec![]), (vec![0], vec![]), (vec![], vec![0, 1]), (vec![0, 1], vec![0, 1]), (vec![0, 1, 2], vec![3, 4]), (vec![0, 2, 4], vec![1, 3, 5]),
        (vec![0, 1, 2, 3, 4, 5], vec![]), (vec![0, 1, 2, 3, 4], vec![6, 7]), (vec![0, 1, 2, 3, 4, 5, 8, 9], vec![6, 7, 2]), (vec![1, 2], vec![0, 1, 2, 3, 4, 5, 8, 9]),
        (vec![0, 1], vec![2, 3]), (vec![2, 3], vec![0, 1]), (vec![0, 3], vec![0, 1, 2, 3]),
    ];
    for sf in 2..=4usize {
        for ms in 0..=3usize {
            let config = cfg(ms, sf);
            for (sa, sb) in sets.iter() {
                for initiator_is_a in [true, false] {
                    let ea: Vec<SignedEntry> = sa.iter().map(|i| doc.entry(pool[*i].0, pool[*i].1, pool[*i].2, pool[*i].3)).collect();
                    let eb: Vec<SignedEntry> = sb.iter().map(|i| doc.entry(pool[*i].0, pool[*i].1, pool[*i].2, pool[*i].3)).collect();
                    let mut a = Store::memory();
                    let mut b = Store::memory();
                    let mut j = Store::memory();
                    fill(&mut a, &doc, &ea);
                    fill(&mut b, &doc, &eb);
                    fill(&mut j, &doc, &[ea.clone(), eb.clone()].concat());
                    let want = all_of(&mut j, &doc);
                    let what = format!("split_factor={sf} max_set_size={ms} A={sa:?} B={sb:?} initiator={}", if initiator_is_a { "A" } else { "B" });
                    for round in 0..2 {
                        nsessions += 1;
                        let (first, second) = if initiator_is_a { (&mut a, &mut b) } else { (&mut b, &mut a) };
                        let mut msg = {
                            let mut r = first.open_replica(&doc.ns.id()).unwrap();
                            let m = r.store.initial_message().unwrap();
                            drop(r);
                            first.close_replica(doc.ns.id());
                            Some(m)
                        };
                        let mut nmsg = 1usize;
                        let (mut sent, mut recv, mut inserted) = ([0usize; 2], [0usize; 2], 0usize);
                        let mut turn = 1usize; // index of the side that processes next (0 = first, 1 = second)
                        while let Some(m) = msg.take() {
                            if nmsg > 200 {
                                if !bad {
                                    eprintln!("c01session: no end after 200 messages ({what}, session {round})");
                                }
                                bad = true;
                                break;
                            }
                            recv[turn] += m.value_count();
                            let side: &mut Store = if turn == 0 { &mut *first } else { &mut *second };
                            let reply = pm(side, &doc, &config, m, &mut inserted);
                            if let Some(r) = &reply {
                                sent[turn] += r.value_count();
                                nmsg += 1;
                            }
                            msg = reply;
                            turn = 1 - turn;
                        }
                        worst = worst.max(nmsg);
                        if sent[0] != recv[1] || sent[1] != recv[0] {
                            if !bad {
                                eprintln!("c01session: sent/received counters do not mirror ({what})");
                            }
                            bad = true;
                        }
                        if round == 1 && (inserted != 0 || sent != [0, 0]) {
                            if !bad {
                                eprintln!("c01session: a second session between reconciled replicas transferred {:?} values, inserted {inserted} ({what})", sent);
                            }
                            bad = true;
                        }
                        if round == 0 {
                            let ga = all_of(&mut a, &doc);
                            let gb = all_of(&mut b, &doc);
                            if ga != want || gb != want {
                                if !bad {
                                    eprintln!("c01session: after the session A holds {} entries, B holds {}, the join has {} ({what}; {nmsg} messages)", ga.len(), gb.len(), want.len());
                                }
                                bad = true;
                            }
                        }
                    }
                }
            }
        }
    }
    eprintln!("c01session: {nsessions} sessions; longest: {worst} messages; mismatch: {bad}");
    bad
}

/// C02 (pruning on insert, real store): inserting an entry removes exactly the same author's entries below its key that are
/// not newer, reports their number, and touches nothing else (newer children, neighbouring keys, the other author).
pub fn c02prune() -> bool {
    let doc = Doc::new(80);
    let mut bad = false;
    for order in 0..2 {
        let mut store = Store::memory();
        // age: smaller = newer.  The new entry "a" has age 50.
        let mut pre = vec![
            doc.entry(0, b"a/1", 70, 1),  // older child: removed
            doc.entry(0, b"a/2", 30, 1),  // newer child: stays
            doc.entry(0, b"ab", 90, 1),   // starts with "a", older: removed
            doc.entry(0, b"a\xff", 60, 1), // starts with "a", older: removed
            SignedEntry::from_entry(Entry::new(doc.id(0, b"a/old-deletion/"), Record::empty(doc.now - 1_000_000 - 80)), &doc.ns, &doc.authors[0]), // an older deletion marker below "a": removed like any entry
            doc.entry(0, b"b", 95, 1),    // neighbouring key: stays
            doc.entry(0, b"", 99, 1),     // the empty key is a prefix of "a", older than it: stays (it is not BELOW "a")
            doc.entry(1, b"a/1", 99, 1),  // other author: stays
            doc.entry(1, b"a", 99, 1),    // other author, same key: stays
        ];
        if order == 1 {
            pre.reverse();
        }
        fill(&mut store, &doc, &pre);
        let before = all_of(&mut store, &doc).len();
        let removed = {
            let mut r = store.open_replica(&doc.ns.id()).unwrap();
            let n = block_on(r.insert_remote_entry(doc.entry(0, b"a", 50, 2), [1u8; 32], ContentStatus::Complete));
            drop(r);
            store.close_replica(doc.ns.id());
            n
        };
        let after = all_of(&mut store, &doc);
        let keys: Vec<(usize, Vec<u8>)> = after.iter().map(|e| (doc.authors.iter().position(|a| a.id() == e.author()).unwrap(), e.key().to_vec())).collect();
        let mut want: Vec<(usize, Vec<u8>)> = vec![(0, b"".to_vec()), (0, b"a".to_vec()), (0, b"a/2".to_vec()), (0, b"b".to_vec()), (1, b"a".to_vec()), (1, b"a/1".to_vec())];
        want.sort();
        let mut got = keys.clone();
        got.sort();
        if before != 9 || !matches!(removed, Ok(4)) || got != want {
            eprintln!("c02prune: before {before} entries; insert reported {:?} removed (expected 4); left {:?}, expected {:?}", removed, got, want);
            bad = true;
        }
        // the key-ordered access path (by-key index) must show the same entries as the author-ordered one
        let by_key: Vec<SignedEntry> = store
            .get_many(doc.ns.id(), crate::store::Query::all().include_empty().sort_by(crate::store::SortBy::KeyAuthor, crate::store::SortDirection::Asc))
            .unwrap()
            .collect::<Result<Vec<_>, _>>()
            .unwrap();
        let mut got_k: Vec<(usize, Vec<u8>)> = by_key.iter().map(|e| (doc.authors.iter().position(|a| a.id() == e.author()).unwrap(), e.key().to_vec())).collect();
        got_k.sort();
        if got_k != got {
            eprintln!("c02prune: after pruning the key-ordered query shows {:?}, the author-ordered one {:?}", got_k, got);
            bad = true;
        }
    }
    bad
}

/// C08 / C01 (query c08_get_range, part "any range a peer can send"): a store that holds TWO documents; one of them is asked,
/// through the real `sync_process_message`, about ranges whose end points lie outside its own namespace (below, above, both).
/// The ordered map of ONE document answers with that document's entries only: an entry of the other document in a reply
/// (or counted into a fingerprint reply that then differs from the document's own) means the defect manifests.
pub fn c08foreign() -> bool {
    let (da, db) = (Doc::new(40), Doc::new(50));
    let mut bad = false;
    let lo = RecordIdentifier::new(crate::NamespaceId::from(&[0u8; 32]), crate::AuthorId::from(&[0u8; 32]), b"");
    let hi = RecordIdentifier::new(crate::NamespaceId::from(&[0xffu8; 32]), crate::AuthorId::from(&[0xffu8; 32]), b"\xff");
    for (target, other) in [(&da, &db), (&db, &da)] {
        let mut store = Store::memory();
        fill(&mut store, target, &[target.entry(0, b"mine", 10, 1)]);
        store.close_replica(target.ns.id());
        fill(&mut store, other, &[other.entry(0, b"private-1", 10, 1), other.entry(1, b"private-2", 20, 2)]);
        store.close_replica(other.ns.id());
        let inside = target.id(0, b"mine");
        // (x, y): spanning everything; from below the document to inside it; from inside it to above; wrap-around with y above / x below
        let ranges = vec![(lo.clone(), hi.clone()), (lo.clone(), inside.clone()), (inside.clone(), hi.clone()), (hi.clone(), lo.clone()), (inside.clone(), lo.clone()), (hi.clone(), inside.clone()),
                          (other.id(0, b""), other.id(1, b"zzzz")), (other.id(1, b"zzzz"), other.id(0, b""))];
        for (x, y) in ranges {
            let mut replica = store.open_replica(&target.ns.id()).unwrap();
            let msg = message(vec![MessagePart::RangeFingerprint(RangeFingerprint { range: Range::new(x.clone(), y.clone()), fingerprint: Fingerprint([7u8; 32]) })]);
            let mut outcome = crate::sync::SyncOutcome::default();
            let reply = block_on(replica.sync_process_message(msg, [9u8; 32], &mut outcome));
            drop(replica);
            store.close_replica(target.ns.id());
            let Ok(reply) = reply else { continue };
            let Some(reply) = reply else { continue };
            let parts: Vec<MessagePart<SignedEntry>> = unsafe { std::mem::transmute::<Message<SignedEntry>, Vec<MessagePart<SignedEntry>>>(reply) };
            for p in &parts {
                if let MessagePart::RangeItem(item) = p {
                    for (e, _) in &item.values {
                        if e.id().namespace() != target.ns.id() {
                            if !bad {
                                eprintln!("c08foreign: asked about range ({:?} .. {:?}) of document {}, the reply carries an entry of document {}: key {:?}",
                                    &x.as_ref()[..4], &y.as_ref()[..4], target.ns.id().fmt_short(), e.id().namespace().fmt_short(), String::from_utf8_lossy(e.key()));
                            }
                            bad = true;
                        }
                    }
                }
            }
        }
    }
    bad
}

/// C02 (local write paths): a deletion issued before anything matches still leaves its marker, which rejects an older entry
/// that arrives later (order independence); insert refuses what would be a malformed deletion marker.
pub fn c02local() -> bool {
    let doc = Doc::new(90);
    let mut bad = false;
    let mut store = Store::memory();
    let mut r = store.new_replica(doc.ns.clone()).unwrap();
    let del = block_on(r.delete_prefix(b"docs/", &doc.authors[0]));
    let older = doc.entry(0, b"docs/a", 500, 1); // older than the deletion
    let late = block_on(r.insert_remote_entry(older, [1u8; 32], ContentStatus::Complete));
    let empty_len = block_on(r.insert(b"k", &doc.authors[0], Hash::new(b"x"), 0));
    let empty_hash = block_on(r.insert(b"k", &doc.authors[0], Hash::EMPTY, 3));
    let good = block_on(r.insert(b"k", &doc.authors[0], Hash::new(b"x"), 1));
    drop(r);
    let held = all_of(&mut store, &doc);
    let keys: Vec<Vec<u8>> = held.iter().map(|e| e.key().to_vec()).collect();
    if !matches!(del, Ok(0)) || late.is_ok() || empty_len.is_ok() || empty_hash.is_ok() || good.is_err() || keys != vec![b"docs/".to_vec(), b"k".to_vec()] {
        eprintln!("c02local: delete on nothing {:?}; older entry afterwards accepted: {}; empty inserts accepted: {} {}; plain insert ok: {}; held keys {:?}", del.is_ok(), late.is_ok(), empty_len.is_ok(), empty_hash.is_ok(), good.is_ok(), keys);
        bad = true;
    }
    bad
}
