//! "L": the light instantiation of the generic reconciliation code in `ranger.rs`.
//!
//! Entry type `LE { key: <= 2 bytes over {0,1} (7 keys, by rank), value: u8 }`, store = one slot per key implementing
//! `ranger::Store<LE>` with the plain ordered-map definitions of the primitives.  Kani verifies one
//! monomorphisation at a time: harnesses over L exercise the *generic* code of `ranger.rs`
//! (`put`, `process_message`, `Message::init`), not `SignedEntry`-specific behaviour.
use std::cmp::Ordering;

use crate::ranger::{Fingerprint, InsertOutcome, Range, RangeEntry, RangeKey, RangeValue, Store};
use crate::verif_incrate::src::{ck, cv, Src};

pub const NKEYS: usize = 7;

/// Key: a byte string of length <= 2 over the alphabet {0, 1}, represented by its rank in
/// lexicographic order: 0 "", 1 "0", 2 "00", 3 "01", 4 "1", 5 "10", 6 "11".  The derived integer
/// order IS the lexicographic order of the strings, so no comparison loops are needed.
#[derive(Clone, Copy, Debug, PartialEq, Eq, PartialOrd, Ord, Default)]
pub struct LK {
    pub code: u8,
}

/// PREFIX[a][b]: key a is a (proper or improper) prefix of key b
const PREFIX: [[bool; NKEYS]; NKEYS] = [
    [true, true, true, true, true, true, true],       // ""
    [false, true, true, true, false, false, false],   // "0"
    [false, false, true, false, false, false, false], // "00"
    [false, false, false, true, false, false, false], // "01"
    [false, false, false, false, true, true, true],   // "1"
    [false, false, false, false, false, true, false], // "10"
    [false, false, false, false, false, false, true], // "11"
];

impl LK {
    pub fn is_prefix_of(&self, other: &LK) -> bool {
        PREFIX[self.code as usize][other.code as usize]
    }
    pub fn any<S: Src>(s: &mut S) -> LK {
        let code = s.u8();
        s.assume((code as usize) < NKEYS);
        LK { code }
    }
}
impl RangeKey for LK {
    #[cfg(test)]
    fn is_prefix_of(&self, other: &Self) -> bool {
        LK::is_prefix_of(self, other)
    }
}
impl RangeValue for u8 {}

#[derive(Clone, Copy, Debug, PartialEq, Eq)]
pub struct LE {
    pub key: LK,
    pub value: u8,
}
impl LE {
    pub fn any<S: Src>(s: &mut S) -> LE {
        LE { key: LK::any(s), value: s.u8() }
    }
}
impl RangeEntry for LE {
    type Key = LK;
    type Value = u8;
    fn key(&self) -> &LK {
        &self.key
    }
    fn value(&self) -> &u8 {
        &self.value
    }
    /// Ideal hash on the finite L domain: one bit per (key, value mod 4) so that the XOR of
    /// fingerprints is the characteristic vector of the set (no collisions inside the bound;
    /// harnesses that use fingerprints restrict values to 0..3).
    fn as_fingerprint(&self) -> Fingerprint {
        let mut f = [0u8; 32];
        let bit = (self.key.code as usize) * 4 + (self.value & 3) as usize; // < 28
        f[bit / 8] = 1 << (bit % 8);
        Fingerprint(f)
    }
}

/// The reference ordered map: one optional value per key, indexed by key rank (so iteration in
/// index order is iteration in key order).  `N` only bounds how many entries `any` creates.
#[derive(Clone, Copy, Debug)]
pub struct LStore<const N: usize> {
    pub vals: [Option<u8>; NKEYS],
}

pub struct LIter {
    items: [Option<LE>; NKEYS],
    i: usize,
}
impl Iterator for LIter {
    type Item = Result<LE, std::convert::Infallible>;
    fn next(&mut self) -> Option<Self::Item> {
        while self.i < NKEYS {
            let it = self.items[self.i];
            self.i += 1;
            if let Some(e) = it {
                return Some(Ok(e));
            }
        }
        None
    }
}

impl<const N: usize> LStore<N> {
    pub fn empty() -> Self {
        LStore { vals: [None; NKEYS] }
    }
    /// Arbitrary store with at most `max` entries.
    pub fn any<S: Src>(s: &mut S, max: usize) -> Self {
        let mut st = Self::empty();
        let mut i = 0;
        while i < NKEYS {
            if s.bool() {
                st.vals[i] = Some(s.u8());
            }
            i += 1;
        }
        s.assume(st.count() <= max);
        st
    }
    pub fn get(&self, k: &LK) -> Option<LE> {
        self.vals[k.code as usize].map(|v| LE { key: *k, value: v })
    }
    pub fn keys_unique(&self) -> bool {
        true
    }
    /// The invariant `put` maintains: no entry has a (proper or improper) prefix entry that is
    /// not older.
    pub fn pruned(&self) -> bool {
        let mut i = 0;
        while i < NKEYS {
            let mut j = 0;
            while j < NKEYS {
                if i != j && PREFIX[i][j] {
                    if let (Some(a), Some(b)) = (self.vals[i], self.vals[j]) {
                        if a >= b {
                            return false;
                        }
                    }
                }
                j += 1;
            }
            i += 1;
        }
        true
    }
    pub fn contains(&self, e: &LE) -> bool {
        self.vals[e.key.code as usize] == Some(e.value)
    }
    pub fn count(&self) -> usize {
        let mut n = 0;
        let mut i = 0;
        while i < NKEYS {
            if self.vals[i].is_some() {
                n += 1;
            }
            i += 1;
        }
        n
    }
    pub fn same_set(&self, o: &Self) -> bool {
        self.vals == o.vals
    }
    fn items(&self, keep: impl Fn(&LK) -> bool) -> [Option<LE>; NKEYS] {
        let mut items = [None; NKEYS];
        let mut i = 0;
        while i < NKEYS {
            let k = LK { code: i as u8 };
            if let Some(v) = self.vals[i] {
                if keep(&k) {
                    items[i] = Some(LE { key: k, value: v });
                }
            }
            i += 1;
        }
        items
    }
}

fn in_range(r: &Range<LK>, k: &LK) -> bool {
    match r.x().cmp(r.y()) {
        Ordering::Equal => true,
        Ordering::Less => r.x() <= k && k < r.y(),
        Ordering::Greater => r.x() <= k || k < r.y(),
    }
}

impl<const N: usize> Store<LE> for LStore<N> {
    type Error = std::convert::Infallible;
    type RangeIterator<'a> = std::iter::Chain<LIter, LIter>;
    type ParentIterator<'a> = LIter;

    fn get_first(&mut self) -> Result<LK, Self::Error> {
        let mut i = 0;
        while i < NKEYS {
            if self.vals[i].is_some() {
                return Ok(LK { code: i as u8 });
            }
            i += 1;
        }
        Ok(LK::default())
    }
    #[cfg(test)]
    fn get(&mut self, key: &LK) -> Result<Option<LE>, Self::Error> {
        Ok(LStore::get(self, key))
    }
    #[cfg(test)]
    fn len(&mut self) -> Result<usize, Self::Error> {
        Ok(self.count())
    }
    #[cfg(test)]
    fn is_empty(&mut self) -> Result<bool, Self::Error> {
        Ok(self.count() == 0)
    }
    fn get_fingerprint(&mut self, range: &Range<LK>) -> Result<Fingerprint, Self::Error> {
        let mut fp = Fingerprint::empty();
        let mut i = 0;
        while i < NKEYS {
            let k = LK { code: i as u8 };
            if let Some(v) = self.vals[i] {
                if in_range(range, &k) {
                    fp ^= LE { key: k, value: v }.as_fingerprint();
                }
            }
            i += 1;
        }
        Ok(fp)
    }
    fn entry_put(&mut self, entry: LE) -> Result<(), Self::Error> {
        self.vals[entry.key.code as usize] = Some(entry.value);
        Ok(())
    }
    /// key order; for a wrap-around range: `[start, y)` first, then `[x, end]` (as the redb store)
    fn get_range(&mut self, range: Range<LK>) -> Result<Self::RangeIterator<'_>, Self::Error> {
        let wrap = range.x() > range.y();
        let first = self.items(|k| if wrap { k < range.y() } else { in_range(&range, k) });
        let second = self.items(|k| wrap && k >= range.x());
        Ok(LIter { items: first, i: 0 }.chain(LIter { items: second, i: 0 }))
    }
    #[cfg(test)]
    fn prefixed_by(&mut self, prefix: &LK) -> Result<Self::RangeIterator<'_>, Self::Error> {
        let first = self.items(|k| prefix.is_prefix_of(k));
        Ok(LIter { items: first, i: 0 }.chain(LIter { items: [None; NKEYS], i: 0 }))
    }
    /// entries whose key is a prefix of `key` (including `key` itself), shortest first
    fn prefixes_of(&mut self, key: &LK) -> Result<LIter, Self::Error> {
        Ok(LIter { items: self.items(|k| k.is_prefix_of(key)), i: 0 })
    }
    #[cfg(test)]
    fn all(&mut self) -> Result<Self::RangeIterator<'_>, Self::Error> {
        Ok(LIter { items: self.items(|_| true), i: 0 }.chain(LIter { items: [None; NKEYS], i: 0 }))
    }
    #[cfg(test)]
    fn entry_remove(&mut self, key: &LK) -> Result<Option<LE>, Self::Error> {
        let e = LStore::get(self, key);
        self.vals[key.code as usize] = None;
        Ok(e)
    }
    fn remove_prefix_filtered(&mut self, prefix: &LK, predicate: impl Fn(&u8) -> bool) -> Result<usize, Self::Error> {
        let mut n = 0;
        let mut i = 0;
        while i < NKEYS {
            if let Some(v) = self.vals[i] {
                if PREFIX[prefix.code as usize][i] && predicate(&v) {
                    self.vals[i] = None;
                    n += 1;
                }
            }
            i += 1;
        }
        Ok(n)
    }
}

// ---------------------------------------------------------------------------------------------
// Oracle: the join ("newest wins + prefix deletion"), written independently of ranger.rs
// ---------------------------------------------------------------------------------------------

/// Is `e` admitted into `st`?  Exactly when no entry at `e.key` or at a prefix of it is >= e.
pub fn oracle_admits<const N: usize>(st: &LStore<N>, e: &LE) -> bool {
    let mut i = 0;
    while i < NKEYS {
        if let Some(v) = st.vals[i] {
            if PREFIX[i][e.key.code as usize] && v >= e.value {
                return false;
            }
        }
        i += 1;
    }
    true
}

/// Does `x` (in the store) survive the admitted insertion of `e`?
pub fn oracle_survives(x: &LE, e: &LE) -> bool {
    !(e.key.is_prefix_of(&x.key) && x.value <= e.value)
}

/// C02 one-step law for the real generic `Store::put`, from an ARBITRARY store state.
pub fn put_step<S: Src, const N: usize>(s: &mut S) {
    let pre: LStore<N> = LStore::any(s, N - 1);
    let e = LE::any(s);
    let mut st = pre;
    let outcome = st.put(e).unwrap();
    let admitted = oracle_admits(&pre, &e);
    cv!(s, admitted && pre.count() >= 1, "put_step: entry admitted into a non-empty store");
    cv!(s, !admitted, "put_step: entry rejected");
    match outcome {
        // any outcome that is not `Inserted` means "not stored" (a new variant must not break the harness build)
        o if !matches!(o, InsertOutcome::Inserted { .. }) => {
            ck!(s, !admitted, "put rejects an entry only if an entry at its key or at a prefix of it is not older");
            ck!(s, st.same_set(&pre) && st.count() == pre.count(), "a rejected entry changes nothing");
        }
        InsertOutcome::Inserted { removed } => {
            ck!(s, admitted, "put admits an entry only if no entry at its key or at a prefix of it is newer or equal");
            ck!(s, st.contains(&e), "an admitted entry is stored");
            // survivors: exactly the pre-entries that do not start with e.key or are newer
            let mut ok_surv = true;
            let mut want_removed = 0usize;
            let mut i = 0;
            while i < NKEYS {
                if let Some(x) = pre.get(&LK { code: i as u8 }) {
                    if oracle_survives(&x, &e) {
                        ok_surv &= st.contains(&x);
                    } else {
                        want_removed += 1;
                        ok_surv &= !st.contains(&x) || x == e;
                    }
                }
                i += 1;
            }
            cv!(s, want_removed >= 1, "put_step: something pruned");
            ck!(s, ok_surv, "put removes exactly the entries whose key starts with the new key and that are not newer");
            ck!(s, removed == want_removed, "put reports the number of entries it removed");
            ck!(s, st.count() == pre.count() - want_removed + 1, "put adds nothing but the new entry");
        }
        #[allow(unreachable_patterns)]
        _ => {}
    }
    if pre.pruned() {
        ck!(s, st.pruned() && st.keys_unique(), "put preserves the pruned-set invariant");
    }
}

/// C02 order independence: from a pruned state, two puts commute and a repeated put is idempotent.
pub fn put_commute<S: Src, const N: usize>(s: &mut S) {
    let pre: LStore<N> = LStore::any(s, N - 2);
    s.assume(pre.pruned());
    let e1 = LE::any(s);
    let e2 = LE::any(s);
    let mut a = pre;
    let _ = a.put(e1).unwrap();
    let _ = a.put(e2).unwrap();
    let mut b = pre;
    let _ = b.put(e2).unwrap();
    let _ = b.put(e1).unwrap();
    cv!(s, e1.key.is_prefix_of(&e2.key) && e1.key != e2.key, "put_commute: e1 at a proper prefix of e2");
    cv!(s, e1.key == e2.key && e1.value != e2.value, "put_commute: same key, different values");
    ck!(s, a.same_set(&b), "two puts commute (final set independent of the order)");
    let mut c = a;
    let _ = c.put(e1).unwrap();
    let _ = c.put(e2).unwrap();
    ck!(s, c.same_set(&a), "repeating puts changes nothing (idempotence)");
}

// ---------------------------------------------------------------------------------------------
// process_message over L (C01 lemmas L1, L2, L4, L5; C03 gating; C12 on_insert contract)
// ---------------------------------------------------------------------------------------------
use crate::ranger::{Message, MessagePart, RangeFingerprint, RangeItem, SyncConfig};
use crate::ContentStatus;
use std::future::Future;
use std::pin::pin;
use std::task::{Context, Poll, Waker};

/// Poll once with a no-op waker: every future in these harnesses is ready immediately (the
/// callbacks are `std::future::ready`); a `Pending` would be a bug of the harness.
pub fn poll_once<F: Future>(f: F) -> Option<F::Output> {
    let mut f = pin!(f);
    let mut cx = Context::from_waker(Waker::noop());
    match f.as_mut().poll(&mut cx) {
        Poll::Ready(v) => Some(v),
        Poll::Pending => None,
    }
}

fn cfg(max_set_size: usize, split_factor: usize) -> SyncConfig {
    // private fields of a crate-private struct: same crate, so constructible here
    unsafe { std::mem::transmute::<(usize, usize), SyncConfig>((max_set_size, split_factor)) }
}

pub struct Log<const M: usize> {
    pub n: usize,
    pub items: [Option<LE>; M],
}

/// run `process_message` with: validate = accept unless the entry equals `reject`; on_insert logs
fn run_pm<const N: usize, const M: usize>(
    st: &mut LStore<N>,
    config: &SyncConfig,
    msg: Message<LE>,
    reject: Option<LE>,
) -> (Option<Option<Message<LE>>>, Log<M>) {
    let log = std::cell::RefCell::new(Log::<M> { n: 0, items: [None; M] });
    let res = poll_once(st.process_message(
        config,
        msg,
        |_st: &LStore<N>, e: &LE, _cs: ContentStatus| Some(*e) != reject,
        |_st: &LStore<N>, e: LE, _cs: ContentStatus| {
            let mut l = log.borrow_mut();
            if l.n < M {
                let n = l.n;
                l.items[n] = Some(e);
            }
            l.n += 1;
            std::future::ready(())
        },
        |_e: &LE| std::future::ready(ContentStatus::Complete),
    ));
    let res = res.map(|r| r.unwrap());
    (res, log.into_inner())
}

/// L1 item step: arbitrary store, one `RangeItem` part with V values (arbitrary range,
/// `have_local` symbolic).  Afterwards the store is the join of store and values (in message
/// order); `on_insert` fired exactly for the admitted entries, in order; an entry rejected by the
/// validate callback is never stored nor announced and the rest is processed as if it were
/// absent; the reply, if requested, is exactly the local entries in the range not dominated by a
/// received entry with the same key.
pub fn pm_item_step<S: Src, const N: usize, const V: usize, const HL: u8>(s: &mut S) {
    let pre: LStore<N> = LStore::any(s, N - V);
    let range = Range::new(LK::any(s), LK::any(s));
    // HL: 1 = the peer says it has our entries (no reply is computed: the cheap instance, which still
    // covers storing/announcing/gating), 0 = a reply is requested, 2 = symbolic
    let have_local = match HL {
        0 => false,
        1 => true,
        _ => s.bool(),
    };
    let mut vals: [LE; V] = [LE { key: LK::default(), value: 0 }; V];
    s.assume(V == 0 || true);
    let mut i = 0;
    while i < V {
        vals[i] = LE::any(s);
        i += 1;
    }
    let reject = if s.bool() { Some(vals[0]) } else { None };
    let values: Vec<(LE, ContentStatus)> = vals.iter().map(|e| (*e, ContentStatus::Missing)).collect();
    let msg: Message<LE> = mk_message(vec![MessagePart::RangeItem(RangeItem { range: range.clone(), values, have_local })]);
    let config = cfg(1, 2);
    let mut st = pre;
    // the reply is computed from the store BEFORE the incoming values are applied
    let (res, log) = run_pm::<N, 4>(&mut st, &config, msg, reject);
    let Some(reply) = res else {
        ck!(s, false, "process_message completes without waiting (all callbacks are ready)");
        return;
    };
    // oracle: apply the accepted values in order with the join
    let mut want = pre;
    let mut want_log = Log::<4> { n: 0, items: [None; 4] };
    let mut i = 0;
    while i < V {
        let e = vals[i];
        if Some(e) != reject && oracle_admits(&want, &e) {
            let mut j = 0;
            while j < NKEYS {
                if let Some(x) = want.get(&LK { code: j as u8 }) {
                    if !oracle_survives(&x, &e) {
                        want.vals[j] = None;
                    }
                }
                j += 1;
            }
            let _ = want.entry_put(e);
            let n = want_log.n;
            want_log.items[n] = Some(e);
            want_log.n += 1;
        }
        i += 1;
    }
    cv!(s, want_log.n == V && V > 0, "pm_item_step: every value admitted");
    cv!(s, reject.is_some(), "pm_item_step: a value rejected by validation");
    ck!(s, st.same_set(&want), "after an item part the store is the join of the store and the accepted values");
    ck!(s, log.n == want_log.n && log.items == want_log.items, "on_insert fires exactly once per admitted entry, in order");
    // reply
    let mut n_expected = 0;
    let mut ok = true;
    let mut j = 0;
    while j < NKEYS {
        if let Some(x) = pre.get(&LK { code: j as u8 }) {
            let dominated = vals.iter().any(|t| t.key == x.key && t.value >= x.value);
            if in_range(&range, &x.key) && !dominated {
                n_expected += 1;
                ok &= match &reply {
                    Some(m) => m.values().any(|(e, _)| *e == x),
                    None => false,
                };
            }
        }
        j += 1;
    }
    cv!(s, HL == 1 || (!have_local && n_expected > 0), "pm_item_step: a reply with local entries");
    if have_local || n_expected == 0 {
        ck!(s, reply.is_none(), "no reply when the peer already has our entries or there is nothing to send");
    } else {
        ck!(s, ok, "the reply contains every local entry of the range that is not dominated by a received one");
        let m = reply.as_ref().unwrap();
        ck!(s, m.value_count() == n_expected && m.parts().len() == 1, "the reply contains nothing else");
        if let MessagePart::RangeItem(it) = &m.parts()[0] {
            ck!(s, it.have_local && it.range == range, "the reply is an item part for the same range marked have_local");
        } else {
            ck!(s, false, "the reply to an item part is an item part");
        }
    }
    std::mem::forget(reply);
}

fn mk_message(parts: Vec<MessagePart<LE>>) -> Message<LE> {
    // Message { parts } has a private field; same-crate transmute of the single-field struct
    unsafe { std::mem::transmute::<Vec<MessagePart<LE>>, Message<LE>>(parts) }
}

/// L4 initial message + L5 silence: the initial message is one fingerprint part over the full
/// range carrying the fingerprint of the whole store; a store with the same entries answers it
/// with nothing.
pub fn pm_init_and_silence<S: Src, const N: usize>(s: &mut S) {
    let mut a: LStore<N> = LStore::any(s, N);
    s.assume(a.vals.iter().all(|v| v.map(|x| x < 4).unwrap_or(true))); // ideal fingerprint domain
    let m = a.initial_message().unwrap();
    ck!(s, m.parts().len() == 1, "the initial message has exactly one part");
    let MessagePart::RangeFingerprint(fp) = &m.parts()[0] else {
        ck!(s, false, "the initial message is a fingerprint part");
        return;
    };
    ck!(s, fp.range.is_all(), "the initial message covers the full range");
    let mut all = Fingerprint::empty();
    let mut i = 0;
    while i < NKEYS {
        if let Some(e) = a.get(&LK { code: i as u8 }) {
            all ^= e.as_fingerprint();
        }
        i += 1;
    }
    ck!(s, fp.fingerprint == all, "the initial fingerprint is that of the whole store");
    // a store holding the same set stays silent (the store is indexed by key, so "the same set" is
    // the same array; using a copy keeps the two fingerprints syntactically equal for the solver)
    let mut b: LStore<N> = a;
    let config = cfg(1, 2);
    let (res, log) = run_pm::<N, 2>(&mut b, &config, m, None);
    cv!(s, a.count() >= 2, "pm_init_and_silence: at least two entries");
    ck!(s, matches!(res, Some(None)), "an immediately following session between equal replicas sends nothing back");
    ck!(s, log.n == 0 && b.same_set(&a), "and transfers no entries");
}
