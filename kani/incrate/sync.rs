//! harness bodies: sync
