//! harness bodies: sync.rs (child module of `sync`)
use std::cmp::Ordering;

use bytes::Bytes;
use iroh_blobs::Hash;

use super::*;
use crate::verif_incrate::{
    crypto,
    src::{ck, cv, Src},
};

/// A store for `validate_entry`'s type parameter: no entries, keys parsed by (stubbed) iroh.
pub struct NoStore;
impl crate::store::PublicKeyStore for NoStore {
    fn public_key(&self, id: &[u8; 32]) -> Result<iroh::PublicKey, iroh::KeyParsingError> {
        iroh::PublicKey::from_bytes(id)
    }
}
impl ranger::Store<SignedEntry> for NoStore {
    type Error = anyhow::Error;
    type RangeIterator<'a> = std::vec::IntoIter<anyhow::Result<SignedEntry>>;
    type ParentIterator<'a> = std::vec::IntoIter<anyhow::Result<SignedEntry>>;
    fn get_first(&mut self) -> anyhow::Result<RecordIdentifier> {
        unreachable!()
    }
    #[cfg(test)]
    fn get(&mut self, _key: &RecordIdentifier) -> anyhow::Result<Option<SignedEntry>> {
        unreachable!()
    }
    #[cfg(test)]
    fn len(&mut self) -> anyhow::Result<usize> {
        unreachable!()
    }
    #[cfg(test)]
    fn is_empty(&mut self) -> anyhow::Result<bool> {
        unreachable!()
    }
    fn get_fingerprint(&mut self, _range: &ranger::Range<RecordIdentifier>) -> anyhow::Result<Fingerprint> {
        unreachable!()
    }
    fn entry_put(&mut self, _entry: SignedEntry) -> anyhow::Result<()> {
        unreachable!()
    }
    fn get_range(&mut self, _range: ranger::Range<RecordIdentifier>) -> anyhow::Result<Self::RangeIterator<'_>> {
        unreachable!()
    }
    #[cfg(test)]
    fn prefixed_by(&mut self, _prefix: &RecordIdentifier) -> anyhow::Result<Self::RangeIterator<'_>> {
        unreachable!()
    }
    fn prefixes_of(&mut self, _key: &RecordIdentifier) -> anyhow::Result<Self::ParentIterator<'_>> {
        unreachable!()
    }
    #[cfg(test)]
    fn all(&mut self) -> anyhow::Result<Self::RangeIterator<'_>> {
        unreachable!()
    }
    #[cfg(test)]
    fn entry_remove(&mut self, _key: &RecordIdentifier) -> anyhow::Result<Option<SignedEntry>> {
        unreachable!()
    }
    fn remove_prefix_filtered(&mut self, _prefix: &RecordIdentifier, _predicate: impl Fn(&Record) -> bool) -> anyhow::Result<usize> {
        unreachable!()
    }
}

/// Raw, possibly malformed entry fields (what a peer can put on the wire).
#[derive(Clone, Copy)]
pub struct RawEntry<const K: usize> {
    pub ns: [u8; 32],
    pub author: [u8; 32],
    pub key: [u8; K],
    pub len: u64,
    pub hash: [u8; 32],
    pub ts: u64,
}

impl<const K: usize> RawEntry<K> {
    pub fn any<S: Src>(s: &mut S) -> Self {
        RawEntry { ns: s.arr(), author: s.arr(), key: s.arr(), len: s.u64(), hash: s.arr(), ts: s.u64() }
    }
    /// build the real `Entry` (private fields: bypasses `Record::new`'s debug assertion, as serde does)
    pub fn entry(&self) -> Entry {
        Entry {
            id: RecordIdentifier::new(NamespaceId::from(&self.ns), AuthorId::from(&self.author), self.key),
            record: Record { len: self.len, hash: Hash::from_bytes(self.hash), timestamp: self.ts },
        }
    }
    /// the canonical signing bytes, written independently of `Entry::encode`
    pub fn spec_bytes(&self) -> Vec<u8> {
        let mut v = Vec::with_capacity(64 + K + 48);
        v.extend_from_slice(&self.ns);
        v.extend_from_slice(&self.author);
        v.extend_from_slice(&self.key);
        v.extend_from_slice(&self.len.to_be_bytes());
        v.extend_from_slice(&self.hash);
        v.extend_from_slice(&self.ts.to_be_bytes());
        v
    }
}

/// C03/C09: `Entry::encode` = ns ‖ author ‖ key ‖ len_be ‖ hash ‖ timestamp_be, and the accessors
/// slice the identifier at 32/64.
pub fn entry_encode_layout<S: Src, const K: usize>(s: &mut S) {
    let raw = RawEntry::<K>::any(s);
    let e = raw.entry();
    let got = e.to_vec();
    let want = raw.spec_bytes();
    ck!(s, got == want, "Entry::encode is namespace|author|key|len_be|hash|timestamp_be");
    ck!(s, e.namespace().to_bytes() == raw.ns && e.author().to_bytes() == raw.author && e.key() == &raw.key[..],
        "RecordIdentifier accessors slice namespace/author/key at 32/64");
    ck!(s, e.content_len() == raw.len && *e.content_hash().as_bytes() == raw.hash && e.timestamp() == raw.ts,
        "Entry accessors return the record fields");
    let (a, b, c) = e.id().as_byte_tuple();
    ck!(s, *a == raw.ns && *b == raw.author && c == &raw.key[..], "as_byte_tuple slices at 32/64");
}

/// C03: `validate_empty` truth table.
pub fn validate_empty_table<S: Src>(s: &mut S) {
    let raw = RawEntry::<1>::any(s);
    let e = raw.entry();
    let hash_empty = raw.hash == *Hash::EMPTY.as_bytes();
    let len_zero = raw.len == 0;
    let ok = e.validate_empty().is_ok();
    cv!(s, hash_empty && !len_zero, "validate_empty: empty hash with non-zero length");
    cv!(s, !hash_empty && len_zero, "validate_empty: zero length with non-empty hash");
    cv!(s, hash_empty && len_zero, "validate_empty: proper deletion marker");
    ck!(s, ok == (hash_empty == len_zero), "validate_empty accepts exactly proper deletion markers and proper non-empty records");
}

/// C03: `validate_entry` accepts exactly the entries that are in-namespace, not too far in the
/// future and (if remote) carry both honest signatures over exactly their content.
///
/// KH/KE: key lengths of the honestly signed entry H and of the received entry E.  E is arbitrary
/// (every field and both signatures independent of H): all byte-level tamperings, swapped
/// signatures, foreign keys.
pub fn validate_entry_accepts<S: Src, const KH: usize, const KE: usize>(s: &mut S) {
    crypto::reset();
    // the honest entry and its two honest signatures
    let h = RawEntry::<KH>::any(s);
    let sig_n: [u8; 64] = s.arr();
    let sig_a: [u8; 64] = s.arr();
    let hmsg = h.spec_bytes();
    crypto::set_row(0, h.ns, &hmsg, sig_n);
    crypto::set_row(1, h.author, &hmsg, sig_a);
    // optionally: an id that is not a curve point
    let bad_id: [u8; 32] = s.arr();
    if s.bool() {
        crypto::cm().noncurve[0] = Some(bad_id);
    }
    // what arrives
    let e = RawEntry::<KE>::any(s);
    let e_sig_n: [u8; 64] = s.arr();
    let e_sig_a: [u8; 64] = s.arr();
    let signed = SignedEntry::new(EntrySignature::from_parts(&e_sig_n, &e_sig_a), e.entry());
    let expected_ns: [u8; 32] = s.arr();
    let now = s.u64();
    s.assume(now < (1u64 << 62)); // so that now + MAX_TIMESTAMP_FUTURE_SHIFT cannot wrap (stated bound)
    let remote = s.bool();
    let origin = if remote {
        InsertOrigin::Sync { from: [7u8; 32], remote_content_status: ContentStatus::Missing }
    } else {
        InsertOrigin::Local
    };

    let res = validate_entry(now, &NoStore, NamespaceId::from(&expected_ns), &signed, &origin);

    let ns_ok = e.ns == expected_ns;
    let ts_ok = e.ts <= now + 600_000_000;
    let noncurve = crypto::cm().noncurve[0];
    let keys_ok = noncurve != Some(e.ns) && noncurve != Some(e.author);
    let emsg = e.spec_bytes();
    let same_content = KH == KE && emsg == hmsg;
    let sigs_ok = same_content && e.ns == h.ns && e.author == h.author && e_sig_n == sig_n && e_sig_a == sig_a;
    // a signature pair can also be "honest" if the peer presents H's signatures swapped onto matching keys
    // (ns == author, both rows identical message): covered by the table semantics below.
    let tbl = crypto::cm().table;
    let row_ok = |pk: &[u8; 32], sig: &[u8; 64]| {
        let mut ok = false;
        let mut i = 0;
        while i < 2 {
            let r = &tbl[i];
            if r.on && r.pk == *pk && r.sig == *sig && r.msg_len == emsg.len() && r.msg[..r.msg_len] == emsg[..] {
                ok = true;
            }
            i += 1;
        }
        ok
    };
    let sig_spec = row_ok(&e.ns, &e_sig_n) && row_ok(&e.author, &e_sig_a);
    let want_ok = ns_ok && ts_ok && (!remote || (keys_ok && sig_spec));

    cv!(s, KH != KE || (res.is_ok() && remote), "validate_entry: a remote entry is accepted");
    cv!(s, res.is_err() && remote && ns_ok && ts_ok && keys_ok, "validate_entry: rejected only because of signatures");
    cv!(s, remote && ns_ok && !ts_ok, "validate_entry: too far in the future");
    cv!(s, KH != KE || (sigs_ok && remote), "validate_entry: the honest entry itself arrives");
    ck!(s, res.is_ok() == want_ok,
        "validate_entry accepts exactly in-namespace, not-too-future entries whose namespace and author signatures verify over exactly their content");
    if let Err(err) = &res {
        let kind_ok = match err {
            ValidationFailure::InvalidNamespace => !ns_ok,
            ValidationFailure::BadSignature => ns_ok && remote && !(keys_ok && sig_spec),
            ValidationFailure::TooFarInTheFuture => ns_ok && !ts_ok,
            ValidationFailure::InvalidEmptyEntry => false,
        };
        ck!(s, kind_ok, "validate_entry reports the documented failure reason");
    }
    if res.is_ok() && remote {
        // glue: both ids were parsed as keys and both signatures were checked against the right key,
        // the entry's own canonical bytes and the right signature
        let m = crypto::cm();
        let mut parsed_ns = false;
        let mut parsed_author = false;
        let mut i = 0;
        while i < 4 {
            if let Some((b, ok)) = m.parsed[i] {
                parsed_ns |= b == e.ns && ok;
                parsed_author |= b == e.author && ok;
            }
            i += 1;
        }
        ck!(s, parsed_ns && parsed_author, "acceptance implies both ids were parsed as public keys");
        ck!(s, m.n_verified == 2 && matches!(m.verified[0], Some((_, true))) && matches!(m.verified[1], Some((_, true))),
            "acceptance implies exactly two signature verifications, both successful");
    }
    std::mem::forget(res);
    std::mem::forget(signed);
}

/// C01-S1: `Ord for Record` is the lexicographic order on (timestamp, hash) and total.
pub fn record_order<S: Src>(s: &mut S) {
    let (t1, t2, t3) = (s.u64(), s.u64(), s.u64());
    let (h1, h2, h3): ([u8; 32], [u8; 32], [u8; 32]) = (s.arr(), s.arr(), s.arr());
    let (l1, l2) = (s.u64(), s.u64());
    let r1 = Record { len: l1, hash: Hash::from_bytes(h1), timestamp: t1 };
    let r2 = Record { len: l2, hash: Hash::from_bytes(h2), timestamp: t2 };
    let r3 = Record { len: l1, hash: Hash::from_bytes(h3), timestamp: t3 };
    let spec = t1.cmp(&t2).then_with(|| h1.cmp(&h2));
    cv!(s, t1 == t2 && h1 != h2, "record_order: equal timestamps, different hashes");
    ck!(s, r1.cmp(&r2) == spec, "Record order is (timestamp, hash) lexicographic, independent of len");
    ck!(s, r2.cmp(&r1) == spec.reverse(), "Record order is antisymmetric");
    if r1 <= r2 && r2 <= r3 {
        ck!(s, r1 <= r3, "Record order is transitive");
    }
}

/// C01-S2/C08: `RecordIdentifier` order = byte order of ns ‖ author ‖ key.
pub fn record_id_order<S: Src, const K1: usize, const K2: usize>(s: &mut S) {
    let (n1, a1): ([u8; 32], [u8; 32]) = (s.arr(), s.arr());
    let (n2, a2): ([u8; 32], [u8; 32]) = (s.arr(), s.arr());
    let k1: [u8; K1] = s.arr();
    let k2: [u8; K2] = s.arr();
    let i1 = RecordIdentifier::new(NamespaceId::from(&n1), AuthorId::from(&a1), k1);
    let i2 = RecordIdentifier::new(NamespaceId::from(&n2), AuthorId::from(&a2), k2);
    let spec = n1.cmp(&n2).then_with(|| a1.cmp(&a2)).then_with(|| k1[..].cmp(&k2[..]));
    cv!(s, n1 == n2 && a1 == a2, "record_id_order: same namespace and author");
    ck!(s, i1.cmp(&i2) == spec, "RecordIdentifier order is (namespace, author, key) lexicographic = the records-table tuple order");
}

// ---------------------------------------------------------------------------------------------
// C07 capabilities
// ---------------------------------------------------------------------------------------------

/// The (stubbed) public key of a secret: an injective map on the harness domain, see
/// `env::secret_public`.  Capability ids are derived through the real `NamespaceSecret::id`.
pub fn capability_merge<S: Src>(s: &mut S) {
    let mk = |s: &mut S| -> Capability {
        let b: [u8; 32] = s.arr();
        if s.bool() {
            Capability::Write(NamespaceSecret::from_bytes(&b))
        } else {
            Capability::Read(NamespaceId::from(&b))
        }
    };
    let mut a = mk(s);
    let b = mk(s);
    let a0_id = a.id();
    let a0_write = matches!(a, Capability::Write(_));
    let a0_raw = a.raw();
    let b_id = b.id();
    let b_write = matches!(b, Capability::Write(_));
    let b_raw = b.raw();
    let res = a.merge(b);
    cv!(s, a0_id == b_id && !a0_write && b_write, "capability_merge: upgrade case");
    cv!(s, a0_id == b_id && a0_write && !b_write, "capability_merge: read import onto write");
    cv!(s, a0_id != b_id, "capability_merge: mismatch case");
    match res {
        Err(_) => {
            ck!(s, a0_id != b_id, "merge fails only for a different document");
            ck!(s, a.raw() == a0_raw, "a failed merge changes nothing");
        }
        Ok(changed) => {
            ck!(s, a0_id == b_id, "merge succeeds only for the same document");
            ck!(s, changed == (!a0_write && b_write), "merge reports a change exactly for the read->write upgrade");
            ck!(s, a.id() == a0_id, "merge never changes the document id");
            let now_write = matches!(a, Capability::Write(_));
            ck!(s, now_write == (a0_write || b_write), "write capability is gained by importing the secret and never lost");
            if changed {
                ck!(s, a.raw() == b_raw, "an upgrade stores the imported secret");
            } else {
                ck!(s, a.raw() == a0_raw, "no upgrade leaves the capability bit-identical");
            }
        }
    }
}

/// C07/C09: `Capability::from_raw(raw(c)) == c`; unknown kinds are errors, never panics.
pub fn capability_raw_roundtrip<S: Src>(s: &mut S) {
    crypto::reset();
    let kind = s.u8();
    let mut bytes: [u8; 32] = s.arr();
    // the stored id may be one that is not a curve point (read capabilities hold any 32 bytes); natively the
    // ideal scheme's abstract "not a curve point" is concretised by an id that ed25519 really rejects
    if s.bool() {
        if s.is_replay() {
            bytes = [2u8; 32];
        }
        crypto::cm().noncurve[0] = Some(bytes);
    }
    let res = Capability::from_raw(kind, &bytes);
    cv!(s, kind == 1, "capability_raw: write kind");
    cv!(s, kind == 2, "capability_raw: read kind");
    cv!(s, kind > 2, "capability_raw: unknown kind");
    match &res {
        Ok(c) => {
            ck!(s, kind == 1 || kind == 2, "only kinds 1 (write) and 2 (read) decode");
            ck!(s, (kind == 1) == matches!(c, Capability::Write(_)), "kind 1 is write, kind 2 is read");
            let (k2, b2) = c.raw();
            ck!(s, k2 == kind && b2 == bytes, "raw(from_raw(kind, bytes)) == (kind, bytes)");
            ck!(s, c.secret_key().is_ok() == (kind == 1), "secret key is available exactly for write capabilities");
        }
        Err(_) => {
            ck!(s, kind != 1 && kind != 2, "kinds 1 and 2 always decode");
        }
    }
    // the anyhow error's drop glue (Backtrace frames) is not the subject; skip it
    std::mem::forget(res);
}

/// C01-S3 / C08: the range fingerprint of an entry hashes exactly
/// namespace | author | key | timestamp_be | content hash — nothing else and nothing less (an entry
/// that differs in any of these fields gets a different hash input).
pub fn fingerprint_input<S: Src, const K: usize>(s: &mut S) {
    let raw = RawEntry::<K>::any(s);
    let signed = SignedEntry::new(EntrySignature::from_parts(&[1u8; 64], &[2u8; 64]), raw.entry());
    let _fp = RangeEntry::as_fingerprint(&signed);
    let mut want: Vec<u8> = Vec::with_capacity(64 + K + 40);
    want.extend_from_slice(&raw.ns);
    want.extend_from_slice(&raw.author);
    want.extend_from_slice(&raw.key);
    want.extend_from_slice(&raw.ts.to_be_bytes());
    want.extend_from_slice(&raw.hash);
    #[allow(static_mut_refs)]
    let (len, log) = unsafe { (crypto::HLOG_LEN, &crypto::HLOG) };
    cv!(s, true, "fingerprint_input: reached");
    ck!(s, len == want.len(), "the fingerprint hashes exactly 64 + key length + 8 + 32 bytes");
    ck!(s, len <= crypto::HLOG_MAX && log[..want.len().min(crypto::HLOG_MAX)] == want[..], "the fingerprint input is namespace|author|key|timestamp_be|content hash");
    std::mem::forget(signed);
}
