//! harness bodies: engine/state.rs (child module of `engine::state`)
//!
//! C11: two-node product of the real `PeerState` transition functions.  Node X keeps a real
//! `PeerState` for peer Y and vice versa; the harness plays the network (requests, replies,
//! sessions in flight) and the glue of `live.rs` that decides which handler outcome calls `finish`
//! (table `GLUE`, cross-checked against the MIR of the handlers by the E3 check).
use iroh::EndpointId;

use super::*;
use crate::verif_incrate::src::{ck, cv, Src};

// glue of `live.rs` mirrored by `dial_ends` (cross-checked against the handlers' MIR by the E3
// check): `on_sync_via_connect_finished` calls `state.abort_connect` for
// `RemoteAbort(AlreadySyncing)` and `on_sync_finished` -> `state.finish` for everything else.

pub fn endpoint_id(bytes: [u8; 32]) -> EndpointId {
    // EndpointId = iroh::PublicKey = newtype around the 32 compressed bytes; only `as_bytes` order is used
    unsafe { std::mem::transmute::<[u8; 32], EndpointId>(bytes) }
}

/// Two distinct node ids in either byte order: a shared symbolic fill byte and two free tail
/// bytes each (the tie-break only uses the byte-wise order of the two ids).
fn two_ids<S: Src>(s: &mut S) -> (EndpointId, EndpointId) {
    let fill = s.u8();
    let tx: [u8; 2] = s.arr();
    let ty: [u8; 2] = s.arr();
    s.assume(tx != ty);
    let mut a = [fill; 32];
    let mut b = [fill; 32];
    a[30] = tx[0];
    a[31] = tx[1];
    b[30] = ty[0];
    b[31] = ty[1];
    (endpoint_id(a), endpoint_id(b))
}

fn any_reason<S: Src>(s: &mut S) -> SyncReason {
    match s.u8() & 3 {
        0 => SyncReason::DirectJoin,
        1 => SyncReason::NewNeighbor,
        2 => SyncReason::SyncReport,
        _ => SyncReason::Resync,
    }
}

fn is_idle(p: &PeerState) -> bool {
    matches!(p.state, SyncState::Idle)
}
fn running_accept(p: &PeerState) -> bool {
    matches!(p.state, SyncState::Running { origin: Origin::Accept, .. })
}
fn running_connect(p: &PeerState) -> bool {
    matches!(p.state, SyncState::Running { origin: Origin::Connect(_), .. })
}

/// a pre-built session result (finish only stores it)
fn result<S: Src>(s: &mut S, ns: NamespaceId, peer: EndpointId) -> Result<SyncFinished> {
    let _ok = s.bool();
    // both outcomes take the same path through `finish`; errors are built once, outside loops
    Ok(SyncFinished { namespace: ns, peer, outcome: Default::default(), timings: Default::default() })
}

/// a session result that is an error (built once per call: costs CBMC about 12 s each, so only the families that need it use it)
fn failed_result() -> Result<SyncFinished> {
    Err(anyhow::anyhow!("session failed"))
}

/// An idle slot that already saw a session (a reachable state).  Starting from `Some(..)` keeps
/// the value that `finish` drops concrete (`Ok` with an empty head map) on every path, so CBMC
/// never walks B-tree nodes behind a merged pointer (DESIGN.md P12).
fn fresh_peer(ns: NamespaceId) -> PeerState {
    let prev = SyncFinished { namespace: ns, peer: endpoint_id([9u8; 32]), outcome: Default::default(), timings: Default::default() };
    PeerState { state: SyncState::Idle, resync_requested: false, last_sync: Some((Instant::now(), Ok(prev))) }
}

struct Node {
    id: EndpointId,
    peer: PeerState,
}

/// what the dialer's handler does when its dial ends
fn dial_ends(n: &mut Node, reason: SyncReason, remote_abort_already_syncing: bool, res: Result<SyncFinished>) -> Option<bool> {
    if remote_abort_already_syncing {
        std::mem::forget(res);
        n.peer.abort_connect();
        return None;
    }
    n.peer.finish(&Origin::Connect(reason), res).map(|(_, resync)| resync)
}

/// Family A: one dial X -> Y; request lost or delivered; if accepted, both ends of the session
/// finish independently, in either order, with success or failure.
pub fn c11_single_dial<S: Src>(s: &mut S) {
    let ns = NamespaceId::from(&[1u8; 32]);
    let (idx, idy) = two_ids(s);
    let mut x = Node { id: idx, peer: fresh_peer(ns) };
    let mut y = Node { id: idy, peer: fresh_peer(ns) };
    let reason = any_reason(s);
    let started = x.peer.start_connect(reason);
    ck!(s, started, "an idle peer slot always lets a dial start");
    ck!(s, running_connect(&x.peer), "a started dial marks the slot busy");
    let lost = s.bool();
    if lost {
        let r = result(s, ns, y.id);
        let _ = dial_ends(&mut x, reason, false, r);
    } else {
        let o = y.peer.accept_request(&y.id, &x.id);
        ck!(s, matches!(o, AcceptOutcome::Allow), "an idle node accepts a sync request");
        ck!(s, running_accept(&y.peer), "an accepted request marks the slot busy");
        let x_first = s.bool();
        let rx = result(s, ns, y.id);
        let ry = result(s, ns, x.id);
        if x_first {
            let fx = dial_ends(&mut x, reason, false, rx);
            ck!(s, fx == Some(false), "the dialer's finish reports no resync when none was requested");
            let fy = y.peer.finish(&Origin::Accept, ry);
            ck!(s, fy.is_some(), "the acceptor's finish is expected");
        } else {
            let fy = y.peer.finish(&Origin::Accept, ry);
            ck!(s, fy.is_some(), "the acceptor's finish is expected");
            let fx = dial_ends(&mut x, reason, false, rx);
            ck!(s, fx == Some(false), "the dialer's finish reports no resync when none was requested");
        }
    }
    cv!(s, lost, "c11_single_dial: request lost");
    cv!(s, !lost, "c11_single_dial: request delivered");
    ck!(s, is_idle(&x.peer) && is_idle(&y.peer), "once nothing is in flight both nodes are idle for each other");
    std::mem::forget(x);
    std::mem::forget(y);
}

/// Family B: X and Y dial each other simultaneously.  Control flow is concrete per instance
/// (flag bits F), ids and reasons are symbolic (either id order):
///   bit0 XY_LOST   X's request never reaches Y        bit1 YX_LOST   Y's request never reaches X
///   bit2 Y_ENDS_FIRST  (needs YX_LOST) Y's dial fails before X's request reaches Y
///   bit3 X_ENDS_EARLY  X's dial ends (lost / declined / session done at X) before Y's request reaches X
///   bit4 YACC_EARLY    (needs X's request accepted) Y's end of that session finishes before Y's request reaches X
/// X's request is delivered first; the mirrored orders are covered by the symbolic id order.
pub fn c11_simultaneous_dial<S: Src, const F: u8>(s: &mut S) {
    let xy_lost = F & 1 != 0;
    let yx_lost = F & 2 != 0;
    let y_ends_first = F & 4 != 0 && yx_lost;
    let x_ends_early = F & 8 != 0;
    let yacc_early = F & 16 != 0;
    let ns = NamespaceId::from(&[1u8; 32]);
    let (idx, idy) = two_ids(s);
    let mut x = Node { id: idx, peer: fresh_peer(ns) };
    let mut y = Node { id: idy, peer: fresh_peer(ns) };
    let (r1, r2) = (any_reason(s), any_reason(s));
    ck!(s, x.peer.start_connect(r1) && y.peer.start_connect(r2), "idle slots let both dials start");
    let mut y_dial_ended = false;
    if y_ends_first {
        let r = result(s, ns, x.id);
        let _ = dial_ends(&mut y, r2, false, r);
        y_dial_ended = true;
    }
    // X's request at Y
    let mut xy_allowed = false;
    let mut xy_declined = false;
    let y_was_dialing = running_connect(&y.peer);
    if !xy_lost {
        match y.peer.accept_request(&y.id, &x.id) {
            AcceptOutcome::Allow => xy_allowed = true,
            AcceptOutcome::Reject(AbortReason::AlreadySyncing) => xy_declined = true,
            AcceptOutcome::Reject(_) => ck!(s, false, "a busy node declines with AlreadySyncing only"),
        }
    }
    let mut x_dial_ended = false;
    let mut yacc_ended = !xy_allowed;
    if x_ends_early {
        let r = result(s, ns, y.id);
        let _ = dial_ends(&mut x, r1, xy_declined, r);
        x_dial_ended = true;
    }
    if yacc_early && xy_allowed {
        let r = result(s, ns, x.id);
        let _ = y.peer.finish(&Origin::Accept, r);
        yacc_ended = true;
    }
    // Y's request at X
    let mut yx_allowed = false;
    let mut yx_declined = false;
    let x_was_dialing = running_connect(&x.peer);
    if !yx_lost {
        match x.peer.accept_request(&x.id, &y.id) {
            AcceptOutcome::Allow => yx_allowed = true,
            AcceptOutcome::Reject(AbortReason::AlreadySyncing) => yx_declined = true,
            AcceptOutcome::Reject(_) => ck!(s, false, "a busy node declines with AlreadySyncing only"),
        }
    }
    let truly_simultaneous = !xy_lost && !yx_lost && y_was_dialing && x_was_dialing;
    cv!(s, !truly_simultaneous || xy_allowed, "c11_simultaneous_dial: Y accepts");
    cv!(s, !truly_simultaneous || yx_allowed, "c11_simultaneous_dial: X accepts");
    if truly_simultaneous {
        ck!(s, xy_allowed != yx_allowed, "when two nodes dial each other simultaneously exactly one request is accepted");
    }
    // a session is in progress from acceptance until either side has finished it
    let s_xy = xy_allowed && !x_dial_ended && !yacc_ended;
    ck!(s, !(s_xy && yx_allowed), "never two sessions in progress for one pair and document");
    // everything still pending ends
    if !x_dial_ended {
        let r = result(s, ns, y.id);
        let _ = dial_ends(&mut x, r1, xy_declined, r);
    }
    if !yacc_ended {
        let r = result(s, ns, x.id);
        let _ = y.peer.finish(&Origin::Accept, r);
    }
    if !y_dial_ended {
        let r = result(s, ns, x.id);
        let _ = dial_ends(&mut y, r2, yx_declined, r);
    }
    if yx_allowed {
        let r = result(s, ns, y.id);
        let _ = x.peer.finish(&Origin::Accept, r);
    }
    cv!(s, true, "c11_simultaneous_dial: reached the end");
    ck!(s, is_idle(&x.peer) && is_idle(&y.peer), "once nothing is in flight both nodes are idle for each other");
    std::mem::forget(x);
    std::mem::forget(y);
}

/// Family F: crossing dials where OUR dial is the one that loses — and then fails on its own (the request is lost, the
/// connection breaks: anything but the remote's AlreadySyncing) — while the session we ACCEPTED is still running; sync reports
/// may be refused during that session.  X is the node that accepts (ids symbolic, constrained so that the tie-break lets it).
///   * the failure of X's own dial must not free the pair's slot: the accepted session is still in progress;
///   * a refused report leads to exactly one follow-up dial, made when the session that caused the refusal FINISHES (live.rs
///     starts the follow-up as soon as `finish` reports it) — not earlier, while that session still runs and the remote can
///     only decline it;
///   * the finish of the accepted session is acknowledged (it is what produces the SyncFinished event).
pub fn c11_crossing_failed_dial<S: Src>(s: &mut S) {
    let ns = NamespaceId::from(&[1u8; 32]);
    let (idx, idy) = two_ids(s);
    let mut x = Node { id: idx, peer: fresh_peer(ns) };
    let mut y = Node { id: idy, peer: fresh_peer(ns) };
    let (r1, r2) = (any_reason(s), any_reason(s));
    ck!(s, x.peer.start_connect(r1) && y.peer.start_connect(r2), "idle slots let both dials start");
    // Y's request reaches X while X is dialing: the tie-break decides; this family is about the accepting node
    let o = x.peer.accept_request(&x.id, &y.id);
    s.assume(matches!(o, AcceptOutcome::Allow));
    ck!(s, running_accept(&x.peer), "an accepted request marks the slot busy");
    // sync reports refused at X during the accepted session, before and / or after X's own dial fails
    let report_before = s.bool();
    let report_after = s.bool();
    let mut refused = 0u8;
    let mut followups_during_session = 0u8;
    if report_before {
        if !x.peer.start_connect(SyncReason::SyncReport) {
            refused += 1;
        } else {
            followups_during_session += 1;
        }
    }
    // X's own dial ends: lost / connection error (NOT RemoteAbort(AlreadySyncing))
    // (`finish` only stores the result; which handler branch runs is decided by the error variant: here any but AlreadySyncing)
    let rx = result(s, ns, y.id);
    let fx = dial_ends(&mut x, r1, false, rx);
    if fx == Some(true) {
        // live.rs on_sync_finished: `if resync { sync_with_peer(.., Resync) }`
        if x.peer.start_connect(SyncReason::Resync) {
            followups_during_session += 1;
        }
    }
    ck!(s, !is_idle(&x.peer) || followups_during_session > 0, "the failure of a node's own losing dial does not free the slot of the session it accepted, which is still in progress");
    if report_after {
        if !x.peer.start_connect(SyncReason::SyncReport) {
            refused += 1;
        } else {
            followups_during_session += 1;
        }
    }
    ck!(s, followups_during_session == 0, "no dial (follow-up or new) is started for the pair while the accepted session is still in progress");
    // the accepted session finishes at X
    let ra = result(s, ns, y.id);
    let fa = x.peer.finish(&Origin::Accept, ra).map(|(_, r)| r);
    cv!(s, refused > 0, "c11_crossing_failed_dial: a report was refused during the accepted session");
    cv!(s, refused == 0, "c11_crossing_failed_dial: no report");
    ck!(s, fa.is_some(), "the end of a session that ran is acknowledged (SyncFinished is emitted for it)");
    ck!(s, fa != Some(false) || refused == 0 || followups_during_session > 0, "a report refused during a session leads to a follow-up dial when that session finishes");
    ck!(s, fa != Some(true) || refused > 0, "no follow-up dial without a refused report");
    // Y's side: its dial was accepted; it finishes too; X's follow-up (if any) then runs like any dial
    let ry = result(s, ns, x.id);
    let _ = dial_ends(&mut y, r2, false, ry);
    if fa == Some(true) {
        ck!(s, x.peer.start_connect(SyncReason::Resync), "the follow-up dial starts");
        let r3 = result(s, ns, y.id);
        let _ = dial_ends(&mut x, SyncReason::Resync, false, r3);
    }
    ck!(s, is_idle(&x.peer) && is_idle(&y.peer), "once nothing is in flight both nodes are idle for each other");
    std::mem::forget(x);
    std::mem::forget(y);
}

/// Family C: X dials Y, the session runs, X's end finishes first and X immediately dials again
/// (new sync report / resync) while Y has not yet finished its end.
pub fn c11_redial_race<S: Src, const Y_FINISHED_FIRST: bool>(s: &mut S) {
    let ns = NamespaceId::from(&[1u8; 32]);
    let (idx, idy) = two_ids(s);
    let mut x = Node { id: idx, peer: fresh_peer(ns) };
    let mut y = Node { id: idy, peer: fresh_peer(ns) };
    let r1 = any_reason(s);
    ck!(s, x.peer.start_connect(r1), "idle slot lets the dial start");
    let o = y.peer.accept_request(&y.id, &x.id);
    ck!(s, matches!(o, AcceptOutcome::Allow), "an idle node accepts a sync request");
    // X's end finishes
    let rx = result(s, ns, y.id);
    let _ = dial_ends(&mut x, r1, false, rx);
    ck!(s, is_idle(&x.peer), "the dialer is idle after its end finished");
    // X dials again; the request reaches Y before or after Y's end finished
    let r2 = any_reason(s);
    ck!(s, x.peer.start_connect(r2), "idle slot lets the re-dial start");
    let y_finished_before_redial_arrives = Y_FINISHED_FIRST;
    let ry = result(s, ns, x.id);
    let ry_late = result(s, ns, x.id);
    if y_finished_before_redial_arrives {
        let _ = y.peer.finish(&Origin::Accept, ry);
    } else {
        std::mem::forget(ry);
    }
    let o2 = y.peer.accept_request(&y.id, &x.id);
    let allowed = matches!(o2, AcceptOutcome::Allow);
    ck!(s, allowed == y_finished_before_redial_arrives, "a node still busy with the previous session declines, a free one accepts");
    if !y_finished_before_redial_arrives {
        let _ = y.peer.finish(&Origin::Accept, ry_late);
    } else {
        std::mem::forget(ry_late);
    }
    // the second dial ends
    let rx2 = result(s, ns, y.id);
    if allowed {
        let ry2 = result(s, ns, x.id);
        let _ = dial_ends(&mut x, r2, false, rx2);
        let _ = y.peer.finish(&Origin::Accept, ry2);
    } else {
        let _ = dial_ends(&mut x, r2, true, rx2);
    }
    cv!(s, Y_FINISHED_FIRST || !allowed, "c11_redial_race: the re-dial overtakes the acceptor's bookkeeping");
    ck!(s, is_idle(&x.peer) && is_idle(&y.peer), "once nothing is in flight both nodes are idle for each other");
    std::mem::forget(x);
    std::mem::forget(y);
}

/// Family D: news reported while a session is running is refused and leads to exactly one
/// follow-up dial when that session finishes (on the dialing and on the accepting side).
pub fn c11_resync<S: Src, const FAILS: bool>(s: &mut S) {
    let ns = NamespaceId::from(&[1u8; 32]);
    let (idx, idy) = two_ids(s);
    let mut x = Node { id: idx, peer: fresh_peer(ns) };
    let mut y = Node { id: idy, peer: fresh_peer(ns) };
    let r1 = any_reason(s);
    ck!(s, x.peer.start_connect(r1), "idle slot lets the dial start");
    let o = y.peer.accept_request(&y.id, &x.id);
    ck!(s, matches!(o, AcceptOutcome::Allow), "an idle node accepts a sync request");
    // reports arrive during the session: k_x at X, k_y at Y (0..2 each), other dial reasons too
    let kx = s.u8() % 3;
    let ky = s.u8() % 3;
    let other_x = any_reason(s);
    let mut i = 0;
    while i < 2 {
        if i < kx {
            ck!(s, !x.peer.start_connect(SyncReason::SyncReport), "a dial is refused while a session is running");
        }
        if i < ky {
            ck!(s, !y.peer.start_connect(SyncReason::SyncReport), "a dial is refused while a session is running");
        }
        i += 1;
    }
    let other_tried = s.bool();
    if other_tried && !matches!(other_x, SyncReason::SyncReport) {
        ck!(s, !x.peer.start_connect(other_x), "a dial is refused while a session is running");
    }
    // both ends finish — with success, or (FAILS) the session ends with an error on both sides: a refused report is owed its
    // follow-up dial either way
    let rx = if FAILS { failed_result() } else { result(s, ns, y.id) };
    let ry = if FAILS { failed_result() } else { result(s, ns, x.id) };
    let fx = dial_ends(&mut x, r1, false, rx);
    let fy = y.peer.finish(&Origin::Accept, ry).map(|(_, r)| r);
    cv!(s, kx > 0 && ky == 0, "c11_resync: report at the dialer only");
    cv!(s, ky > 0, "c11_resync: report at the acceptor");
    ck!(s, fx == Some(kx > 0), "the dialer's finish asks for a follow-up exactly if a sync report was refused during the session");
    ck!(s, fy == Some(ky > 0), "the acceptor's finish asks for a follow-up exactly if a sync report was refused during the session");
    // the follow-up dial (live.rs: `if resync { sync_with_peer(.., Resync) }`) starts exactly once
    if fx == Some(true) {
        ck!(s, x.peer.start_connect(SyncReason::Resync), "the follow-up dial starts");
        ck!(s, !x.peer.start_connect(SyncReason::Resync), "and only once");
        let rx2 = result(s, ns, y.id);
        let f2 = dial_ends(&mut x, SyncReason::Resync, false, rx2);
        ck!(s, f2 == Some(false), "the follow-up session's finish does not ask for another follow-up");
    }
    std::mem::forget(x);
    std::mem::forget(y);
}

/// Family E: requests for documents that are not being synced are declined as not found; the
/// `NamespaceStates` wrappers route to the per-peer slot only for syncing documents.
pub fn c11_not_syncing<S: Src>(s: &mut S) {
    let mut states = NamespaceStates::default();
    let ns = NamespaceId::from(&s.arr::<32>());
    let me = endpoint_id(s.arr());
    let node = endpoint_id(s.arr());
    ck!(s, !states.is_syncing(&ns), "a fresh state syncs nothing");
    let o = states.accept_request(&me, &ns, node);
    ck!(s, matches!(o, AcceptOutcome::Reject(AbortReason::NotFound)), "requests for documents that are not being synced are declined as not found");
    ck!(s, !states.start_connect(&ns, node, any_reason(s)), "no dial starts for a document that is not being synced");
    ck!(s, !states.is_syncing(&ns), "declining does not start syncing the document");
    cv!(s, true, "c11_not_syncing: reached");
    std::mem::forget(states);
}

/// Family S: bounded symbolic scheduler.  Each node dials the other at most once (whether, and
/// why, is symbolic); then K scheduler steps pick, symbolically, any enabled event:
/// request delivered / request lost / dial ends at the dialer / accepted session ends at the
/// acceptor — for either direction.  Covers every interleaving of two overlapping dials,
/// including "the dial ends before the competing request arrives".
pub fn c11_scheduler<S: Src, const K: usize>(s: &mut S) {
    let ns = NamespaceId::from(&[1u8; 32]);
    let (idx, idy) = two_ids(s);
    let mut n = [Node { id: idx, peer: fresh_peer(ns) }, Node { id: idy, peer: fresh_peer(ns) }];
    // request state per direction d (0: X->Y, 1: Y->X)
    // 0 = no dial, 1 = in flight, 2 = lost, 3 = declined (AlreadySyncing), 4 = allowed (session running)
    let mut req = [0u8; 2];
    let mut dial_ended = [true; 2];
    let mut acc_ended = [true; 2];
    let reasons = [any_reason(s), any_reason(s)];
    let mut d = 0;
    while d < 2 {
        if s.bool() {
            let ok = n[d].peer.start_connect(reasons[d]);
            ck!(s, ok, "an idle peer slot always lets a dial start");
            req[d] = 1;
            dial_ended[d] = false;
        }
        d += 1;
    }
    let both = req[0] == 1 && req[1] == 1;
    let mut decided_while_both_dialing = [false; 2];
    let mut step = 0;
    while step < K {
        let ev = s.u8();
        s.assume(ev < 8);
        let d = (ev & 1) as usize; // direction: dialer d, acceptor 1-d
        let a = 1 - d;
        match ev >> 1 {
            0 => {
                // request delivered
                if req[d] == 1 {
                    let me = n[a].id;
                    let from = n[d].id;
                    let was_dialing = running_connect(&n[a].peer);
                    match n[a].peer.accept_request(&me, &from) {
                        AcceptOutcome::Allow => {
                            req[d] = 4;
                            acc_ended[d] = false;
                        }
                        AcceptOutcome::Reject(AbortReason::AlreadySyncing) => req[d] = 3,
                        AcceptOutcome::Reject(_) => ck!(s, false, "a busy node declines with AlreadySyncing only"),
                    }
                    decided_while_both_dialing[d] = was_dialing && !dial_ended[a] && req[a] == 1;
                }
            }
            1 => {
                // request lost in the network
                if req[d] == 1 {
                    req[d] = 2;
                }
            }
            2 => {
                // the dial ends at the dialer
                if !dial_ended[d] && req[d] >= 2 {
                    let peer = n[a].id;
                    let r = result(s, ns, peer);
                    let _ = dial_ends(&mut n[d], reasons[d], req[d] == 3, r);
                    dial_ended[d] = true;
                }
            }
            _ => {
                // the accepted session ends at the acceptor
                if req[d] == 4 && !acc_ended[d] {
                    let peer = n[d].id;
                    let r = result(s, ns, peer);
                    let _ = n[a].peer.finish(&Origin::Accept, r);
                    acc_ended[d] = true;
                }
            }
        }
        // safety: never two sessions in progress at once (in progress = accepted, neither end finished)
        let s0 = req[0] == 4 && !dial_ended[0] && !acc_ended[0];
        let s1 = req[1] == 4 && !dial_ended[1] && !acc_ended[1];
        ck!(s, !(s0 && s1), "never two sessions in progress for one pair and document");
        step += 1;
    }
    if both && decided_while_both_dialing[0] && decided_while_both_dialing[1] {
        cv!(s, true, "c11_scheduler: simultaneous dial, both requests decided while both were dialing");
        ck!(s, (req[0] == 4) != (req[1] == 4) || req[0] < 3 || req[1] < 3,
            "when two nodes dial each other simultaneously exactly one request is accepted");
    }
    let quiescent = req[0] != 1 && req[1] != 1 && dial_ended[0] && dial_ended[1] && acc_ended[0] && acc_ended[1];
    cv!(s, quiescent && both, "c11_scheduler: both dialed and everything finished");
    if quiescent {
        ck!(s, is_idle(&n[0].peer) && is_idle(&n[1].peer), "once nothing is in flight both nodes are idle for each other");
    }
    std::mem::forget(n);
}
