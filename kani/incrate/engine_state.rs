//! harness bodies: engine_state
