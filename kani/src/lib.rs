//! Kani proof harnesses: thin wrappers around the bodies in `iroh_docs::verif_incrate`
//! (see /verif/kani/incrate), plus the environment stubs of DESIGN.md §3.3.
#![allow(unused)]
#![recursion_limit = "1024"]

pub mod env;

#[cfg(kani)]
mod harnesses;
