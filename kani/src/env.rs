//! Environment stubs (DESIGN.md §3.3).  Every stub is part of every claim that uses it.

/// `<bytes::Bytes as Drop>::drop` -> no-op: `Bytes` is immutable, only the allocation lifetime
/// (reference counting through a vtable) is abstracted.
pub fn bytes_drop(_b: &mut bytes::Bytes) {}

/// `<bytes::Bytes as Clone>::clone` -> deep copy.
pub fn bytes_clone(b: &bytes::Bytes) -> bytes::Bytes {
    bytes::Bytes::copy_from_slice(&b[..])
}

/// `<bytes::BytesMut as Drop>::drop` -> no-op.
pub fn bytes_mut_drop(_b: &mut bytes::BytesMut) {}

/// `constant_time_eq::constant_time_eq_32` (inline asm) -> plain comparison.
pub fn ct_eq_32(a: &[u8; 32], b: &[u8; 32]) -> bool {
    a == b
}

/// `n0_error::backtrace_enabled` (OnceLock + getenv) -> false: error call-site capture is off.
pub fn n0_backtrace_enabled() -> bool {
    false
}

/// tracing: callsites are never interested, nothing is enabled, events go nowhere.
pub fn tracing_interest(_cs: &tracing_core::callsite::DefaultCallsite) -> tracing_core::Interest {
    tracing_core::Interest::never()
}
pub fn tracing_is_enabled(
    _meta: &'static tracing_core::Metadata<'static>,
    _interest: tracing_core::Interest,
) -> bool {
    false
}
pub fn tracing_dispatch<'a>(
    _metadata: &'static tracing_core::Metadata<'static>,
    _fields: &'a tracing_core::field::ValueSet<'_>,
) where
    'a: 'a,
{
}

/// `std::backtrace::Backtrace::capture` -> disabled (anyhow errors would otherwise call getenv).
pub fn backtrace_disabled() -> std::backtrace::Backtrace {
    std::backtrace::Backtrace::disabled()
}

/// `alloc::fmt::format` -> empty string (error messages are not the subject of any property).
pub fn fmt_format(_args: core::fmt::Arguments<'_>) -> String {
    String::new()
}

/// `tokio::time::Instant::now` (thread_local runtime context: Kani ICE) -> a fixed instant; only
/// stored, never compared, in the harnesses that use this stub.
pub fn tokio_instant_now() -> tokio::time::Instant {
    unsafe { std::mem::zeroed() }
}

/// `std::time::SystemTime::now` (clock_gettime) -> the epoch.  (Harnesses in which time matters
/// draw it in the body and use the in-crate clock model instead, so that stubs never draw values
/// that the native replay would not draw.)
pub fn system_time_now() -> std::time::SystemTime {
    std::time::UNIX_EPOCH
}

/// `tracing_core::dispatcher::has_been_set` -> true: with tracing's `log` feature the macros fall
/// back to the `log` crate only while no tracing dispatcher was ever set; this cuts that path
/// (formatting of every logged field) out of the harness.
pub fn tracing_has_been_set() -> bool {
    true
}

/// `<anyhow::Error as Drop>::drop` -> no-op (leak): the drop goes through a vtable function
/// pointer, which CBMC resolves against every candidate; error destruction is not a subject.
pub fn anyhow_drop(_e: &mut anyhow::Error) {}

/// `<BTreeMap<AuthorId, u64> as Drop>::drop` -> no-op (leak): B-tree node deallocation walks are
/// intractable for CBMC (DESIGN.md P12) and not a subject of the harnesses using this stub.
pub fn btreemap_heads_drop(_m: &mut std::collections::BTreeMap<iroh_docs::AuthorId, u64>) {}

/// `std::hash::RandomState::new` (per-thread random keys from the OS) -> fixed keys.
pub fn random_state_new() -> std::hash::RandomState {
    unsafe { std::mem::transmute::<(u64, u64), std::hash::RandomState>((0x0123_4567_89ab_cdef, 0x0f1e_2d3c_4b5a_6978)) }
}

/// Formatting of errors and backtraces (symbolisation pulls gimli/addr2line/miniz into the goto
/// program): prints nothing.  Error *messages* are not the subject of any property.
pub fn anyhow_fmt(_e: &anyhow::Error, _f: &mut core::fmt::Formatter<'_>) -> core::fmt::Result {
    Ok(())
}
pub fn backtrace_fmt(_b: &std::backtrace::Backtrace, _f: &mut core::fmt::Formatter<'_>) -> core::fmt::Result {
    Ok(())
}

/// `blake3::hash` (runtime CPU feature detection = inline asm) -> the BLAKE3 hash of the EMPTY input,
/// which is the only input it is called with on the harness paths (`Fingerprint::empty()`); any
/// other input is flagged.
pub fn blake3_hash_empty(input: &[u8]) -> blake3::Hash {
    #[cfg(kani)]
    kani::assert(input.is_empty(), "blake3::hash stub called with non-empty input");
    blake3::Hash::from_bytes([
        175, 19, 73, 185, 245, 249, 161, 166, 160, 64, 77, 234, 54, 220, 201, 73, 155, 203, 37, 201, 173, 193, 18, 183, 204, 154, 147,
        202, 228, 31, 50, 98,
    ])
}

/// `std::panic::catch_unwind` -> run the closure directly (Kani aborts on panic anyway; the
/// `catch_unwind` intrinsic makes kani-compiler 0.68 ICE).  Reached through the drop glue of
/// `std::thread::JoinHandle` (inside `SyncHandle`).
pub unsafe fn catch_unwind_direct<R, F: FnOnce() -> R>(f: F) -> Result<R, Box<dyn std::any::Any + Send>> {
    Ok(f())
}
