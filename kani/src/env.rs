//! Environment stubs (DESIGN.md §3.3).  Every stub is part of every claim that uses it.

/// `<bytes::Bytes as Drop>::drop` -> no-op: `Bytes` is immutable, only the allocation lifetime
/// (reference counting through a vtable) is abstracted.
pub fn bytes_drop(_b: &mut bytes::Bytes) {}

/// `<bytes::Bytes as Clone>::clone` -> deep copy.
pub fn bytes_clone(b: &bytes::Bytes) -> bytes::Bytes {
    bytes::Bytes::copy_from_slice(&b[..])
}

/// `<bytes::BytesMut as Drop>::drop` -> no-op.
pub fn bytes_mut_drop(_b: &mut bytes::BytesMut) {}

/// `constant_time_eq::constant_time_eq_32` (inline asm) -> plain comparison.
pub fn ct_eq_32(a: &[u8; 32], b: &[u8; 32]) -> bool {
    let mut i = 0;
    let mut eq = true;
    while i < 32 {
        eq &= a[i] == b[i];
        i += 1;
    }
    eq
}

/// tracing: callsites are never interested, nothing is enabled, events go nowhere.
pub fn tracing_interest(_cs: &tracing_core::callsite::DefaultCallsite) -> tracing_core::Interest {
    tracing_core::Interest::never()
}
pub fn tracing_is_enabled(
    _meta: &'static tracing_core::Metadata<'static>,
    _interest: tracing_core::Interest,
) -> bool {
    false
}
pub fn tracing_dispatch<'a>(
    _metadata: &'static tracing_core::Metadata<'static>,
    _fields: &'a tracing_core::field::ValueSet<'_>,
) where
    'a: 'a,
{
}

/// `std::backtrace::Backtrace::capture` -> disabled (anyhow errors would otherwise call getenv).
pub fn backtrace_disabled() -> std::backtrace::Backtrace {
    std::backtrace::Backtrace::disabled()
}

/// `alloc::fmt::format` -> empty string (error messages are not the subject of any property).
pub fn fmt_format(_args: core::fmt::Arguments<'_>) -> String {
    String::new()
}
