//! `#[kani::proof]` entry points.  Naming: `<property>_<what>[_<instance>]`; the registry that
//! maps names to properties, tiers, unwind sets and expectations is /verif/harnesses.py.
use iroh_docs::verif_incrate as vi;
use vi::src::KaniSrc;

/// Standard stub set + a thin wrapper calling the in-crate body.
macro_rules! harness {
    ($name:ident, $unwind:expr, $body:expr) => {
        #[kani::proof]
        #[kani::unwind($unwind)]
        #[kani::stub(<bytes::Bytes as core::ops::Drop>::drop, crate::env::bytes_drop)]
        #[kani::stub(<bytes::Bytes as core::clone::Clone>::clone, crate::env::bytes_clone)]
        #[kani::stub(tracing_core::callsite::DefaultCallsite::interest, crate::env::tracing_interest)]
        #[kani::stub(tracing::__macro_support::__is_enabled, crate::env::tracing_is_enabled)]
        #[kani::stub(tracing_core::event::Event::dispatch, crate::env::tracing_dispatch)]
        #[kani::stub(std::backtrace::Backtrace::capture, crate::env::backtrace_disabled)]
        fn $name() {
            let f: fn(&mut KaniSrc) = $body;
            f(&mut KaniSrc)
        }
    };
}

harness!(c02_bounds_author_prefix_p0_k1, 4, vi::store_fs::bounds_author_prefix::<KaniSrc, 0, 1>);
harness!(c02_bounds_author_prefix_p1_k1, 4, vi::store_fs::bounds_author_prefix::<KaniSrc, 1, 1>);
harness!(c02_bounds_author_prefix_p1_k2, 4, vi::store_fs::bounds_author_prefix::<KaniSrc, 1, 2>);
harness!(c02_bounds_author_prefix_p2_k1, 4, vi::store_fs::bounds_author_prefix::<KaniSrc, 2, 1>);
harness!(c02_bounds_author_prefix_p2_k2, 4, vi::store_fs::bounds_author_prefix::<KaniSrc, 2, 2>);
harness!(c02_bounds_author_prefix_p2_k3, 4, vi::store_fs::bounds_author_prefix::<KaniSrc, 2, 3>);

/// Build probe: lets the runner compile /repo + this crate under Kani before the parallel runs.
#[kani::proof]
fn zz_build_probe() {
    let x: u8 = kani::any();
    assert!(x as u16 + 1 > 0);
}
