//! `#[kani::proof]` entry points: generated wrappers (harnesses_gen.rs) around the bodies in
//! `iroh_docs::verif_incrate`; the registry is /verif/lib/harnesses.py.
include!("harnesses_gen.rs");

/// Build probe: lets the runner compile /repo + this crate under Kani before the parallel runs.
#[kani::proof]
fn zz_build_probe() {
    let x: u8 = kani::any();
    assert!(x as u16 + 1 > 0);
}
