//! Public-API witnesses for the defects found by the solver checks (DESIGN.md §5): each function
//! drives `iroh_docs` through its public API only and returns `true` when the defect manifests.
//! `verif-replay --witness <id>` exits 1 if it does.  Used to confirm a solver counterexample at
//! API level before a `fix:` commit and to show that the fix removes it.
use std::future::Future;
use std::pin::pin;
use std::task::{Context, Poll, Waker};

use iroh_docs::{
    store::{fs::Store, Query},
    Author, NamespaceSecret,
};

pub fn block_on<F: Future>(f: F) -> F::Output {
    let mut f = pin!(f);
    let mut cx = Context::from_waker(Waker::noop());
    loop {
        if let Poll::Ready(v) = f.as_mut().poll(&mut cx) {
            return v;
        }
        std::thread::yield_now();
    }
}

fn hash(b: &[u8]) -> (iroh_blobs_hash::Hash, u64) {
    (iroh_blobs_hash::Hash::new(b), b.len() as u64)
}

mod iroh_blobs_hash {
    pub use iroh_docs::verif_incrate::Hash;
}

/// D2: deleting the prefix "a\xff" must not touch the key "b".
pub fn d2() -> bool {
    let mut store = Store::memory();
    let ns = NamespaceSecret::from_bytes(&[1u8; 32]);
    let author = Author::from_bytes(&[2u8; 32]);
    let mut replica = store.new_replica(ns).unwrap();
    let (h, l) = hash(b"x");
    block_on(replica.insert(b"b", &author, h, l)).unwrap();
    let removed = block_on(replica.delete_prefix(b"a\xff", &author)).unwrap();
    let id = replica.id();
    drop(replica);
    let left: Vec<_> = store
        .get_many(id, Query::all())
        .unwrap()
        .collect::<Result<Vec<_>, _>>()
        .unwrap();
    let b_alive = left.iter().any(|e| e.key() == b"b");
    eprintln!("d2: delete_prefix(\"a\\xff\") removed {removed} entries; key \"b\" alive: {b_alive}");
    removed != 0 || !b_alive
}

pub fn run(id: &str) -> Option<bool> {
    Some(match id {
        "d2" => d2(),
        other => return iroh_docs::verif_incrate::witness::run(other),
    })
}
