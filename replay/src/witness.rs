//! Public-API witnesses for the defects found by the solver checks (DESIGN.md §5): each function
//! drives `iroh_docs` through its public API only and returns `true` when the defect manifests.
//! `verif-replay --witness <id>` exits 1 if it does.  Used to confirm a solver counterexample at
//! API level before a `fix:` commit and to show that the fix removes it.
use std::future::Future;
use std::pin::pin;
use std::task::{Context, Poll, Waker};

use iroh_docs::{
    store::{fs::Store, Query},
    Author, NamespaceSecret,
};

pub fn block_on<F: Future>(f: F) -> F::Output {
    let mut f = pin!(f);
    let mut cx = Context::from_waker(Waker::noop());
    loop {
        if let Poll::Ready(v) = f.as_mut().poll(&mut cx) {
            return v;
        }
        std::thread::yield_now();
    }
}

fn hash(b: &[u8]) -> (iroh_blobs_hash::Hash, u64) {
    (iroh_blobs_hash::Hash::new(b), b.len() as u64)
}

mod iroh_blobs_hash {
    pub use iroh_docs::verif_incrate::Hash;
}

/// D2: deleting the prefix "a\xff" must not touch the key "b".
pub fn d2() -> bool {
    let mut store = Store::memory();
    let ns = NamespaceSecret::from_bytes(&[1u8; 32]);
    let author = Author::from_bytes(&[2u8; 32]);
    let mut replica = store.new_replica(ns).unwrap();
    let (h, l) = hash(b"x");
    block_on(replica.insert(b"b", &author, h, l)).unwrap();
    let removed = block_on(replica.delete_prefix(b"a\xff", &author)).unwrap();
    let id = replica.id();
    drop(replica);
    let left: Vec<_> = store
        .get_many(id, Query::all())
        .unwrap()
        .collect::<Result<Vec<_>, _>>()
        .unwrap();
    let b_alive = left.iter().any(|e| e.key() == b"b");
    eprintln!("d2: delete_prefix(\"a\\xff\") removed {removed} entries; key \"b\" alive: {b_alive}");
    removed != 0 || !b_alive
}

/// C07 (actor): a document open with write capability must stay writable when a read-only
/// capability for the same document is imported through the store actor.
pub fn c07a() -> bool {
    use iroh_docs::actor::{OpenOpts, SyncHandle};
    use iroh_docs::Capability;
    let handle = SyncHandle::spawn(Store::memory(), None, "c07a".into());
    let author = Author::from_bytes(&[7u8; 32]);
    let namespace = NamespaceSecret::from_bytes(&[8u8; 32]);
    let id = namespace.id();
    let bad = block_on(async {
        let author = handle.import_author(author).await.unwrap();
        handle.import_namespace(Capability::Write(namespace.clone())).await.unwrap();
        handle.open(id, OpenOpts::default()).await.unwrap();
        let (h, l) = hash(b"v1");
        handle.insert_local(id, author, "k1".into(), h, l).await.unwrap();
        handle.import_namespace(Capability::Read(id)).await.unwrap();
        let second = handle.insert_local(id, author, "k2".into(), h, l).await;
        let secret = handle.export_secret_key(id).await;
        eprintln!("c07a: insert after read import ok: {}; secret still exportable: {}", second.is_ok(), secret.is_ok());
        let bad = second.is_err() || secret.is_err();
        let _ = handle.shutdown().await;
        bad
    });
    bad
}

/// D7 / removal: after removing a document (with entries, and also an EMPTY one that only has a
/// capability, a peer and a policy) and creating it again, nothing of the old document may be
/// observable: no entries, heads, peers, policy; a removed document cannot be opened.
pub fn d7() -> bool {
    use iroh_docs::store::DownloadPolicy;
    let mut bad = false;
    for with_entry in [true, false] {
        let mut store = Store::memory();
        let ns = NamespaceSecret::from_bytes(&[5u8; 32]);
        let author = Author::from_bytes(&[6u8; 32]);
        let id = ns.id();
        {
            let mut replica = store.new_replica(ns.clone()).unwrap();
            if with_entry {
                let (h, l) = hash(b"x");
                block_on(replica.insert(b"k", &author, h, l)).unwrap();
            }
        }
        store.register_useful_peer(id, [3u8; 32]).unwrap();
        store.set_download_policy(&id, DownloadPolicy::NothingExcept(vec![])).unwrap();
        store.close_replica(id);
        store.remove_replica(&id).unwrap();
        let still_there = store.load_replica_info(&id).is_ok();
        store.close_replica(id);
        let _ = store.new_replica(ns).unwrap();
        store.close_replica(id);
        let heads = store.get_latest_for_each_author(id).unwrap().count();
        let entries = store.get_many(id, Query::all().include_empty()).unwrap().count();
        let peers = store.get_sync_peers(&id).unwrap().is_some();
        let policy_default = matches!(store.get_download_policy(&id).unwrap(), DownloadPolicy::EverythingExcept(ref v) if v.is_empty());
        eprintln!("d7[with_entry={with_entry}]: openable after removal: {still_there}; after re-create: {entries} entries, {heads} heads, peers: {peers}, default policy: {policy_default}");
        if still_there || heads != 0 || entries != 0 || peers || !policy_default {
            bad = true;
        }
    }
    bad
}

/// D4 / stored heads: after each of several arrival orders (decreasing timestamps at unrelated keys,
/// an update of an existing key after a newer entry elsewhere, a late deletion marker below the
/// head) the reported head of the author must be the greatest timestamp among the entries held.
pub fn d4() -> bool {
    use iroh_docs::{Record, SignedEntry};
    let now = std::time::SystemTime::now().duration_since(std::time::UNIX_EPOCH).unwrap().as_micros() as u64;
    let (h, l) = hash(b"x");
    // (key, timestamp offset below now, deletion marker?)
    let scenarios: [&[(&[u8], u64, bool)]; 3] = [
        &[(b"a", 0, false), (b"b", 1000, false)],
        &[(b"notes", 3000, false), (b"todo", 1000, false), (b"notes", 2000, false)],
        &[(b"docs/old", 3000, false), (b"docs/new", 1000, false), (b"docs/", 2000, true)],
    ];
    let mut bad = false;
    for (i, sc) in scenarios.iter().enumerate() {
        let mut store = Store::memory();
        let ns = NamespaceSecret::from_bytes(&[9u8; 32]);
        let author = Author::from_bytes(&[10u8; 32]);
        let id = ns.id();
        let mut replica = store.new_replica(ns.clone()).unwrap();
        for (key, off, del) in sc.iter() {
            let rec = if *del { Record::empty(now - off) } else { Record::new(h, l, now - off) };
            let e = SignedEntry::from_parts(&ns, &author, key, rec);
            let _ = block_on(replica.insert_remote_entry(e, [1u8; 32], iroh_docs::ContentStatus::Missing));
        }
        drop(replica);
        let held_max = store
            .get_many(id, Query::all().include_empty())
            .unwrap()
            .map(|e| e.unwrap().timestamp())
            .max()
            .unwrap_or(0);
        let heads: Vec<_> = store.get_latest_for_each_author(id).unwrap().collect::<Result<Vec<_>, _>>().unwrap();
        let head = heads.first().map(|h| h.1).unwrap_or(0);
        eprintln!("d4[{i}]: newest held entry {held_max}, reported head {head}");
        if head != held_max {
            bad = true;
        }
    }
    bad
}

/// D1: a newer deletion marker at a prefix (and a newer entry at the empty key) must block an
/// older entry below it, whatever the arrival order.
pub fn d1() -> bool {
    use iroh_docs::{Record, SignedEntry};
    let mut store = Store::memory();
    let ns = NamespaceSecret::from_bytes(&[11u8; 32]);
    let author = Author::from_bytes(&[12u8; 32]);
    let id = ns.id();
    let mut replica = store.new_replica(ns.clone()).unwrap();
    let now = std::time::SystemTime::now().duration_since(std::time::UNIX_EPOCH).unwrap().as_micros() as u64;
    let (h, l) = hash(b"x");
    // newer deletion marker at "a", then an OLDER entry at "ab" arrives (e.g. from a peer that has not seen the deletion)
    let tomb = SignedEntry::from_parts(&ns, &author, b"a", Record::empty(now));
    let older = SignedEntry::from_parts(&ns, &author, b"ab", Record::new(h, l, now - 1000));
    block_on(replica.insert_remote_entry(tomb, [1u8; 32], iroh_docs::ContentStatus::Missing)).unwrap();
    let r1 = block_on(replica.insert_remote_entry(older, [1u8; 32], iroh_docs::ContentStatus::Missing));
    // newer entry at the EMPTY key, then an older entry at "b"
    let root = SignedEntry::from_parts(&ns, &author, b"", Record::new(h, l, now));
    let older2 = SignedEntry::from_parts(&ns, &author, b"b", Record::new(h, l, now - 1000));
    block_on(replica.insert_remote_entry(root, [1u8; 32], iroh_docs::ContentStatus::Missing)).unwrap();
    let r2 = block_on(replica.insert_remote_entry(older2, [1u8; 32], iroh_docs::ContentStatus::Missing));
    drop(replica);
    let ab = store.get_exact(id, author.id(), b"ab", true).unwrap().is_some();
    let b = store.get_exact(id, author.id(), b"b", true).unwrap().is_some();
    eprintln!("d1: older entry under a newer deletion marker admitted: {} (stored: {ab}); older entry under a newer empty-key entry admitted: {} (stored: {b})", r1.is_ok(), r2.is_ok());
    ab || b
}

/// C17 / useful peers: for every list length K in 0..=5 and every choice of the registered peer
/// (a new one, or the one stored at position j), plus long runs over 7 peers, the list read back
/// must equal the MRU model (most recent first, no duplicates, at most five); registering for an
/// unknown document must fail.
pub fn c17() -> bool {
    fn reg(store: &mut Store, model: &mut Vec<[u8; 32]>, id: iroh_docs::NamespaceId, p: [u8; 32]) {
        store.register_useful_peer(id, p).unwrap();
        // the store orders by wall-clock nanoseconds: make consecutive registrations distinguishable
        std::thread::sleep(std::time::Duration::from_micros(2));
        model.retain(|x| *x != p);
        model.insert(0, p);
        model.truncate(5);
    }
    let mut bad = false;
    let mut unknown = Store::memory();
    if unknown.register_useful_peer(NamespaceSecret::from_bytes(&[9u8; 32]).id(), [1u8; 32]).is_ok() {
        eprintln!("c17: registering a peer for an unknown document succeeded");
        bad = true;
    }
    let mut case = 0u8;
    for k in 0..=5usize {
        for j in 0..=k {
            case += 1;
            let mut store = Store::memory();
            let ns = NamespaceSecret::from_bytes(&[case; 32]);
            let id = ns.id();
            let _ = store.new_replica(ns).unwrap();
            store.close_replica(id);
            let mut model = vec![];
            for i in 0..k {
                reg(&mut store, &mut model, id, [10 + i as u8; 32]);
            }
            // j < k: re-register the peer stored at position j (oldest = 0); j == k: a new peer
            let p = if j < k { [10 + j as u8; 32] } else { [99u8; 32] };
            reg(&mut store, &mut model, id, p);
            let got: Vec<[u8; 32]> = store.get_sync_peers(&id).unwrap().map(|it| it.collect()).unwrap_or_default();
            if got != model {
                eprintln!("c17[k={k}, j={j}]: stored {:?}, MRU model {:?}", got.iter().map(|p| p[0]).collect::<Vec<_>>(), model.iter().map(|p| p[0]).collect::<Vec<_>>());
                bad = true;
            }
        }
    }
    // two documents share the table: the bound is per document
    {
        let mut store = Store::memory();
        let (na, nb) = (NamespaceSecret::from_bytes(&[201u8; 32]), NamespaceSecret::from_bytes(&[202u8; 32]));
        let (ia, ib) = (na.id(), nb.id());
        let _ = store.new_replica(na).unwrap();
        store.close_replica(ia);
        let _ = store.new_replica(nb).unwrap();
        store.close_replica(ib);
        let (mut ma, mut mb) = (vec![], vec![]);
        for i in 0..4u8 {
            reg(&mut store, &mut ma, ia, [20 + i; 32]);
        }
        for i in 0..6u8 {
            reg(&mut store, &mut mb, ib, [40 + i; 32]);
            reg(&mut store, &mut ma, ia, [20 + (i % 4); 32]);
        }
        for (name, id, model) in [("A", ia, &ma), ("B", ib, &mb)] {
            let got: Vec<[u8; 32]> = store.get_sync_peers(&id).unwrap().map(|it| it.collect()).unwrap_or_default();
            if &got != model {
                eprintln!("c17[two documents, {name}]: stored {:?}, MRU model {:?}", got.iter().map(|p| p[0]).collect::<Vec<_>>(), model.iter().map(|p| p[0]).collect::<Vec<_>>());
                bad = true;
            }
        }
    }
    // a longer pseudo-random history over 7 peers
    let mut store = Store::memory();
    let ns = NamespaceSecret::from_bytes(&[200u8; 32]);
    let id = ns.id();
    let _ = store.new_replica(ns).unwrap();
    store.close_replica(id);
    let mut model = vec![];
    let mut x = 12345u32;
    for step in 0..200 {
        x = x.wrapping_mul(1664525).wrapping_add(1013904223);
        reg(&mut store, &mut model, id, [((x >> 16) % 7) as u8; 32]);
        let got: Vec<[u8; 32]> = store.get_sync_peers(&id).unwrap().map(|it| it.collect()).unwrap_or_default();
        if got != model {
            eprintln!("c17[history step {step}]: stored {:?}, MRU model {:?}", got.iter().map(|p| p[0]).collect::<Vec<_>>(), model.iter().map(|p| p[0]).collect::<Vec<_>>());
            bad = true;
            break;
        }
    }
    bad
}

/// C13 / encoding of author heads: every author survives encode+decode without a limit (also when
/// authors share a timestamp); under a limit the newest heads that fit are kept and the encoding is
/// never longer than the limit (a limit too small for anything may be refused, but not exceeded).
pub fn c13enc() -> bool {
    use iroh_docs::{AuthorHeads, AuthorId};
    let mut bad = false;
    let a = |b: u8| AuthorId::from(&[b; 32]);
    // (author byte, timestamp)
    let sets: Vec<Vec<(u8, u64)>> = vec![
        vec![],
        vec![(1, 10)],
        vec![(1, 10), (2, 10)],
        vec![(1, 10), (2, 10), (3, 10)],
        vec![(1, 5), (2, 10), (3, 10), (4, 7)],
        vec![(1, 10), (2, 9), (3, 8)],
    ];
    // plus two large sets (more than 127 heads need a two-byte length prefix), with one- and two-byte timestamps
    let mut all_sets: Vec<(String, AuthorHeads, usize)> = vec![];
    for set in &sets {
        let mut heads = AuthorHeads::default();
        for (b, t) in set {
            heads.insert(a(*b), *t);
        }
        all_sets.push((format!("{set:?}"), heads, 2 + 34 * set.len()));
    }
    for (n, base) in [(130usize, 10u64), (200, 1000)] {
        let mut heads = AuthorHeads::default();
        for i in 0..n {
            let mut id = [9u8; 32];
            id[0] = i as u8;
            id[1] = (i >> 8) as u8;
            heads.insert(AuthorId::from(&id), base + i as u64);
        }
        all_sets.push((format!("[{n} heads from timestamp {base}]"), heads, 3 + 35 * n));
    }
    for (set, heads, max_limit) in &all_sets {
        match std::panic::catch_unwind(|| heads.encode(None)) {
            Ok(Ok(bytes)) => match AuthorHeads::decode(&bytes) {
                Ok(back) if back == *heads => {}
                Ok(back) => {
                    eprintln!("c13enc{set}: encode(None) + decode keeps {} of {} authors", back.len(), heads.len());
                    bad = true;
                }
                Err(e) => {
                    eprintln!("c13enc{set}: decode failed: {e}");
                    bad = true;
                }
            },
            other => {
                eprintln!("c13enc{set}: encode(None) failed: {:?}", other.map(|r| r.map(|b| b.len())).map_err(|_| "panic"));
                bad = true;
            }
        }
        for limit in 0..=*max_limit {
            let h2 = heads.clone();
            match std::panic::catch_unwind(move || h2.encode(Some(limit))) {
                Err(_) => {
                    eprintln!("c13enc{set}: encode(Some({limit})) panicked");
                    bad = true;
                    break;
                }
                Ok(Err(e)) => {
                    // refusing a limit that not even the empty list (1 byte) fits into is fine
                    if limit >= 1 {
                        eprintln!("c13enc{set}: encode(Some({limit})) failed although the empty list fits: {e}");
                        bad = true;
                        break;
                    }
                }
                Ok(Ok(bytes)) => {
                    if bytes.len() > limit {
                        eprintln!("c13enc{set}: encode(Some({limit})) returned {} bytes", bytes.len());
                        bad = true;
                        break;
                    }
                    let back = AuthorHeads::decode(&bytes).unwrap();
                    // kept = the newest: no dropped head is newer than a kept one, and one more would not fit
                    let kept_min = back.iter().map(|(_, t)| *t).min();
                    let dropped_max = heads.iter().filter(|(au, _)| back.get(au).is_none()).map(|(_, t)| *t).max();
                    if let (Some(k), Some(d)) = (kept_min, dropped_max) {
                        if d > k {
                            eprintln!("c13enc{set}: limit {limit}: dropped a head newer than a kept one");
                            bad = true;
                        }
                    }
                    if back.iter().any(|(au, t)| heads.get(au) != Some(*t)) {
                        eprintln!("c13enc{set}: limit {limit}: decoded a head that was not in the set");
                        bad = true;
                    }
                    if back.len() < heads.len() && limit >= bytes.len() + 35 {
                        eprintln!("c13enc{set}: limit {limit}: kept {} heads in {} bytes although one more fits", back.len(), bytes.len());
                        bad = true;
                    }
                }
            }
        }
    }
    bad
}

/// C13 / news detection: for all pairs of head sets over 3 authors with timestamps in {absent, 1, 2},
/// `a.has_news_for(&b)` counts exactly the authors that b lacks or knows with a strictly older timestamp.
pub fn c13news() -> bool {
    use iroh_docs::{AuthorHeads, AuthorId};
    let mut bad = false;
    let mk = |code: u32| {
        let mut h = AuthorHeads::default();
        for i in 0..3u32 {
            // digit 0 = the author is absent; 1, 2, 3 = timestamps 0, 1, 2 (0 is a valid timestamp)
            let t = (code / 4u32.pow(i)) % 4;
            if t > 0 {
                h.insert(AuthorId::from(&[i as u8 + 1; 32]), t as u64 - 1);
            }
        }
        h
    };
    for ca in 0..64u32 {
        for cb in 0..64u32 {
            let (a, b) = (mk(ca), mk(cb));
            let want = a.iter().filter(|(au, t)| b.get(au).map(|tb| **t > tb).unwrap_or(true)).count() as u64;
            let got = a.has_news_for(&b).map(|n| n.get()).unwrap_or(0);
            if got != want {
                eprintln!("c13news: ours {:?} theirs {:?}: reported {got} updates, expected {want}", a, b);
                bad = true;
            }
        }
    }
    bad
}


/// C13 (query c13_news_semantic): `Store::has_news_for_us` on a real store against the specification, for every pattern of
/// three authors being absent / present with one of three timestamps on OUR side (64 stores) and in THEIR report (64 reports).
pub fn c13newsus() -> bool {
    use iroh_docs::{AuthorHeads, Record, SignedEntry};
    let mut bad = false;
    let now = std::time::SystemTime::now().duration_since(std::time::UNIX_EPOCH).unwrap().as_micros() as u64;
    let base = now - 10_000_000;
    let mut authors: Vec<Author> = (0..3u8).map(|i| Author::from_bytes(&[70 + i; 32])).collect();
    authors.sort_by_key(|a| *a.id().as_bytes());
    let (h, l) = hash(b"x");
    for ca in 0..64u32 {
        let ns = NamespaceSecret::from_bytes(&[(ca % 200) as u8 + 1; 32]);
        let mut store = Store::memory();
        let mut replica = store.new_replica(ns.clone()).unwrap();
        let mut ours: Vec<Option<u64>> = vec![];
        for (i, au) in authors.iter().enumerate() {
            let t = (ca / 4u32.pow(i as u32)) % 4;
            ours.push(if t > 0 { Some(base + t as u64) } else { None });
            if t > 0 {
                let e = SignedEntry::from_parts(&ns, au, b"k", Record::new(h, l, base + t as u64));
                block_on(replica.insert_remote_entry(e, [1u8; 32], iroh_docs::ContentStatus::Missing)).unwrap();
            }
        }
        drop(replica);
        store.close_replica(ns.id());
        for cb in 0..64u32 {
            let mut theirs = AuthorHeads::default();
            let mut want = 0u64;
            for (i, au) in authors.iter().enumerate() {
                let t = (cb / 4u32.pow(i as u32)) % 4;
                if t > 0 {
                    theirs.insert(au.id(), base + t as u64);
                    if ours[i].map(|o| base + t as u64 > o).unwrap_or(true) {
                        want += 1;
                    }
                }
            }
            let got = store.has_news_for_us(ns.id(), &theirs).unwrap().map(|n| n.get()).unwrap_or(0);
            if got != want {
                if !bad {
                    eprintln!("c13newsus: our heads {:?}, their report {:?}: has_news_for_us says {got}, expected {want}", ours.iter().map(|o| o.map(|t| t - base)).collect::<Vec<_>>(), theirs);
                }
                bad = true;
            }
        }
    }
    bad
}

/// C05: every combination of query kind, author filter, key filter, sort, direction, include-empty,
/// offset and limit on a two-author state with prefix-related keys, deletion markers, an entry pruned
/// by a prefix deletion (stale by-key index row) and equal timestamps is compared with the query's
/// specification (latest-per-key: greatest timestamp among ALL authors, then the author filter).
pub fn c05() -> bool {
    use iroh_docs::store::{SortBy, SortDirection};
    use iroh_docs::{Record, SignedEntry};
    let now = std::time::SystemTime::now().duration_since(std::time::UNIX_EPOCH).unwrap().as_micros() as u64;
    let (h, l) = hash(b"x");
    let mut store = Store::memory();
    let ns = NamespaceSecret::from_bytes(&[21u8; 32]);
    let a1 = Author::from_bytes(&[22u8; 32]);
    let a2 = Author::from_bytes(&[23u8; 32]);
    let id = ns.id();
    let mut replica = store.new_replica(ns.clone()).unwrap();
    // (author, key, timestamp offset below now (smaller = newer), deletion marker?)
    let script: &[(&Author, &[u8], u64, bool)] = &[
        (&a1, b"k", 5000, false),
        (&a2, b"k", 1000, false),    // newest at "k" is a2's
        (&a1, b"m", 1000, false),
        (&a2, b"m", 1000, false),    // tie at "m"
        (&a1, b"p/x", 9000, false),
        (&a1, b"p/y", 9000, false),
        (&a1, b"p/", 8000, true),    // prunes p/x and p/y of a1: stale by-key rows, and a deletion marker
        (&a2, b"p/x", 7000, false),  // other author's entry below the marker survives
        (&a1, b"t", 2000, true),     // newest at "t" is a deletion marker
        (&a2, b"t", 3000, false),
        (&a2, b"", 4000, false),     // the empty key
        (&a1, b"z\xff", 4000, false),
    ];
    for (au, key, off, del) in script.iter() {
        let rec = if *del { Record::empty(now - off) } else { Record::new(h, l, now - off) };
        let e = SignedEntry::from_parts(&ns, au, key, rec);
        let _ = block_on(replica.insert_remote_entry(e, [1u8; 32], iroh_docs::ContentStatus::Missing));
    }
    drop(replica);
    // the held set, from a plain full scan (the oracle filters/sorts it itself)
    let held: Vec<SignedEntry> = store.get_many(id, Query::all().include_empty()).unwrap().collect::<Result<Vec<_>, _>>().unwrap();
    let mut bad = false;
    let authors = [None, Some(a1.id()), Some(a2.id())];
    let keyfs: Vec<(u8, &[u8])> = vec![(0, b""), (1, b"k"), (1, b"p/"), (2, b"p/"), (2, b""), (2, b"z"), (1, b"t"), (2, b"q")];
    let mut n = 0u32;
    for latest in [false, true] {
        for au in authors.iter() {
            for (kf_kind, kf) in keyfs.iter() {
                for key_author_sort in [false, true] {
                    if latest && !key_author_sort {
                        continue;
                    }
                    for desc in [false, true] {
                        for inc in [false, true] {
                            for offset in [0u64, 1, 2] {
                                for limit in [None, Some(0u64), Some(1), Some(2)] {
                                    // ---- the query
                                    let dir = if desc { SortDirection::Desc } else { SortDirection::Asc };
                                    let q: Query = if latest {
                                        let mut b = Query::single_latest_per_key().sort_direction(dir).offset(offset);
                                        if let Some(a) = au { b = b.author(*a); }
                                        b = match kf_kind { 1 => b.key_exact(kf), 2 => b.key_prefix(kf), _ => b };
                                        if inc { b = b.include_empty(); }
                                        if let Some(l) = limit { b = b.limit(l); }
                                        b.build()
                                    } else {
                                        let mut b = Query::all().sort_by(if key_author_sort { SortBy::KeyAuthor } else { SortBy::AuthorKey }, dir).offset(offset);
                                        if let Some(a) = au { b = b.author(*a); }
                                        b = match kf_kind { 1 => b.key_exact(kf), 2 => b.key_prefix(kf), _ => b };
                                        if inc { b = b.include_empty(); }
                                        if let Some(l) = limit { b = b.limit(l); }
                                        b.build()
                                    };
                                    let got: Vec<(Vec<u8>, [u8; 32])> = store.get_many(id, q).unwrap().map(|e| { let e = e.unwrap(); (e.key().to_vec(), *e.author().as_bytes()) }).collect();
                                    // ---- the specification
                                    let kmatch = |e: &SignedEntry| match kf_kind { 1 => e.key() == *kf, 2 => e.key().starts_with(kf), _ => true };
                                    let amatch = |e: &SignedEntry| au.map(|a| e.author() == a).unwrap_or(true);
                                    let mut sel: Vec<&SignedEntry> = if latest {
                                        let mut keys: Vec<&[u8]> = held.iter().filter(|e| kmatch(e)).map(|e| e.key()).collect();
                                        keys.sort();
                                        keys.dedup();
                                        keys.iter().filter_map(|k| {
                                            let top = held.iter().filter(|e| e.key() == *k).map(|e| e.timestamp()).max().unwrap();
                                            // ties: whichever the store returned is accepted if it is one of the newest
                                            let cands: Vec<&SignedEntry> = held.iter().filter(|e| e.key() == *k && e.timestamp() == top).collect();
                                            // (the one it returned, else one that the author filter drops, else any)
                                            let pick = cands.iter().find(|c| got.iter().any(|g| g.0 == c.key() && g.1 == *c.author().as_bytes())).copied()
                                                .or_else(|| cands.iter().find(|c| !amatch(c)).copied())
                                                .unwrap_or(cands[0]);
                                            Some(pick)
                                        }).filter(|e| amatch(e)).collect()
                                    } else {
                                        held.iter().filter(|e| kmatch(e) && amatch(e)).collect()
                                    };
                                    if !inc { sel.retain(|e| !e.is_empty()); }
                                    if key_author_sort {
                                        sel.sort_by(|x, y| (x.key(), x.author().as_bytes()).cmp(&(y.key(), y.author().as_bytes())));
                                    } else {
                                        sel.sort_by(|x, y| (x.author().as_bytes(), x.key()).cmp(&(y.author().as_bytes(), y.key())));
                                    }
                                    if desc { sel.reverse(); }
                                    let want: Vec<(Vec<u8>, [u8; 32])> = sel.iter().skip(offset as usize).take(limit.map(|l| l as usize).unwrap_or(usize::MAX)).map(|e| (e.key().to_vec(), *e.author().as_bytes())).collect();
                                    n += 1;
                                    if got != want {
                                        if !bad {
                                            eprintln!("c05: latest={latest} author={:?} keyfilter=({kf_kind},{:?}) key_author_sort={key_author_sort} desc={desc} include_empty={inc} offset={offset} limit={limit:?}\n  got  {:?}\n  want {:?}",
                                                au.map(|a| a.as_bytes()[0]), String::from_utf8_lossy(kf),
                                                got.iter().map(|g| (String::from_utf8_lossy(&g.0).to_string(), g.1[0])).collect::<Vec<_>>(),
                                                want.iter().map(|g| (String::from_utf8_lossy(&g.0).to_string(), g.1[0])).collect::<Vec<_>>());
                                        }
                                        bad = true;
                                    }
                                    // point lookups agree with the exact-key/author query
                                    if !latest && *kf_kind == 1 && offset == 0 && limit.is_none() {
                                        if let Some(a) = au {
                                            let p = store.get_exact(id, *a, kf, inc).unwrap();
                                            if p.is_some() != !got.is_empty() { bad = true; eprintln!("c05: get_exact disagrees with the query for key {:?}", String::from_utf8_lossy(kf)); }
                                        }
                                    }
                                }
                            }
                        }
                    }
                }
            }
        }
    }
    eprintln!("c05: {n} queries compared, held entries: {}; mismatch: {bad}", held.len());
    bad
}


/// C16 (content hashes): the hashes reported for garbage-collection protection are exactly the hashes of the entries
/// held, in any document — with copies of one value under neighbouring keys, neighbouring deletion markers, two authors
/// and two documents.
pub fn c16hashes() -> bool {
    let mut store = Store::memory();
    let authors = [Author::from_bytes(&[21u8; 32]), Author::from_bytes(&[22u8; 32])];
    let mut want: Vec<iroh_blobs_hash::Hash> = vec![];
    for d in 0..2u8 {
        let ns = NamespaceSecret::from_bytes(&[30 + d; 32]);
        let mut replica = store.new_replica(ns).unwrap();
        let (same, l) = hash(b"one value stored under several keys");
        for (i, key) in [&b"a"[..], b"b", b"c", b"k/1", b"k/2", b"z"].iter().enumerate() {
            let (h, len) = if i < 3 { (same, l) } else { hash(&[key, &[d][..]].concat()) };
            block_on(replica.insert(key, &authors[i % 2], h, len)).unwrap();
            block_on(replica.insert(key, &authors[0], h, len)).unwrap();
        }
        // neighbouring deletion markers (nothing below them, so they stay as entries of their own)
        block_on(replica.delete_prefix(b"x1", &authors[1])).unwrap();
        block_on(replica.delete_prefix(b"x2", &authors[1])).unwrap();
        block_on(replica.delete_prefix(b"x3", &authors[1])).unwrap();
        let id = replica.id();
        drop(replica);
        store.close_replica(id);
        for e in store.get_many(id, Query::all().include_empty()).unwrap() {
            want.push(e.unwrap().content_hash());
        }
    }
    let mut got: Vec<iroh_blobs_hash::Hash> = store.content_hashes().unwrap().collect::<Result<Vec<_>, _>>().unwrap();
    got.sort();
    want.sort();
    let bad = got != want;
    eprintln!("c16hashes: {} hashes reported, {} entries held; mismatch: {bad}", got.len(), want.len());
    bad
}

/// C16 (open guard): a document that was opened — through `open_replica` or through `load_replica_info`, which is what the
/// store actor uses — cannot be removed until it is closed; afterwards it can.
pub fn c16open() -> bool {
    let mut bad = false;
    for via_info in [false, true] {
        let mut store = Store::memory();
        let ns = NamespaceSecret::from_bytes(&[41u8; 32]);
        let author = Author::from_bytes(&[42u8; 32]);
        let id = ns.id();
        {
            let mut replica = store.new_replica(ns.clone()).unwrap();
            let (h, l) = hash(b"v");
            block_on(replica.insert(b"k", &author, h, l)).unwrap();
        }
        store.close_replica(id);
        if via_info {
            let _info = store.load_replica_info(&id).unwrap();
        } else {
            let _replica = store.open_replica(&id).unwrap();
        }
        let refused = store.remove_replica(&id).is_err();
        let still_there = store.get_many(id, Query::all()).map(|it| it.count()).unwrap_or(0);
        if !refused || still_there != 1 {
            eprintln!("c16open: an open document (opened via {}) was removed: refused={refused}, entries left={still_there}", if via_info { "load_replica_info" } else { "open_replica" });
            bad = true;
        }
        store.close_replica(id);
        if store.remove_replica(&id).is_err() {
            eprintln!("c16open: a closed document could not be removed");
            bad = true;
        }
    }
    bad
}

/// C14 (gating through the store actor): with sync switched off reconciliation and remote inserts are refused while local
/// use works; nothing works on a document that is not open; a document with a handle left cannot be dropped.
pub fn c14gate() -> bool {
    use iroh_docs::actor::{OpenOpts, SyncHandle};
    use iroh_docs::sync::{ContentStatus, SyncOutcome};
    use iroh_docs::Capability;
    let alice = SyncHandle::spawn(Store::memory(), None, "c14gate-a".into());
    let bob = SyncHandle::spawn(Store::memory(), None, "c14gate-b".into());
    let author = Author::from_bytes(&[51u8; 32]);
    let namespace = NamespaceSecret::from_bytes(&[52u8; 32]);
    let id = namespace.id();
    let mut bad = vec![];
    block_on(async {
        // alice: a syncing document with one entry, to get a genuine initial message and a genuine signed entry
        let a = alice.import_author(author.clone()).await.unwrap();
        alice.import_namespace(Capability::Write(namespace.clone())).await.unwrap();
        alice.open(id, OpenOpts::default().sync()).await.unwrap();
        let (h, l) = hash(b"v1");
        alice.insert_local(id, a, "k1".into(), h, l).await.unwrap();
        let init = alice.sync_initial_message(id).await.unwrap();
        let entry = alice.get_exact(id, a, "k1".into(), false).await.unwrap().unwrap();
        // bob: the document exists but is NOT open
        let b = bob.import_author(author.clone()).await.unwrap();
        bob.import_namespace(Capability::Write(namespace.clone())).await.unwrap();
        if bob.get_exact(id, b, "k1".into(), false).await.is_ok() { bad.push("get_exact on a document that is not open"); }
        if bob.insert_local(id, b, "k9".into(), h, l).await.is_ok() { bad.push("insert_local on a document that is not open"); }
        if bob.sync_initial_message(id).await.is_ok() { bad.push("sync_initial_message on a document that is not open"); }
        // bob: open, sync OFF
        bob.open(id, OpenOpts::default()).await.unwrap();
        if bob.insert_local(id, b, "k2".into(), h, l).await.is_err() { bad.push("insert_local refused on an open document"); }
        if bob.sync_initial_message(id).await.is_ok() { bad.push("sync_initial_message with sync disabled"); }
        if bob.sync_process_message(id, init.clone(), [1u8; 32], SyncOutcome::default()).await.is_ok() { bad.push("sync_process_message with sync disabled"); }
        if bob.insert_remote(id, entry.clone(), [1u8; 32], ContentStatus::Complete).await.is_ok() { bad.push("insert_remote with sync disabled"); }
        if bob.get_exact(id, a, "k1".into(), false).await.unwrap().is_some() && !bad.is_empty() { /* reported above */ }
        // a second open with sync turns it on; it stays on after a plain open; reconciliation now works
        bob.open(id, OpenOpts::default().sync()).await.unwrap();
        bob.open(id, OpenOpts::default()).await.unwrap();
        if bob.sync_process_message(id, init.clone(), [1u8; 32], SyncOutcome::default()).await.is_err() { bad.push("sync_process_message refused although sync is enabled"); }
        // three handles; one close leaves two: a drop request (which gives up the requester's own handle) must be refused
        // while another handle is still held, and the entries must stay
        if bob.close(id).await.unwrap() { bad.push("close reported closed with two handles left"); }
        if bob.drop_replica(id).await.is_ok() { bad.push("drop_replica succeeded while another handle is held"); }
        if bob.get_exact(id, b, "k2".into(), false).await.map(|e| e.is_none()).unwrap_or(true) { bad.push("entries are gone after a refused drop"); }
        let _ = alice.shutdown().await;
        let _ = bob.shutdown().await;
    });
    for b in &bad {
        eprintln!("c14gate: {b}");
    }
    !bad.is_empty()
}

/// C06 / C14 (a failing request must not lose earlier acknowledged writes): an insert, then a store request whose closure
/// fails inside the same open transaction (policy / peer for an unknown document), then read back and flush.
pub fn c06err() -> bool {
    use iroh_docs::store::DownloadPolicy;
    let mut store = Store::memory();
    let ns = NamespaceSecret::from_bytes(&[61u8; 32]);
    let author = Author::from_bytes(&[62u8; 32]);
    let unknown = NamespaceSecret::from_bytes(&[63u8; 32]).id();
    let id = ns.id();
    {
        let mut replica = store.new_replica(ns).unwrap();
        let (h, l) = hash(b"acknowledged");
        block_on(replica.insert(b"k", &author, h, l)).unwrap();
    }
    store.close_replica(id);
    let e1 = store.set_download_policy(&unknown, DownloadPolicy::default()).is_err();
    let alive1 = store.get_exact(id, author.id(), b"k", false).unwrap().is_some();
    let e2 = store.register_useful_peer(unknown, [9u8; 32]).is_err();
    let alive2 = store.get_exact(id, author.id(), b"k", false).unwrap().is_some();
    store.flush().unwrap();
    let alive3 = store.get_exact(id, author.id(), b"k", false).unwrap().is_some();
    let bad = !(e1 && e2 && alive1 && alive2 && alive3);
    eprintln!("c06err: requests for an unknown document refused: {e1} {e2}; the earlier insert is still there: {alive1} {alive2} {alive3}");
    bad
}

/// C07 (import through the store): a document first imported read-only is upgraded by importing its write secret — also
/// directly after a snapshot-based read (list_namespaces) — the outcome says so, and a later read-only import changes nothing.
pub fn c07imp() -> bool {
    use iroh_docs::store::ImportNamespaceOutcome;
    use iroh_docs::Capability;
    let mut bad = false;
    for read_between in [false, true] {
        let mut store = Store::memory();
        let ns = NamespaceSecret::from_bytes(&[95u8; 32]);
        let author = Author::from_bytes(&[96u8; 32]);
        let id = ns.id();
        let o1 = store.import_namespace(Capability::Read(id)).unwrap();
        if read_between {
            let _ = store.list_namespaces().unwrap().count();
        }
        let o2 = store.import_namespace(Capability::Write(ns.clone())).unwrap();
        if read_between {
            let _ = store.list_namespaces().unwrap().count();
        }
        let o3 = store.import_namespace(Capability::Read(id)).unwrap();
        let writable = {
            let mut replica = store.open_replica(&id).unwrap();
            let (h, l) = hash(b"v");
            block_on(replica.insert(b"k", &author, h, l)).is_ok()
        };
        if !matches!(o1, ImportNamespaceOutcome::Inserted) || !matches!(o2, ImportNamespaceOutcome::Upgraded) || !matches!(o3, ImportNamespaceOutcome::NoChange) || !writable {
            eprintln!("c07imp (read in between: {read_between}): outcomes {o1:?} {o2:?} {o3:?} (expected Inserted, Upgraded, NoChange); writable afterwards: {writable}");
            bad = true;
        }
    }
    bad
}

/// C13 (heads API): insert keeps the greater timestamp, merge takes every head of the other set, the store reports per
/// document exactly one head per author (the author's greatest timestamp, never a head of another document), and
/// has_news_for_us compares a peer's report with exactly those.
pub fn c13api() -> bool {
    use iroh_docs::{AuthorHeads, AuthorId};
    let mut bad = false;
    let a = |b: u8| AuthorId::from(&[b; 32]);
    let mut h = AuthorHeads::default();
    h.insert(a(1), 5);
    h.insert(a(1), 3);
    if h.get(&a(1)) != Some(5) {
        eprintln!("c13api: an older timestamp lowered a head");
        bad = true;
    }
    h.insert(a(1), 9);
    let mut other = AuthorHeads::default();
    other.insert(a(1), 7);
    other.insert(a(2), 2);
    other.insert(a(3), 0);
    h.merge(&other);
    if h.get(&a(1)) != Some(9) || h.get(&a(2)) != Some(2) || h.get(&a(3)) != Some(0) || h.len() != 3 {
        eprintln!("c13api: merge did not take every head of the other set / lowered a head: {h:?}");
        bad = true;
    }
    // the store's heads: two documents, two authors
    let mut store = Store::memory();
    let authors = [Author::from_bytes(&[111u8; 32]), Author::from_bytes(&[112u8; 32])];
    let docs = [NamespaceSecret::from_bytes(&[113u8; 32]), NamespaceSecret::from_bytes(&[114u8; 32])];
    for (d, ns) in docs.iter().enumerate() {
        let mut replica = store.new_replica(ns.clone()).unwrap();
        for (i, key) in [&b"k1"[..], b"k2", b"k3"].iter().enumerate() {
            if d == 1 && i == 2 {
                continue;
            }
            let (hh, l) = hash(key);
            block_on(replica.insert(key, &authors[i % 2], hh, l)).unwrap();
        }
        drop(replica);
        store.close_replica(ns.id());
    }
    for (d, ns) in docs.iter().enumerate() {
        let entries: Vec<_> = store.get_many(ns.id(), Query::all()).unwrap().map(|e| e.unwrap()).collect();
        let mut want: Vec<(AuthorId, u64)> = vec![];
        for au in authors.iter() {
            if let Some(t) = entries.iter().filter(|e| e.author() == au.id()).map(|e| e.timestamp()).max() {
                want.push((au.id(), t));
            }
        }
        want.sort();
        let mut got: Vec<(AuthorId, u64)> = store.get_latest_for_each_author(ns.id()).unwrap().map(|r| r.unwrap()).map(|(au, t, _k)| (au, t)).collect();
        got.sort();
        if got != want {
            eprintln!("c13api: document {d}: heads {:?}, expected {:?}", got.len(), want.len());
            bad = true;
        }
        // a peer reporting exactly our heads has no news; one newer / one unknown author is news for that many authors
        let mut same = AuthorHeads::default();
        for (au, t) in want.iter() {
            same.insert(*au, *t);
        }
        let mut newer = same.clone();
        newer.insert(want[0].0, want[0].1 + 1);
        newer.insert(a(200), 0);
        let n0 = store.has_news_for_us(ns.id(), &same).unwrap().map(|n| n.get()).unwrap_or(0);
        let n2 = store.has_news_for_us(ns.id(), &newer).unwrap().map(|n| n.get()).unwrap_or(0);
        if n0 != 0 || n2 != 2 {
            eprintln!("c13api: document {d}: news for an identical report: {n0} (expected 0), for one newer head and one unknown author: {n2} (expected 2)");
            bad = true;
        }
    }
    bad
}

/// C15 (query c15_filter_text): `filter.to_string().parse()` gives the filter back, for filters the solver's free
/// `str -> str` functions stand for (white space at either end, colons, upper case, non-UTF-8, empty).  true = defect manifests.
pub fn c15text() -> bool {
    use iroh_docs::store::FilterKind;
    let mut samples: Vec<Vec<u8>> = vec![
        b"".to_vec(), b" ".to_vec(), b"\n".to_vec(), b"notes ".to_vec(), b" notes".to_vec(), b"\tnotes\r\n".to_vec(), b"a b".to_vec(),
        b":".to_vec(), b"::".to_vec(), b"a:b".to_vec(), b":a".to_vec(), b"a:".to_vec(), b"utf8:".to_vec(), b"hex:00".to_vec(), b"prefix:utf8:x".to_vec(),
        b"ABC".to_vec(), b"aBc".to_vec(), b"0A".to_vec(), b"DEADBEEF".to_vec(), b"deadbeef".to_vec(), b"0".to_vec(), b"00".to_vec(),
        "\u{a0}x\u{a0}".as_bytes().to_vec(), "x\u{2003}".as_bytes().to_vec(), "\u{3000}".as_bytes().to_vec(), "\u{85}".as_bytes().to_vec(), "\u{feff}x".as_bytes().to_vec(), "ǅ".as_bytes().to_vec(), "ß".as_bytes().to_vec(),
        vec![0], vec![0, 0], vec![0x7f], vec![0xff], vec![0xff, 0x20], vec![0x20, 0xff], vec![0xc0, 0x80], vec![0xe2, 0x80], vec![b'a', 0xff, b':'], vec![0xff; 40],
        "\"quoted\"".as_bytes().to_vec(), b"\\".to_vec(), b"{}".to_vec(), b"{kind}".to_vec(), b"%s".to_vec(),
    ];
    for b in 0u8..=255 {
        samples.push(vec![b]);
        samples.push(vec![b'k', b]);
        samples.push(vec![b, b'k']);
    }
    let mut bad = false;
    for bytes in samples {
        for exact in [false, true] {
            let f = if exact { FilterKind::Exact(bytes.clone().into()) } else { FilterKind::Prefix(bytes.clone().into()) };
            let text = f.to_string();
            match text.parse::<FilterKind>() {
                Ok(g) if g == f => {}
                other => {
                    if !bad {
                        eprintln!("c15text: {f:?} -> {text:?} -> {other:?}");
                    }
                    bad = true;
                }
            }
        }
    }
    bad
}

pub fn run(id: &str) -> Option<bool> {
    Some(match id {
        "d2" => d2(),
        "c16hashes" => c16hashes(),
        "c13api" => c13api(),
        "c07imp" => c07imp(),
        "c06err" => c06err(),
        "c14gate" => c14gate(),
        "c16open" => c16open(),
        "c15text" => c15text(),
        "c07a" => c07a(),
        "d7" => d7(),
        "d4" => d4(),
        "d1" => d1(),
        "c17" => c17(),
        "c13enc" => c13enc(),
        "c13news" => c13news(),
        "c13newsus" => c13newsus(),
        "c05" => c05(),
        other => return iroh_docs::verif_incrate::witness::run(other),
    })
}
