//! usage: verif-replay <harness-name> <json: [[u8,..],..]>   (or: verif-replay --file replay.json)
//! prints one JSON object: {found, assumption_violated, draw_error, failed:[..], covered:[..], checks, panicked}
use std::panic;

mod witness;

/// A witness runs the real code on the scenario of a solver counterexample.  The witnesses themselves do not panic on the
/// unchanged tree (the quick checks of every registered query run them there); a panic raised while one runs therefore
/// comes from the code under test (an `expect`, an index, a debug assertion) and counts as the defect manifesting.
fn run_witness(ids: &str) -> Option<bool> {
    // several witnesses may be named (comma separated): the defect has to manifest in one of them
    let mut res = None;
    for id in ids.split(',') {
        match run_one_witness(id) {
            Some(true) => return Some(true),
            Some(false) => res = Some(false),
            None => return None,
        }
    }
    res
}

fn run_one_witness(id: &str) -> Option<bool> {
    let id2 = id.to_string();
    match panic::catch_unwind(move || witness::run(&id2)) {
        Ok(r) => r,
        Err(e) => {
            let msg = e.downcast_ref::<String>().cloned().or_else(|| e.downcast_ref::<&str>().map(|s| s.to_string())).unwrap_or_default();
            eprintln!("witness {id}: the code under test panicked: {msg}");
            Some(true)
        }
    }
}

fn main() {
    let args: Vec<String> = std::env::args().collect();
    if args.len() == 3 && args[1] == "--const" {
        // the value a constant has in the REAL build (asked by E3 queries that need a number the source spells in some way)
        match iroh_docs::verif_incrate::witness::constant(&args[2]) {
            Some(v) => {
                println!("{v}");
                std::process::exit(0)
            }
            None => std::process::exit(2),
        }
    }
    if args.len() == 3 && args[1] == "--witness" {
        match run_witness(&args[2]) {
            None => {
                eprintln!("unknown witness");
                std::process::exit(2)
            }
            Some(true) => {
                println!("witness {}: DEFECT MANIFESTS", args[2]);
                std::process::exit(1)
            }
            Some(false) => {
                println!("witness {}: ok (defect absent)", args[2]);
                std::process::exit(0)
            }
        }
    }
    let (name, vals_json): (String, serde_json::Value) = if args.len() == 3 && args[1] == "--file" {
        let v: serde_json::Value =
            serde_json::from_str(&std::fs::read_to_string(&args[2]).expect("read")).expect("json");
        if let Some(w) = v["witness"].as_str() {
            // a finding of an E3 query: its replay is the native witness program
            let hit = run_witness(w).unwrap_or(false);
            println!("{}", serde_json::json!({"witness": w, "failed": if hit { vec!["defect manifests"] } else { vec![] }}));
            return;
        }
        (
            v["harness"].as_str().expect("harness").to_string(),
            v["concrete_vals"].clone(),
        )
    } else if args.len() == 3 {
        (args[1].clone(), serde_json::from_str(&args[2]).expect("json"))
    } else {
        eprintln!("usage: verif-replay <harness> <json vals> | --file <replay.json>");
        std::process::exit(2);
    };
    let vals: Vec<Vec<u8>> = vals_json
        .as_array()
        .expect("array")
        .iter()
        .map(|v| {
            v.as_array()
                .expect("array")
                .iter()
                .map(|b| b.as_u64().expect("byte") as u8)
                .collect()
        })
        .collect();
    let name2 = name.clone();
    let res = panic::catch_unwind(move || iroh_docs::verif_incrate::replay(&name2, vals));
    let out = match res {
        Err(e) => {
            let msg = e
                .downcast_ref::<String>()
                .cloned()
                .or_else(|| e.downcast_ref::<&str>().map(|s| s.to_string()))
                .unwrap_or_default();
            serde_json::json!({"harness": name, "found": true, "panicked": true, "panic_message": msg,
                "assumption_violated": false, "draw_error": false, "failed": ["panic"], "covered": [], "checks": 0})
        }
        Ok(None) => serde_json::json!({"harness": name, "found": false}),
        Ok(Some(o)) => serde_json::json!({"harness": name, "found": true, "panicked": false,
            "assumption_violated": o.assumption_violated, "draw_error": o.draw_error,
            "failed": o.failed, "covered": o.covered, "checks": o.checks}),
    };
    println!("{}", out);
}
