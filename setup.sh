#!/bin/sh
# Build the verification framework from files on disk only (offline).
set -e
cd "$(dirname "$0")"
export CARGO_NET_OFFLINE=true
mkdir -p .work evidence
[ -f kani/Cargo.lock ] || cp /repo/Cargo.lock kani/Cargo.lock
[ -f replay/Cargo.lock ] || cp /repo/Cargo.lock replay/Cargo.lock
python3 lib/gen.py
# native replay binary (real redb, no stubs)
(cd replay && cargo build --offline --target-dir ../.work/replay-target)
# Kani build of /repo + harness crate (codegen of the probe harness only)
(cd kani && cargo kani -Z stubbing -Z unstable-options --target-dir ../.work/kani-target --only-codegen --exact --harness harnesses::zz_build_probe >/dev/null 2>&1 || cargo kani -Z stubbing -Z unstable-options --target-dir ../.work/kani-target --only-codegen --exact --harness harnesses::zz_build_probe)
echo setup ok
