#!/bin/sh
# run every seeded change that a registered check is expected to catch (development helper)
cd /verif
python3 - <<'PY' > .work/seed_cmds.txt
import json
for e in json.load(open('/verif/seeded/plan.json')):
    if e["only"]:
        print(e["id"], e["property"], e["only"])
PY
while read id prop only; do
  ./seed_test.sh $id $prop --only "$only"
done < .work/seed_cmds.txt
