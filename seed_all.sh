#!/bin/sh
# run every seeded change that a registered check is expected to catch (development helper)
cd /verif
python3 - <<'PY' > .work/seed_cmds.txt
import json, os
for e in json.load(open('/verif/seeded/plan.json')):
    if e.get("tier") == "thorough":
        continue
    if os.environ.get("SEED_FILTER") and not e["id"].startswith(os.environ["SEED_FILTER"]):
        continue
    prop = e.get("check", e["property"])
    if e.get("e3"):
        print(e["id"], prop, "--e3-only")
    elif e["only"]:
        print(e["id"], prop, "--only " + e["only"])
PY
while read id prop flag arg; do
  ./seed_test.sh $id $prop $flag $arg
done < .work/seed_cmds.txt
