use std::cmp::Ordering;
use std::convert::TryInto;
use std::fmt::Debug;
use std::mem::size_of;

#[derive(Eq, PartialEq, Clone, Debug)]
enum TypeClassification {
    Internal,
    UserDefined,
    // Used by variable width tuple encoding in version 3.0 and newer. This differentiates the encoding
    // from the old encoding used previously
    Internal2,
}

impl TypeClassification {
    fn to_byte(&self) -> u8 {
        match self {
            TypeClassification::Internal => 1,
            TypeClassification::UserDefined => 2,
            TypeClassification::Internal2 => 3,
        }
    }

    fn from_byte(value: u8) -> Self {
        match value {
            1 => TypeClassification::Internal,
            2 => TypeClassification::UserDefined,
            3 => TypeClassification::Internal2,
            _ => unreachable!(),
        }
    }
}

#[derive(Eq, PartialEq, Debug, Clone)]
pub struct TypeName {
    classification: TypeClassification,
    name: String,
}

impl TypeName {
    /// It is recommended that `name` be prefixed with the crate name to minimize the chance of
    /// it coliding with another user defined type
    pub fn new(name: &str) -> Self {
        Self {
            classification: TypeClassification::UserDefined,
            name: name.to_string(),
        }
    }

    pub(crate) fn internal(name: &str) -> Self {
        Self {
            classification: TypeClassification::Internal,
            name: name.to_string(),
        }
    }

    pub(crate) fn internal2(name: &str) -> Self {
        Self {
            classification: TypeClassification::Internal2,
            name: name.to_string(),
        }
    }

    pub(crate) fn to_bytes(&self) -> Vec<u8> {
        let mut result = Vec::with_capacity(self.name.len() + 1);
        result.push(self.classification.to_byte());
        result.extend_from_slice(self.name.as_bytes());
        result
    }

    pub(crate) fn from_bytes(bytes: &[u8]) -> Self {
        let classification = TypeClassification::from_byte(bytes[0]);
        let name = std::str::from_utf8(&bytes[1..]).unwrap().to_string();

        Self {
            classification,
            name,
        }
    }

    pub fn name(&self) -> &str {
        &self.name
    }
}

/// Types that implement this trait can be used as values in a redb table
pub trait Value: Debug {
    /// `SelfType<'a>` must be the same type as Self with all lifetimes replaced with 'a
    type SelfType<'a>: Debug + 'a
    where
        Self: 'a;

    type AsBytes<'a>: AsRef<[u8]> + 'a
    where
        Self: 'a;

    /// Width of a fixed type, or None for variable width
    fn fixed_width() -> Option<usize>;

    /// Deserializes data
    /// Implementations may return a view over data, or an owned type
    ///
    /// Note: Implementations may assume that `data` is the return value of `as_bytes(&v)` for some `v` of type `Self`.
    fn from_bytes<'a>(data: &'a [u8]) -> Self::SelfType<'a>
    where
        Self: 'a;

    /// Serialize the value to a slice
    ///
    /// Note: Implementations must ensure that `as_bytes()` and `from_bytes()` are inverses.
    /// Specifically, for any value `v` and `data` returned from `as_bytes(&v)`,
    /// `as_bytes(from_bytes(data))` must equal `data`.
    fn as_bytes<'a, 'b: 'a>(value: &'a Self::SelfType<'b>) -> Self::AsBytes<'a>
    where
        Self: 'b;

    /// Globally unique identifier for this type
    fn type_name() -> TypeName;
}

/// Implementing this trait indicates that the type can be mutated in-place as a &mut [u8].
/// This enables the `.insert_reserve()` method on Table
pub trait MutInPlaceValue: Value {
    /// The base type such that &mut [u8] can be safely transmuted to `&mut BaseRefType`
    type BaseRefType: Debug + ?Sized;

    /// Initialize `data` to a valid value. This method will be called (at some point, not necessarily immediately)
    /// before `from_bytes_mut()` is called on a slice.
    ///
    /// Note: There must exist a value `v` of type `Self` such that `as_bytes(&v)` equals `data`.
    fn initialize(data: &mut [u8]);

    fn from_bytes_mut(data: &mut [u8]) -> &mut Self::BaseRefType;
}

impl MutInPlaceValue for &[u8] {
    type BaseRefType = [u8];

    fn initialize(_data: &mut [u8]) {
        // no-op. All values are valid.
    }

    fn from_bytes_mut(data: &mut [u8]) -> &mut Self::BaseRefType {
        data
    }
}

/// Trait which allows the type to be used as a key in a redb table
pub trait Key: Value {
    /// Compare data1 with data2.
    ///
    /// The implementation must ensure there is a total order
    fn compare(data1: &[u8], data2: &[u8]) -> Ordering;
}

impl Value for () {
    type SelfType<'a>
        = ()
    where
        Self: 'a;
    type AsBytes<'a>
        = &'a [u8]
    where
        Self: 'a;

    fn fixed_width() -> Option<usize> {
        Some(0)
    }

    #[allow(clippy::unused_unit, clippy::semicolon_if_nothing_returned)]
    fn from_bytes<'a>(_data: &'a [u8]) -> ()
    where
        Self: 'a,
    {
        ()
    }

    #[allow(clippy::ignored_unit_patterns)]
    fn as_bytes<'a, 'b: 'a>(_: &'a Self::SelfType<'b>) -> &'a [u8]
    where
        Self: 'b,
    {
        &[]
    }

    fn type_name() -> TypeName {
        TypeName::internal("()")
    }
}

impl Key for () {
    fn compare(_data1: &[u8], _data2: &[u8]) -> Ordering {
        Ordering::Equal
    }
}

impl Value for bool {
    type SelfType<'a>
        = bool
    where
        Self: 'a;
    type AsBytes<'a>
        = &'a [u8]
    where
        Self: 'a;

    fn fixed_width() -> Option<usize> {
        Some(1)
    }

    fn from_bytes<'a>(data: &'a [u8]) -> bool
    where
        Self: 'a,
    {
        match data[0] {
            0 => false,
            1 => true,
            _ => unreachable!(),
        }
    }

    fn as_bytes<'a, 'b: 'a>(value: &'a Self::SelfType<'b>) -> &'a [u8]
    where
        Self: 'b,
    {
        match value {
            true => &[1],
            false => &[0],
        }
    }

    fn type_name() -> TypeName {
        TypeName::internal("bool")
    }
}

impl Key for bool {
    fn compare(data1: &[u8], data2: &[u8]) -> Ordering {
        let value1 = Self::from_bytes(data1);
        let value2 = Self::from_bytes(data2);
        value1.cmp(&value2)
    }
}

impl<T: Value> Value for Option<T> {
    type SelfType<'a>
        = Option<T::SelfType<'a>>
    where
        Self: 'a;
    type AsBytes<'a>
        = Vec<u8>
    where
        Self: 'a;

    fn fixed_width() -> Option<usize> {
        T::fixed_width().map(|x| x + 1)
    }

    fn from_bytes<'a>(data: &'a [u8]) -> Option<T::SelfType<'a>>
    where
        Self: 'a,
    {
        match data[0] {
            0 => None,
            1 => Some(T::from_bytes(&data[1..])),
            _ => unreachable!(),
        }
    }

    fn as_bytes<'a, 'b: 'a>(value: &'a Self::SelfType<'b>) -> Vec<u8>
    where
        Self: 'b,
    {
        let mut result = vec![0];
        if let Some(x) = value {
            result[0] = 1;
            result.extend_from_slice(T::as_bytes(x).as_ref());
        } else if let Some(fixed_width) = T::fixed_width() {
            result.extend_from_slice(&vec![0; fixed_width]);
        }
        result
    }

    fn type_name() -> TypeName {
        TypeName::internal(&format!("Option<{}>", T::type_name().name()))
    }
}

impl<T: Key> Key for Option<T> {
    #[allow(clippy::collapsible_else_if)]
    fn compare(data1: &[u8], data2: &[u8]) -> Ordering {
        if data1[0] == 0 {
            if data2[0] == 0 {
                Ordering::Equal
            } else {
                Ordering::Less
            }
        } else {
            if data2[0] == 0 {
                Ordering::Greater
            } else {
                T::compare(&data1[1..], &data2[1..])
            }
        }
    }
}

impl Value for &[u8] {
    type SelfType<'a>
        = &'a [u8]
    where
        Self: 'a;
    type AsBytes<'a>
        = &'a [u8]
    where
        Self: 'a;

    fn fixed_width() -> Option<usize> {
        None
    }

    fn from_bytes<'a>(data: &'a [u8]) -> &'a [u8]
    where
        Self: 'a,
    {
        data
    }

    fn as_bytes<'a, 'b: 'a>(value: &'a Self::SelfType<'b>) -> &'a [u8]
    where
        Self: 'b,
    {
        value
    }

    fn type_name() -> TypeName {
        TypeName::internal("&[u8]")
    }
}

impl Key for &[u8] {
    fn compare(data1: &[u8], data2: &[u8]) -> Ordering {
        data1.cmp(data2)
    }
}

impl<const N: usize> Value for &[u8; N] {
    type SelfType<'a>
        = &'a [u8; N]
    where
        Self: 'a;
    type AsBytes<'a>
        = &'a [u8; N]
    where
        Self: 'a;

    fn fixed_width() -> Option<usize> {
        Some(N)
    }

    fn from_bytes<'a>(data: &'a [u8]) -> &'a [u8; N]
    where
        Self: 'a,
    {
        data.try_into().unwrap()
    }

    fn as_bytes<'a, 'b: 'a>(value: &'a Self::SelfType<'b>) -> &'a [u8; N]
    where
        Self: 'b,
    {
        value
    }

    fn type_name() -> TypeName {
        TypeName::internal(&format!("[u8;{N}]"))
    }
}

impl<const N: usize> Key for &[u8; N] {
    fn compare(data1: &[u8], data2: &[u8]) -> Ordering {
        data1.cmp(data2)
    }
}

impl<const N: usize, T: Value> Value for [T; N] {
    type SelfType<'a>
        = [T::SelfType<'a>; N]
    where
        Self: 'a;
    type AsBytes<'a>
        = Vec<u8>
    where
        Self: 'a;

    fn fixed_width() -> Option<usize> {
        T::fixed_width().map(|x| x * N)
    }

    fn from_bytes<'a>(data: &'a [u8]) -> [T::SelfType<'a>; N]
    where
        Self: 'a,
    {
        let mut result = Vec::with_capacity(N);
        if let Some(fixed) = T::fixed_width() {
            for i in 0..N {
                result.push(T::from_bytes(&data[fixed * i..fixed * (i + 1)]));
            }
        } else {
            // Set offset to the first data item
            let mut start = size_of::<u32>() * N;
            for i in 0..N {
                let range = size_of::<u32>() * i..size_of::<u32>() * (i + 1);
                let end = u32::from_le_bytes(data[range].try_into().unwrap()) as usize;
                result.push(T::from_bytes(&data[start..end]));
                start = end;
            }
        }
        result.try_into().unwrap()
    }

    fn as_bytes<'a, 'b: 'a>(value: &'a Self::SelfType<'b>) -> Vec<u8>
    where
        Self: 'b,
    {
        if let Some(fixed) = T::fixed_width() {
            let mut result = Vec::with_capacity(fixed * N);
            for item in value {
                result.extend_from_slice(T::as_bytes(item).as_ref());
            }
            result
        } else {
            // Reserve space for the end offsets
            let mut result = vec![0u8; size_of::<u32>() * N];
            for i in 0..N {
                result.extend_from_slice(T::as_bytes(&value[i]).as_ref());
                let end: u32 = result.len().try_into().unwrap();
                result[size_of::<u32>() * i..size_of::<u32>() * (i + 1)]
                    .copy_from_slice(&end.to_le_bytes());
            }
            result
        }
    }

    fn type_name() -> TypeName {
        // Uses the same type name as [T;N] so that tables are compatible with [u8;N] and &[u8;N] types
        // This requires that the binary encoding be the same
        TypeName::internal(&format!("[{};{N}]", T::type_name().name()))
    }
}

impl<const N: usize, T: Key> Key for [T; N] {
    fn compare(data1: &[u8], data2: &[u8]) -> Ordering {
        if let Some(fixed) = T::fixed_width() {
            for i in 0..N {
                let range = fixed * i..fixed * (i + 1);
                let comparison = T::compare(&data1[range.clone()], &data2[range]);
                if !comparison.is_eq() {
                    return comparison;
                }
            }
        } else {
            // Set offset to the first data item
            let mut start1 = size_of::<u32>() * N;
            let mut start2 = size_of::<u32>() * N;
            for i in 0..N {
                let range = size_of::<u32>() * i..size_of::<u32>() * (i + 1);
                let end1 = u32::from_le_bytes(data1[range.clone()].try_into().unwrap()) as usize;
                let end2 = u32::from_le_bytes(data2[range].try_into().unwrap()) as usize;
                let comparison = T::compare(&data1[start1..end1], &data2[start2..end2]);
                if !comparison.is_eq() {
                    return comparison;
                }
                start1 = end1;
                start2 = end2;
            }
        }
        Ordering::Equal
    }
}

impl Value for &str {
    type SelfType<'a>
        = &'a str
    where
        Self: 'a;
    type AsBytes<'a>
        = &'a str
    where
        Self: 'a;

    fn fixed_width() -> Option<usize> {
        None
    }

    fn from_bytes<'a>(data: &'a [u8]) -> &'a str
    where
        Self: 'a,
    {
        std::str::from_utf8(data).unwrap()
    }

    fn as_bytes<'a, 'b: 'a>(value: &'a Self::SelfType<'b>) -> &'a str
    where
        Self: 'b,
    {
        value
    }

    fn type_name() -> TypeName {
        TypeName::internal("&str")
    }
}

impl Key for &str {
    fn compare(data1: &[u8], data2: &[u8]) -> Ordering {
        let str1 = Self::from_bytes(data1);
        let str2 = Self::from_bytes(data2);
        str1.cmp(str2)
    }
}

impl Value for String {
    type SelfType<'a>
        = String
    where
        Self: 'a;
    type AsBytes<'a>
        = &'a str
    where
        Self: 'a;

    fn fixed_width() -> Option<usize> {
        None
    }

    fn from_bytes<'a>(data: &'a [u8]) -> String
    where
        Self: 'a,
    {
        std::str::from_utf8(data).unwrap().to_string()
    }

    fn as_bytes<'a, 'b: 'a>(value: &'a Self::SelfType<'b>) -> &'a str
    where
        Self: 'b,
    {
        value.as_str()
    }

    fn type_name() -> TypeName {
        TypeName::internal("String")
    }
}

impl Key for String {
    fn compare(data1: &[u8], data2: &[u8]) -> Ordering {
        let str1 = std::str::from_utf8(data1).unwrap();
        let str2 = std::str::from_utf8(data2).unwrap();
        str1.cmp(str2)
    }
}

impl Value for char {
    type SelfType<'a> = char;
    type AsBytes<'a>
        = [u8; 3]
    where
        Self: 'a;

    fn fixed_width() -> Option<usize> {
        Some(3)
    }

    fn from_bytes<'a>(data: &'a [u8]) -> char
    where
        Self: 'a,
    {
        char::from_u32(u32::from_le_bytes([data[0], data[1], data[2], 0])).unwrap()
    }

    fn as_bytes<'a, 'b: 'a>(value: &'a Self::SelfType<'b>) -> [u8; 3]
    where
        Self: 'b,
    {
        let bytes = u32::from(*value).to_le_bytes();
        [bytes[0], bytes[1], bytes[2]]
    }

    fn type_name() -> TypeName {
        TypeName::internal(stringify!(char))
    }
}

impl Key for char {
    fn compare(data1: &[u8], data2: &[u8]) -> Ordering {
        Self::from_bytes(data1).cmp(&Self::from_bytes(data2))
    }
}

macro_rules! le_value {
    ($t:ty) => {
        impl Value for $t {
            type SelfType<'a> = $t;
            type AsBytes<'a>
                = [u8; std::mem::size_of::<$t>()]
            where
                Self: 'a;

            fn fixed_width() -> Option<usize> {
                Some(std::mem::size_of::<$t>())
            }

            fn from_bytes<'a>(data: &'a [u8]) -> $t
            where
                Self: 'a,
            {
                <$t>::from_le_bytes(data.try_into().unwrap())
            }

            fn as_bytes<'a, 'b: 'a>(
                value: &'a Self::SelfType<'b>,
            ) -> [u8; std::mem::size_of::<$t>()]
            where
                Self: 'a,
                Self: 'b,
            {
                value.to_le_bytes()
            }

            fn type_name() -> TypeName {
                TypeName::internal(stringify!($t))
            }
        }
    };
}

macro_rules! le_impl {
    ($t:ty) => {
        le_value!($t);

        impl Key for $t {
            fn compare(data1: &[u8], data2: &[u8]) -> Ordering {
                Self::from_bytes(data1).cmp(&Self::from_bytes(data2))
            }
        }
    };
}

le_impl!(u8);
le_impl!(u16);
le_impl!(u32);
le_impl!(u64);
le_impl!(u128);
le_impl!(i8);
le_impl!(i16);
le_impl!(i32);
le_impl!(i64);
le_impl!(i128);
le_value!(f32);
le_value!(f64);
