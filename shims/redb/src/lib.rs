//! Model of redb 4.1 for symbolic execution (DESIGN.md §3.4, engine E2).
//!
//! redb's own *type layer* is kept verbatim (`types.rs`, `tuple_types.rs`, `complex_types.rs`
//! copied from redb 4.1.0: the `Key`/`Value`/`TypeName` traits, the (de)serialisation of
//! `&[u8; N]`, `&[u8]`, `u64`, `()`, tuples, and every `compare` function), so key order, tuple
//! layout and value decoding are redb's real code.  Everything below it (pager, B-tree, checksums,
//! file back ends) is replaced by: a table = a sorted fixed-capacity array of serialised key/value
//! byte rows, ordered with the table's own `K::compare`; a database = the committed state;
//! `begin_write` copies the committed state into the transaction, `commit` replaces it, dropping
//! a `WriteTransaction` discards it; `begin_read` snapshots the committed state.
//!
//! Only the API subset used by iroh-docs is provided.  Capacity is bounded (`CAP` rows per table,
//! `KMAX`/`VMAX` bytes per key/value): exceeding it is `StorageError::ModelCapacity`, which the
//! harnesses treat as "outside the bound" (never as a finding).
#![allow(clippy::all, dead_code)]

use std::borrow::Borrow;
use std::cell::UnsafeCell;
use std::cmp::Ordering;
use std::fmt::{self, Debug, Display};
use std::marker::PhantomData;
use std::ops::{Bound, RangeBounds};

mod complex_types;
mod tuple_types;
mod types;

pub use types::{Key, MutInPlaceValue, TypeName, Value};

pub type Result<T = (), E = StorageError> = std::result::Result<T, E>;

/// max serialised key / value length, rows per table, tables per database
pub const KMAX: usize = 72;
pub const VMAX: usize = 184;
pub const CAP: usize = 4;
pub const NTABLES: usize = 8;

// ------------------------------------------------------------------------------------------
// errors (slim: no io::Error payloads)
// ------------------------------------------------------------------------------------------

macro_rules! err_enum {
    ($name:ident { $($v:ident $( ( $t:ty ) )? ),* $(,)? }) => {
        #[derive(Debug)]
        #[non_exhaustive]
        pub enum $name { $($v $( ($t) )? ),* }
        impl Display for $name {
            fn fmt(&self, f: &mut fmt::Formatter<'_>) -> fmt::Result {
                f.write_str(concat!("redb model error: ", stringify!($name)))
            }
        }
        impl std::error::Error for $name {}
    };
}

err_enum!(StorageError { Corrupted, ValueTooLarge(usize), ModelCapacity, DatabaseClosed });
err_enum!(TableError {
    TableTypeMismatch,
    TableIsMultimap,
    TableIsNotMultimap,
    TableDoesNotExist,
    TableAlreadyOpen,
    Storage(StorageError),
});
err_enum!(TransactionError { Storage(StorageError), ReadTransactionStillInUse });
err_enum!(CommitError { Storage(StorageError) });
err_enum!(DatabaseError { DatabaseAlreadyOpen, RepairAborted, UpgradeRequired(u8), Storage(StorageError) });
err_enum!(CompactionError { Storage(StorageError) });
err_enum!(SavepointError { InvalidSavepoint, Storage(StorageError) });
err_enum!(SetDurabilityError { PersistentSavepointModified });
err_enum!(Error { Storage(StorageError), Table(TableError), Transaction(TransactionError), Commit(CommitError), Database(DatabaseError) });

impl From<StorageError> for TableError {
    fn from(e: StorageError) -> Self {
        TableError::Storage(e)
    }
}
impl From<StorageError> for TransactionError {
    fn from(e: StorageError) -> Self {
        TransactionError::Storage(e)
    }
}
impl From<StorageError> for CommitError {
    fn from(e: StorageError) -> Self {
        CommitError::Storage(e)
    }
}
impl From<StorageError> for DatabaseError {
    fn from(e: StorageError) -> Self {
        DatabaseError::Storage(e)
    }
}
impl From<StorageError> for Error {
    fn from(e: StorageError) -> Self {
        Error::Storage(e)
    }
}
impl From<TableError> for Error {
    fn from(e: TableError) -> Self {
        Error::Table(e)
    }
}
impl From<TransactionError> for Error {
    fn from(e: TransactionError) -> Self {
        Error::Transaction(e)
    }
}
impl From<CommitError> for Error {
    fn from(e: CommitError) -> Self {
        Error::Commit(e)
    }
}
impl From<DatabaseError> for Error {
    fn from(e: DatabaseError) -> Self {
        Error::Database(e)
    }
}

// ------------------------------------------------------------------------------------------
// state
// ------------------------------------------------------------------------------------------

#[derive(Clone, Copy)]
pub struct Row {
    klen: usize,
    vlen: usize,
    k: [u8; KMAX],
    v: [u8; VMAX],
}

const EMPTY_ROW: Row = Row { klen: 0, vlen: 0, k: [0; KMAX], v: [0; VMAX] };

impl Row {
    fn key(&self) -> &[u8] {
        &self.k[..self.klen]
    }
    fn val(&self) -> &[u8] {
        &self.v[..self.vlen]
    }
    fn new(k: &[u8], v: &[u8]) -> Result<Row> {
        if k.len() > KMAX || v.len() > VMAX {
            return Err(StorageError::ModelCapacity);
        }
        let mut r = EMPTY_ROW;
        r.klen = k.len();
        r.vlen = v.len();
        r.k[..k.len()].copy_from_slice(k);
        r.v[..v.len()].copy_from_slice(v);
        Ok(r)
    }
}

/// One table: rows `[0, n)` are valid and sorted (by key; multimap: by key, then value).
#[derive(Clone, Copy)]
pub struct TableData {
    /// FNV-1a of the table name (0 = unused slot); lookups compare integers, not strings
    id: u64,
    name: Option<&'static str>,
    multimap: bool,
    n: usize,
    rows: [Row; CAP],
}

const EMPTY_TABLE: TableData = TableData { id: 0, name: None, multimap: false, n: 0, rows: [EMPTY_ROW; CAP] };

impl TableData {
    fn remove_at(&mut self, i: usize) -> Row {
        let r = self.rows[i];
        let mut j = i;
        while j + 1 < self.n {
            self.rows[j] = self.rows[j + 1];
            j += 1;
        }
        self.n -= 1;
        r
    }
    fn insert_at(&mut self, i: usize, row: Row) -> Result {
        if self.n >= CAP {
            return Err(StorageError::ModelCapacity);
        }
        let mut j = self.n;
        while j > i {
            self.rows[j] = self.rows[j - 1];
            j -= 1;
        }
        self.rows[i] = row;
        self.n += 1;
        Ok(())
    }
}

#[derive(Clone, Copy)]
pub struct State {
    tables: [TableData; NTABLES],
}

const EMPTY_STATE: State = State { tables: [EMPTY_TABLE; NTABLES] };

/// FNV-1a (const): identifies a table by name without string comparisons at run time
pub const fn name_id(name: &str) -> u64 {
    let b = name.as_bytes();
    let mut h: u64 = 0xcbf29ce484222325;
    let mut i = 0;
    while i < b.len() {
        h ^= b[i] as u64;
        h = h.wrapping_mul(0x100000001b3);
        i += 1;
    }
    if h == 0 {
        1
    } else {
        h
    }
}

impl State {
    fn find(&self, id: u64) -> Option<usize> {
        let mut i = 0;
        while i < NTABLES {
            if self.tables[i].id == id {
                return Some(i);
            }
            i += 1;
        }
        None
    }
    fn find_or_create(&mut self, id: u64, name: &'static str, multimap: bool) -> std::result::Result<usize, TableError> {
        if let Some(i) = self.find(id) {
            if self.tables[i].multimap != multimap {
                return Err(if multimap { TableError::TableIsNotMultimap } else { TableError::TableIsMultimap });
            }
            return Ok(i);
        }
        let mut i = 0;
        while i < NTABLES {
            if self.tables[i].id == 0 {
                self.tables[i] = EMPTY_TABLE;
                self.tables[i].id = id;
                self.tables[i].name = Some(name);
                self.tables[i].multimap = multimap;
                return Ok(i);
            }
            i += 1;
        }
        Err(TableError::Storage(StorageError::ModelCapacity))
    }
}

/// All database states live in a static arena (typed static objects are what CBMC handles best:
/// heap allocations are untyped byte arrays, and an 8 KB state behind `Arc`/`self_cell` makes every
/// field access a byte-extract over the whole allocation).  Slots are handed out by a bump
/// counter and never reused; running out of slots is `StorageError::ModelCapacity`.
pub const NSLOTS: usize = 16;
static mut ARENA: [State; NSLOTS] = [EMPTY_STATE; NSLOTS];
static mut OPEN: [[bool; NTABLES]; NSLOTS] = [[false; NTABLES]; NSLOTS];
static mut NEXT_SLOT: usize = 0;

#[allow(static_mut_refs)]
fn alloc_slot() -> Result<usize> {
    unsafe {
        if NEXT_SLOT >= NSLOTS {
            return Err(StorageError::ModelCapacity);
        }
        let s = NEXT_SLOT;
        NEXT_SLOT += 1;
        ARENA[s] = EMPTY_STATE;
        OPEN[s] = [false; NTABLES];
        Ok(s)
    }
}

#[allow(static_mut_refs)]
fn st(slot: usize) -> &'static mut State {
    unsafe { &mut ARENA[slot] }
}

#[allow(static_mut_refs)]
fn open_flags(slot: usize) -> &'static mut [bool; NTABLES] {
    unsafe { &mut OPEN[slot] }
}

/// MODEL ONLY: forget all databases (start of a harness / of a native differential run).
#[allow(static_mut_refs)]
pub fn verif_reset_arena() {
    unsafe {
        NEXT_SLOT = 0;
    }
}

struct Shared<T>(UnsafeCell<T>);
// The model is used single-threaded (Kani, and the native differential validation).
unsafe impl<T> Send for Shared<T> {}
unsafe impl<T> Sync for Shared<T> {}
impl<T> Shared<T> {
    #[allow(clippy::mut_from_ref)]
    fn get(&self) -> &mut T {
        unsafe { &mut *self.0.get() }
    }
}

// ------------------------------------------------------------------------------------------
// definitions, handles
// ------------------------------------------------------------------------------------------

pub trait TableHandle {
    fn name(&self) -> &str;
}
pub trait MultimapTableHandle {
    fn name(&self) -> &str;
}

pub struct TableDefinition<'a, K: Key + 'static, V: Value + 'static> {
    id: u64,
    name: &'a str,
    _p: PhantomData<(K, V)>,
}
impl<'a, K: Key + 'static, V: Value + 'static> TableDefinition<'a, K, V> {
    pub const fn new(name: &'a str) -> Self {
        assert!(!name.is_empty());
        Self { id: name_id(name), name, _p: PhantomData }
    }
}
impl<K: Key + 'static, V: Value + 'static> TableHandle for TableDefinition<'_, K, V> {
    fn name(&self) -> &str {
        self.name
    }
}
impl<K: Key + 'static, V: Value + 'static> Clone for TableDefinition<'_, K, V> {
    fn clone(&self) -> Self {
        *self
    }
}
impl<K: Key + 'static, V: Value + 'static> Copy for TableDefinition<'_, K, V> {}
impl<K: Key + 'static, V: Value + 'static> Display for TableDefinition<'_, K, V> {
    fn fmt(&self, f: &mut fmt::Formatter<'_>) -> fmt::Result {
        f.write_str(self.name)
    }
}

pub struct MultimapTableDefinition<'a, K: Key + 'static, V: Key + 'static> {
    id: u64,
    name: &'a str,
    _p: PhantomData<(K, V)>,
}
impl<'a, K: Key + 'static, V: Key + 'static> MultimapTableDefinition<'a, K, V> {
    pub const fn new(name: &'a str) -> Self {
        assert!(!name.is_empty());
        Self { id: name_id(name), name, _p: PhantomData }
    }
}
impl<K: Key + 'static, V: Key + 'static> MultimapTableHandle for MultimapTableDefinition<'_, K, V> {
    fn name(&self) -> &str {
        self.name
    }
}
impl<K: Key + 'static, V: Key + 'static> Clone for MultimapTableDefinition<'_, K, V> {
    fn clone(&self) -> Self {
        *self
    }
}
impl<K: Key + 'static, V: Key + 'static> Copy for MultimapTableDefinition<'_, K, V> {}

pub struct UntypedTableHandle {
    name: &'static str,
}
impl TableHandle for UntypedTableHandle {
    fn name(&self) -> &str {
        self.name
    }
}
pub struct UntypedMultimapTableHandle {
    name: &'static str,
}
impl MultimapTableHandle for UntypedMultimapTableHandle {
    fn name(&self) -> &str {
        self.name
    }
}

// ------------------------------------------------------------------------------------------
// database
// ------------------------------------------------------------------------------------------

pub mod backends {
    #[derive(Debug, Default)]
    pub struct InMemoryBackend;
    impl InMemoryBackend {
        pub fn new() -> Self {
            InMemoryBackend
        }
    }
    impl super::StorageBackend for InMemoryBackend {}
}

pub trait StorageBackend: 'static + Debug + Send + Sync {}

pub struct Database {
    committed: usize,
}
impl Debug for Database {
    fn fmt(&self, f: &mut fmt::Formatter<'_>) -> fmt::Result {
        f.write_str("Database(model)")
    }
}

pub struct Builder;
impl Builder {
    pub fn new() -> Self {
        Builder
    }
    pub fn create_with_backend(&self, _backend: impl StorageBackend) -> std::result::Result<Database, DatabaseError> {
        Ok(Database { committed: alloc_slot()? })
    }
}

pub trait ReadableDatabase {
    fn begin_read(&self) -> std::result::Result<ReadTransaction, TransactionError>;
}

impl Database {
    pub fn builder() -> Builder {
        Builder
    }
    pub fn begin_write(&self) -> std::result::Result<WriteTransaction, TransactionError> {
        let slot = alloc_slot()?;
        *st(slot) = *st(self.committed);
        Ok(WriteTransaction { db: self.committed, slot })
    }
    /// MODEL ONLY: "kill the process and reopen the file" = a new database holding the last
    /// committed state (redb's crash recovery is trusted, cf. property C06).
    pub fn verif_crash_image(&self) -> Database {
        let slot = alloc_slot().expect("model capacity");
        *st(slot) = *st(self.committed);
        Database { committed: slot }
    }
}
impl ReadableDatabase for Database {
    fn begin_read(&self) -> std::result::Result<ReadTransaction, TransactionError> {
        let slot = alloc_slot()?;
        *st(slot) = *st(self.committed);
        Ok(ReadTransaction { slot })
    }
}

// ------------------------------------------------------------------------------------------
// transactions
// ------------------------------------------------------------------------------------------

pub struct WriteTransaction {
    db: usize,
    slot: usize,
}

impl WriteTransaction {
    /// durability is not modelled (every commit of the model is "durable"); present so that code using it compiles
    pub fn set_durability(&mut self, _durability: Durability) -> std::result::Result<(), SetDurabilityError> {
        Ok(())
    }
    pub fn open_table<'txn, K: Key + 'static, V: Value + 'static>(
        &'txn self,
        definition: TableDefinition<K, V>,
    ) -> std::result::Result<Table<'txn, K, V>, TableError> {
        // names of table definitions are 'static in every caller; keep them as such
        let name: &'static str = unsafe { std::mem::transmute::<&str, &'static str>(definition.name) };
        let idx = st(self.slot).find_or_create(definition.id, name, false)?;
        if open_flags(self.slot)[idx] {
            return Err(TableError::TableAlreadyOpen);
        }
        open_flags(self.slot)[idx] = true;
        Ok(Table { slot: self.slot, idx, _p: PhantomData })
    }
    pub fn open_multimap_table<'txn, K: Key + 'static, V: Key + 'static>(
        &'txn self,
        definition: MultimapTableDefinition<K, V>,
    ) -> std::result::Result<MultimapTable<'txn, K, V>, TableError> {
        let name: &'static str = unsafe { std::mem::transmute::<&str, &'static str>(definition.name) };
        let idx = st(self.slot).find_or_create(definition.id, name, true)?;
        if open_flags(self.slot)[idx] {
            return Err(TableError::TableAlreadyOpen);
        }
        open_flags(self.slot)[idx] = true;
        Ok(MultimapTable { slot: self.slot, idx, _p: PhantomData })
    }
    pub fn delete_table(&self, definition: impl TableHandle) -> std::result::Result<bool, TableError> {
        let st = st(self.slot);
        match st.find(name_id(definition.name())) {
            None => Ok(false),
            Some(i) => {
                if open_flags(self.slot)[i] {
                    return Err(TableError::TableAlreadyOpen);
                }
                if st.tables[i].multimap {
                    return Err(TableError::TableIsMultimap);
                }
                st.tables[i] = EMPTY_TABLE;
                Ok(true)
            }
        }
    }
    pub fn list_tables(&self) -> Result<impl Iterator<Item = UntypedTableHandle> + '_> {
        Ok(TableNames { st: st(self.slot), i: 0, multimap: false }.map(|name| UntypedTableHandle { name }))
    }
    pub fn list_multimap_tables(&self) -> Result<impl Iterator<Item = UntypedMultimapTableHandle> + '_> {
        Ok(TableNames { st: st(self.slot), i: 0, multimap: true }.map(|name| UntypedMultimapTableHandle { name }))
    }
    pub fn commit(self) -> std::result::Result<(), CommitError> {
        *st(self.db) = *st(self.slot);
        Ok(())
    }
    pub fn abort(self) -> Result {
        Ok(())
    }
}

struct TableNames<'a> {
    st: &'a State,
    i: usize,
    multimap: bool,
}
impl Iterator for TableNames<'_> {
    type Item = &'static str;
    fn next(&mut self) -> Option<&'static str> {
        while self.i < NTABLES {
            let t = &self.st.tables[self.i];
            self.i += 1;
            if t.multimap == self.multimap {
                if let Some(n) = t.name {
                    return Some(n);
                }
            }
        }
        None
    }
}

pub struct ReadTransaction {
    slot: usize,
}

impl ReadTransaction {
    pub fn open_table<K: Key + 'static, V: Value + 'static>(
        &self,
        definition: TableDefinition<K, V>,
    ) -> std::result::Result<ReadOnlyTable<K, V>, TableError> {
        match st(self.slot).find(definition.id) {
            None => Err(TableError::TableDoesNotExist),
            Some(idx) => {
                if st(self.slot).tables[idx].multimap {
                    return Err(TableError::TableIsMultimap);
                }
                Ok(ReadOnlyTable { slot: self.slot, idx, _p: PhantomData })
            }
        }
    }
    pub fn open_multimap_table<K: Key + 'static, V: Key + 'static>(
        &self,
        definition: MultimapTableDefinition<K, V>,
    ) -> std::result::Result<ReadOnlyMultimapTable<K, V>, TableError> {
        match st(self.slot).find(definition.id) {
            None => Err(TableError::TableDoesNotExist),
            Some(idx) => {
                if !st(self.slot).tables[idx].multimap {
                    return Err(TableError::TableIsNotMultimap);
                }
                Ok(ReadOnlyMultimapTable { slot: self.slot, idx, _p: PhantomData })
            }
        }
    }
    pub fn close(self) -> std::result::Result<(), TransactionError> {
        Ok(())
    }
}

// ------------------------------------------------------------------------------------------
// guards
// ------------------------------------------------------------------------------------------

/// Owns a copy of the serialised bytes; `value()` decodes with the type's own `from_bytes`.
pub struct AccessGuard<'a, V: Value + 'static> {
    len: usize,
    buf: [u8; VMAX],
    _p: PhantomData<(&'a (), V)>,
}

impl<'a, V: Value + 'static> AccessGuard<'a, V> {
    fn new(bytes: &[u8]) -> Self {
        let mut buf = [0u8; VMAX];
        buf[..bytes.len()].copy_from_slice(bytes);
        AccessGuard { len: bytes.len(), buf, _p: PhantomData }
    }
    pub fn value(&self) -> V::SelfType<'_> {
        V::from_bytes(&self.buf[..self.len])
    }
    /// MODEL ONLY: a guard over the serialisation of `value` (for harness-defined `ReadableTable`s)
    pub fn verif_from_value<'v>(value: impl Borrow<V::SelfType<'v>>) -> Self {
        let b = V::as_bytes(value.borrow());
        Self::new(b.as_ref())
    }
}

impl<K: Key + 'static, V: Value + 'static> Range<'static, K, V> {
    /// MODEL ONLY: an empty range (for harness-defined `ReadableTable`s that do not support scans)
    pub fn verif_empty() -> Self {
        Range { data: EMPTY_TABLE, front: 0, back: 0, _p: PhantomData }
    }
}

pub struct AccessGuardMut<'a, V: Value + 'static>(PhantomData<(&'a (), V)>);
pub struct AccessGuardMutInPlace<'a, V: Value + 'static>(PhantomData<(&'a (), V)>);
pub struct Savepoint;
#[derive(Debug, Default)]
pub struct TableStats;
#[derive(Debug, Default)]
pub struct DatabaseStats;
#[derive(Debug, Default)]
pub struct CacheStats;
#[derive(Debug, Clone, Copy)]
pub enum Durability {
    None,
    Immediate,
}

// ------------------------------------------------------------------------------------------
// lookups shared by all table flavours
// ------------------------------------------------------------------------------------------

/// index of the row with this key, or where it would be inserted
fn lower_bound<K: Key>(t: &TableData, key: &[u8]) -> (usize, bool) {
    let mut i = 0;
    while i < t.n {
        match K::compare(t.rows[i].key(), key) {
            Ordering::Less => {}
            Ordering::Equal => return (i, true),
            Ordering::Greater => return (i, false),
        }
        i += 1;
    }
    (i, false)
}

/// `[lo, hi)` row window of a key range
fn window<'a, K: Key + 'static, KR>(t: &TableData, range: &impl RangeBounds<KR>) -> (usize, usize)
where
    KR: Borrow<K::SelfType<'a>>,
{
    let lo = match range.start_bound() {
        Bound::Unbounded => 0,
        Bound::Included(k) => {
            let kb = K::as_bytes(k.borrow());
            lower_bound::<K>(t, kb.as_ref()).0
        }
        Bound::Excluded(k) => {
            let kb = K::as_bytes(k.borrow());
            let (i, found) = lower_bound::<K>(t, kb.as_ref());
            if found {
                i + 1
            } else {
                i
            }
        }
    };
    let hi = match range.end_bound() {
        Bound::Unbounded => t.n,
        Bound::Excluded(k) => {
            let kb = K::as_bytes(k.borrow());
            lower_bound::<K>(t, kb.as_ref()).0
        }
        Bound::Included(k) => {
            let kb = K::as_bytes(k.borrow());
            let (i, found) = lower_bound::<K>(t, kb.as_ref());
            if found {
                i + 1
            } else {
                i
            }
        }
    };
    if hi < lo {
        (lo, lo)
    } else {
        (lo, hi)
    }
}

fn get_in<'g, K: Key + 'static, V: Value + 'static>(t: &TableData, key: &[u8]) -> Option<AccessGuard<'g, V>> {
    let (i, found) = lower_bound::<K>(t, key);
    if found {
        Some(AccessGuard::new(t.rows[i].val()))
    } else {
        None
    }
}

// ------------------------------------------------------------------------------------------
// Range
// ------------------------------------------------------------------------------------------

/// Double-ended iterator over a snapshot (copy) of the rows in the window.
pub struct Range<'a, K: Key + 'static, V: Value + 'static> {
    data: TableData,
    front: usize,
    back: usize,
    _p: PhantomData<(&'a (), K, V)>,
}

impl<'a, K: Key + 'static, V: Value + 'static> Range<'a, K, V> {
    fn new(t: &TableData, lo: usize, hi: usize) -> Self {
        Range { data: *t, front: lo, back: hi, _p: PhantomData }
    }
}
impl<K: Key + 'static, V: Value + 'static> Clone for Range<'_, K, V> {
    fn clone(&self) -> Self {
        Range { data: self.data, front: self.front, back: self.back, _p: PhantomData }
    }
}

impl<'a, K: Key + 'static, V: Value + 'static> Iterator for Range<'a, K, V> {
    type Item = Result<(AccessGuard<'a, K>, AccessGuard<'a, V>)>;
    fn next(&mut self) -> Option<Self::Item> {
        if self.front >= self.back {
            return None;
        }
        let r = &self.data.rows[self.front];
        self.front += 1;
        Some(Ok((AccessGuard::new(r.key()), AccessGuard::new(r.val()))))
    }
}
impl<K: Key + 'static, V: Value + 'static> DoubleEndedIterator for Range<'_, K, V> {
    fn next_back(&mut self) -> Option<Self::Item> {
        if self.front >= self.back {
            return None;
        }
        self.back -= 1;
        let r = &self.data.rows[self.back];
        Some(Ok((AccessGuard::new(r.key()), AccessGuard::new(r.val()))))
    }
}

// ------------------------------------------------------------------------------------------
// tables
// ------------------------------------------------------------------------------------------

pub trait ReadableTableMetadata {
    fn stats(&self) -> Result<TableStats> {
        Ok(TableStats)
    }
    fn len(&self) -> Result<u64>;
    fn is_empty(&self) -> Result<bool> {
        Ok(self.len()? == 0)
    }
}

pub trait ReadableTable<K: Key + 'static, V: Value + 'static>: ReadableTableMetadata {
    fn get<'a>(&self, key: impl Borrow<K::SelfType<'a>>) -> Result<Option<AccessGuard<'_, V>>>;
    fn range<'a, KR>(&self, range: impl RangeBounds<KR> + 'a) -> Result<Range<'_, K, V>>
    where
        KR: Borrow<K::SelfType<'a>> + 'a;
    fn first(&self) -> Result<Option<(AccessGuard<'_, K>, AccessGuard<'_, V>)>>;
    fn last(&self) -> Result<Option<(AccessGuard<'_, K>, AccessGuard<'_, V>)>>;
    fn iter(&self) -> Result<Range<'_, K, V>> {
        self.range::<K::SelfType<'_>>(..)
    }
}

pub struct Table<'txn, K: Key + 'static, V: Value + 'static> {
    slot: usize,
    idx: usize,
    _p: PhantomData<(&'txn WriteTransaction, K, V)>,
}

impl<K: Key + 'static, V: Value + 'static> Debug for Table<'_, K, V> {
    fn fmt(&self, f: &mut fmt::Formatter<'_>) -> fmt::Result {
        f.write_str("Table(model)")
    }
}

impl<K: Key + 'static, V: Value + 'static> Drop for Table<'_, K, V> {
    fn drop(&mut self) {
        open_flags(self.slot)[self.idx] = false;
    }
}

impl<K: Key + 'static, V: Value + 'static> TableHandle for Table<'_, K, V> {
    fn name(&self) -> &str {
        self.data().name.unwrap_or("")
    }
}

impl<'txn, K: Key + 'static, V: Value + 'static> Table<'txn, K, V> {
    #[allow(clippy::mut_from_ref)]
    fn data(&self) -> &'static mut TableData {
        &mut st(self.slot).tables[self.idx]
    }

    pub fn insert<'k, 'v>(
        &mut self,
        key: impl Borrow<K::SelfType<'k>>,
        value: impl Borrow<V::SelfType<'v>>,
    ) -> Result<Option<AccessGuard<'_, V>>> {
        let kb = K::as_bytes(key.borrow());
        let vb = V::as_bytes(value.borrow());
        let row = Row::new(kb.as_ref(), vb.as_ref())?;
        let t = self.data();
        let (i, found) = lower_bound::<K>(t, kb.as_ref());
        if found {
            let old = AccessGuard::new(t.rows[i].val());
            t.rows[i] = row;
            Ok(Some(old))
        } else {
            t.insert_at(i, row)?;
            Ok(None)
        }
    }

    pub fn remove<'a>(&mut self, key: impl Borrow<K::SelfType<'a>>) -> Result<Option<AccessGuard<'_, V>>> {
        let kb = K::as_bytes(key.borrow());
        let t = self.data();
        let (i, found) = lower_bound::<K>(t, kb.as_ref());
        if found {
            let r = t.remove_at(i);
            Ok(Some(AccessGuard::new(r.val())))
        } else {
            Ok(None)
        }
    }

    pub fn retain<F: for<'f> FnMut(K::SelfType<'f>, V::SelfType<'f>) -> bool>(&mut self, predicate: F) -> Result {
        self.retain_in::<K::SelfType<'_>, F>(.., predicate)
    }

    pub fn retain_in<'a, KR, F: for<'f> FnMut(K::SelfType<'f>, V::SelfType<'f>) -> bool>(
        &mut self,
        range: impl RangeBounds<KR> + 'a,
        mut predicate: F,
    ) -> Result
    where
        KR: Borrow<K::SelfType<'a>> + 'a,
    {
        let t = self.data();
        let (lo, mut hi) = window::<K, KR>(t, &range);
        let mut i = lo;
        while i < hi {
            let row = t.rows[i];
            let keep = predicate(K::from_bytes(row.key()), V::from_bytes(row.val()));
            if keep {
                i += 1;
            } else {
                t.remove_at(i);
                hi -= 1;
            }
        }
        Ok(())
    }

    pub fn extract_if<F: for<'f> FnMut(K::SelfType<'f>, V::SelfType<'f>) -> bool>(
        &mut self,
        predicate: F,
    ) -> Result<ExtractIf<'_, K, V, F>> {
        self.extract_from_if::<K::SelfType<'_>, F>(.., predicate)
    }

    pub fn extract_from_if<'a, KR, F: for<'f> FnMut(K::SelfType<'f>, V::SelfType<'f>) -> bool>(
        &mut self,
        range: impl RangeBounds<KR> + 'a,
        predicate: F,
    ) -> Result<ExtractIf<'_, K, V, F>>
    where
        KR: Borrow<K::SelfType<'a>> + 'a,
    {
        let t = self.data();
        let (lo, hi) = window::<K, KR>(t, &range);
        Ok(ExtractIf { t, cur: lo, hi, predicate, _p: PhantomData })
    }

    pub fn pop_first(&mut self) -> Result<Option<(AccessGuard<'_, K>, AccessGuard<'_, V>)>> {
        let t = self.data();
        if t.n == 0 {
            return Ok(None);
        }
        let r = t.remove_at(0);
        Ok(Some((AccessGuard::new(r.key()), AccessGuard::new(r.val()))))
    }
}

impl<K: Key + 'static, V: Value + 'static> ReadableTableMetadata for Table<'_, K, V> {
    fn len(&self) -> Result<u64> {
        Ok(self.data().n as u64)
    }
}

impl<K: Key + 'static, V: Value + 'static> ReadableTable<K, V> for Table<'_, K, V> {
    fn get<'a>(&self, key: impl Borrow<K::SelfType<'a>>) -> Result<Option<AccessGuard<'_, V>>> {
        let kb = K::as_bytes(key.borrow());
        Ok(get_in::<K, V>(self.data(), kb.as_ref()))
    }
    fn range<'a, KR>(&self, range: impl RangeBounds<KR> + 'a) -> Result<Range<'_, K, V>>
    where
        KR: Borrow<K::SelfType<'a>> + 'a,
    {
        let t = self.data();
        let (lo, hi) = window::<K, KR>(t, &range);
        Ok(Range::new(t, lo, hi))
    }
    fn first(&self) -> Result<Option<(AccessGuard<'_, K>, AccessGuard<'_, V>)>> {
        let t = self.data();
        Ok(if t.n == 0 { None } else { Some((AccessGuard::new(t.rows[0].key()), AccessGuard::new(t.rows[0].val()))) })
    }
    fn last(&self) -> Result<Option<(AccessGuard<'_, K>, AccessGuard<'_, V>)>> {
        let t = self.data();
        Ok(if t.n == 0 {
            None
        } else {
            Some((AccessGuard::new(t.rows[t.n - 1].key()), AccessGuard::new(t.rows[t.n - 1].val())))
        })
    }
}

/// Rows for which the predicate holds are removed as the iterator is advanced (rows not read from
/// the iterator are not removed), as documented for redb.
pub struct ExtractIf<'a, K: Key + 'static, V: Value + 'static, F: for<'f> FnMut(K::SelfType<'f>, V::SelfType<'f>) -> bool> {
    t: &'a mut TableData,
    cur: usize,
    hi: usize,
    predicate: F,
    _p: PhantomData<(K, V)>,
}

impl<'a, K: Key + 'static, V: Value + 'static, F: for<'f> FnMut(K::SelfType<'f>, V::SelfType<'f>) -> bool> Iterator
    for ExtractIf<'a, K, V, F>
{
    type Item = Result<(AccessGuard<'a, K>, AccessGuard<'a, V>)>;
    fn next(&mut self) -> Option<Self::Item> {
        while self.cur < self.hi {
            let row = self.t.rows[self.cur];
            if (self.predicate)(K::from_bytes(row.key()), V::from_bytes(row.val())) {
                self.t.remove_at(self.cur);
                self.hi -= 1;
                return Some(Ok((AccessGuard::new(row.key()), AccessGuard::new(row.val()))));
            }
            self.cur += 1;
        }
        None
    }
}

pub struct ReadOnlyTable<K: Key + 'static, V: Value + 'static> {
    slot: usize,
    idx: usize,
    _p: PhantomData<(K, V)>,
}

impl<K: Key + 'static, V: Value + 'static> Debug for ReadOnlyTable<K, V> {
    fn fmt(&self, f: &mut fmt::Formatter<'_>) -> fmt::Result {
        f.write_str("ReadOnlyTable(model)")
    }
}

impl<K: Key + 'static, V: Value + 'static> ReadOnlyTable<K, V> {
    fn data(&self) -> &'static TableData {
        &st(self.slot).tables[self.idx]
    }
    pub fn get<'a>(&self, key: impl Borrow<K::SelfType<'a>>) -> Result<Option<AccessGuard<'static, V>>> {
        let kb = K::as_bytes(key.borrow());
        Ok(get_in::<K, V>(self.data(), kb.as_ref()))
    }
    pub fn range<'a, KR>(&self, range: impl RangeBounds<KR>) -> Result<Range<'static, K, V>>
    where
        KR: Borrow<K::SelfType<'a>>,
    {
        let t = self.data();
        let (lo, hi) = window::<K, KR>(t, &range);
        Ok(Range::new(t, lo, hi))
    }
}

impl<K: Key + 'static, V: Value + 'static> TableHandle for ReadOnlyTable<K, V> {
    fn name(&self) -> &str {
        self.data().name.unwrap_or("")
    }
}

impl<K: Key + 'static, V: Value + 'static> ReadableTableMetadata for ReadOnlyTable<K, V> {
    fn len(&self) -> Result<u64> {
        Ok(self.data().n as u64)
    }
}

impl<K: Key + 'static, V: Value + 'static> ReadableTable<K, V> for ReadOnlyTable<K, V> {
    fn get<'a>(&self, key: impl Borrow<K::SelfType<'a>>) -> Result<Option<AccessGuard<'_, V>>> {
        let kb = K::as_bytes(key.borrow());
        Ok(get_in::<K, V>(self.data(), kb.as_ref()))
    }
    fn range<'a, KR>(&self, range: impl RangeBounds<KR> + 'a) -> Result<Range<'_, K, V>>
    where
        KR: Borrow<K::SelfType<'a>> + 'a,
    {
        let t = self.data();
        let (lo, hi) = window::<K, KR>(t, &range);
        Ok(Range::new(t, lo, hi))
    }
    fn first(&self) -> Result<Option<(AccessGuard<'_, K>, AccessGuard<'_, V>)>> {
        let t = self.data();
        Ok(if t.n == 0 { None } else { Some((AccessGuard::new(t.rows[0].key()), AccessGuard::new(t.rows[0].val()))) })
    }
    fn last(&self) -> Result<Option<(AccessGuard<'_, K>, AccessGuard<'_, V>)>> {
        let t = self.data();
        Ok(if t.n == 0 {
            None
        } else {
            Some((AccessGuard::new(t.rows[t.n - 1].key()), AccessGuard::new(t.rows[t.n - 1].val())))
        })
    }
}

// ------------------------------------------------------------------------------------------
// multimap tables: rows sorted by (key, value); the value bytes are stored in the row's value
// ------------------------------------------------------------------------------------------

/// index of (key, value), or where it would be inserted
fn mm_lower_bound<K: Key, V: Key>(t: &TableData, key: &[u8], val: &[u8]) -> (usize, bool) {
    let mut i = 0;
    while i < t.n {
        let o = K::compare(t.rows[i].key(), key).then_with(|| V::compare(t.rows[i].val(), val));
        match o {
            Ordering::Less => {}
            Ordering::Equal => return (i, true),
            Ordering::Greater => return (i, false),
        }
        i += 1;
    }
    (i, false)
}

/// `[lo, hi)` of all rows with this key
fn mm_window<K: Key>(t: &TableData, key: &[u8]) -> (usize, usize) {
    let mut lo = t.n;
    let mut hi = t.n;
    let mut i = 0;
    let mut seen = false;
    while i < t.n {
        match K::compare(t.rows[i].key(), key) {
            Ordering::Less => {}
            Ordering::Equal => {
                if !seen {
                    lo = i;
                    seen = true;
                }
            }
            Ordering::Greater => {
                if !seen {
                    lo = i;
                }
                hi = i;
                return (lo, hi);
            }
        }
        i += 1;
    }
    (lo, hi)
}

/// Iterator over the values of one key, ascending; owns a copy of the values.
pub struct MultimapValue<'a, V: Key + 'static> {
    data: TableData,
    front: usize,
    back: usize,
    _p: PhantomData<(&'a (), V)>,
}

impl<'a, V: Key + 'static> MultimapValue<'a, V> {
    pub fn len(&self) -> u64 {
        (self.back - self.front) as u64
    }
    pub fn is_empty(&self) -> bool {
        self.back == self.front
    }
}

impl<'a, V: Key + 'static> Iterator for MultimapValue<'a, V> {
    type Item = Result<AccessGuard<'a, V>>;
    fn next(&mut self) -> Option<Self::Item> {
        if self.front >= self.back {
            return None;
        }
        let r = &self.data.rows[self.front];
        self.front += 1;
        Some(Ok(AccessGuard::new(r.val())))
    }
}
impl<V: Key + 'static> DoubleEndedIterator for MultimapValue<'_, V> {
    fn next_back(&mut self) -> Option<Self::Item> {
        if self.front >= self.back {
            return None;
        }
        self.back -= 1;
        let r = &self.data.rows[self.back];
        Some(Ok(AccessGuard::new(r.val())))
    }
}

pub struct MultimapRange<'a, K: Key + 'static, V: Key + 'static>(PhantomData<(&'a (), K, V)>);

pub trait ReadableMultimapTable<K: Key + 'static, V: Key + 'static>: ReadableTableMetadata {
    fn get<'a>(&self, key: impl Borrow<K::SelfType<'a>>) -> Result<MultimapValue<'_, V>>;
}

pub struct MultimapTable<'txn, K: Key + 'static, V: Key + 'static> {
    slot: usize,
    idx: usize,
    _p: PhantomData<(&'txn WriteTransaction, K, V)>,
}

impl<K: Key + 'static, V: Key + 'static> Drop for MultimapTable<'_, K, V> {
    fn drop(&mut self) {
        open_flags(self.slot)[self.idx] = false;
    }
}

impl<K: Key + 'static, V: Key + 'static> MultimapTableHandle for MultimapTable<'_, K, V> {
    fn name(&self) -> &str {
        self.data().name.unwrap_or("")
    }
}

impl<'txn, K: Key + 'static, V: Key + 'static> MultimapTable<'txn, K, V> {
    #[allow(clippy::mut_from_ref)]
    fn data(&self) -> &'static mut TableData {
        &mut st(self.slot).tables[self.idx]
    }

    /// Returns `true` if the key-value pair was present
    pub fn insert<'k, 'v>(
        &mut self,
        key: impl Borrow<K::SelfType<'k>>,
        value: impl Borrow<V::SelfType<'v>>,
    ) -> Result<bool> {
        let kb = K::as_bytes(key.borrow());
        let vb = V::as_bytes(value.borrow());
        let row = Row::new(kb.as_ref(), vb.as_ref())?;
        let t = self.data();
        let (i, found) = mm_lower_bound::<K, V>(t, kb.as_ref(), vb.as_ref());
        if found {
            Ok(true)
        } else {
            t.insert_at(i, row)?;
            Ok(false)
        }
    }

    /// Returns `true` if the key-value pair was present
    pub fn remove<'k, 'v>(
        &mut self,
        key: impl Borrow<K::SelfType<'k>>,
        value: impl Borrow<V::SelfType<'v>>,
    ) -> Result<bool> {
        let kb = K::as_bytes(key.borrow());
        let vb = V::as_bytes(value.borrow());
        let t = self.data();
        let (i, found) = mm_lower_bound::<K, V>(t, kb.as_ref(), vb.as_ref());
        if found {
            t.remove_at(i);
        }
        Ok(found)
    }

    /// Removes all values for the given key; returns them in ascending order.
    pub fn remove_all<'a>(&mut self, key: impl Borrow<K::SelfType<'a>>) -> Result<MultimapValue<'_, V>> {
        let kb = K::as_bytes(key.borrow());
        let t = self.data();
        let (lo, hi) = mm_window::<K>(t, kb.as_ref());
        let snapshot = *t;
        let mut k = lo;
        while k < hi {
            t.remove_at(lo);
            k += 1;
        }
        Ok(MultimapValue { data: snapshot, front: lo, back: hi, _p: PhantomData })
    }
}

impl<K: Key + 'static, V: Key + 'static> ReadableTableMetadata for MultimapTable<'_, K, V> {
    fn len(&self) -> Result<u64> {
        Ok(self.data().n as u64)
    }
}

impl<K: Key + 'static, V: Key + 'static> ReadableMultimapTable<K, V> for MultimapTable<'_, K, V> {
    fn get<'a>(&self, key: impl Borrow<K::SelfType<'a>>) -> Result<MultimapValue<'_, V>> {
        let kb = K::as_bytes(key.borrow());
        let t = self.data();
        let (lo, hi) = mm_window::<K>(t, kb.as_ref());
        Ok(MultimapValue { data: *t, front: lo, back: hi, _p: PhantomData })
    }
}

pub struct ReadOnlyMultimapTable<K: Key + 'static, V: Key + 'static> {
    slot: usize,
    idx: usize,
    _p: PhantomData<(K, V)>,
}

impl<K: Key + 'static, V: Key + 'static> ReadOnlyMultimapTable<K, V> {
    fn data(&self) -> &'static TableData {
        &st(self.slot).tables[self.idx]
    }
    pub fn get<'a>(&self, key: impl Borrow<K::SelfType<'a>>) -> Result<MultimapValue<'static, V>> {
        let kb = K::as_bytes(key.borrow());
        let t = self.data();
        let (lo, hi) = mm_window::<K>(t, kb.as_ref());
        Ok(MultimapValue { data: *t, front: lo, back: hi, _p: PhantomData })
    }
}

impl<K: Key + 'static, V: Key + 'static> ReadableTableMetadata for ReadOnlyMultimapTable<K, V> {
    fn len(&self) -> Result<u64> {
        Ok(self.data().n as u64)
    }
}

impl<K: Key + 'static, V: Key + 'static> ReadableMultimapTable<K, V> for ReadOnlyMultimapTable<K, V> {
    fn get<'a>(&self, key: impl Borrow<K::SelfType<'a>>) -> Result<MultimapValue<'_, V>> {
        let kb = K::as_bytes(key.borrow());
        let t = self.data();
        let (lo, hi) = mm_window::<K>(t, kb.as_ref());
        Ok(MultimapValue { data: *t, front: lo, back: hi, _p: PhantomData })
    }
}

pub struct ReadOnlyUntypedTable;
pub struct ReadOnlyUntypedMultimapTable;
pub struct ReadOnlyDatabase;
pub struct RepairSession;

macro_rules! dbg_impl {
    ($($t:ident),*) => { $(impl Debug for $t { fn fmt(&self, f: &mut fmt::Formatter<'_>) -> fmt::Result { f.write_str(concat!(stringify!($t), "(model)")) } })* };
}
dbg_impl!(ReadTransaction, WriteTransaction, Builder);
impl<K: Key + 'static, V: Key + 'static> Debug for MultimapTable<'_, K, V> {
    fn fmt(&self, f: &mut fmt::Formatter<'_>) -> fmt::Result {
        f.write_str("MultimapTable(model)")
    }
}
impl<K: Key + 'static, V: Key + 'static> Debug for ReadOnlyMultimapTable<K, V> {
    fn fmt(&self, f: &mut fmt::Formatter<'_>) -> fmt::Result {
        f.write_str("ReadOnlyMultimapTable(model)")
    }
}
