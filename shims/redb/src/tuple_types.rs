use crate::complex_types::{decode_varint_len, encode_varint_len};
use crate::types::{Key, TypeName, Value};
use std::borrow::Borrow;
use std::cmp::Ordering;

fn serialize_tuple_elements_variable<const N: usize>(
    is_fixed_width: [bool; N],
    slices: [&[u8]; N],
) -> Vec<u8> {
    let total_len: usize = slices.iter().map(|x| x.len()).sum();
    let worst_case_len_overhead: usize =
        is_fixed_width.iter().map(|x| if *x { 0 } else { 5 }).sum();
    let mut output = Vec::with_capacity(total_len + worst_case_len_overhead);
    let zipped = is_fixed_width.iter().zip(slices.iter());
    for len in zipped
        .map(|(fixed, x)| if *fixed { None } else { Some(x.len()) })
        .take(slices.len() - 1)
        .flatten()
    {
        encode_varint_len(len, &mut output);
    }

    for slice in slices {
        output.extend_from_slice(slice);
    }

    debug_assert!(output.len() <= total_len + worst_case_len_overhead);

    output
}

fn serialize_tuple_elements_fixed(slices: &[&[u8]]) -> Vec<u8> {
    let total_len: usize = slices.iter().map(|x| x.len()).sum();
    let mut output = Vec::with_capacity(total_len);
    for slice in slices {
        output.extend_from_slice(slice);
    }
    output
}

fn parse_lens<const N: usize>(fixed_width: [Option<usize>; N], data: &[u8]) -> (usize, [usize; N]) {
    let mut result = [0; N];
    let mut offset = 0;
    for (i, &fixed) in fixed_width.iter().enumerate() {
        if let Some(len) = fixed {
            result[i] = len;
        } else {
            let (len, bytes_read) = decode_varint_len(&data[offset..]);
            result[i] = len;
            offset += bytes_read;
        }
    }
    (offset, result)
}

fn not_equal<T: Key>(data1: &[u8], data2: &[u8]) -> Option<Ordering> {
    match T::compare(data1, data2) {
        Ordering::Less => Some(Ordering::Less),
        Ordering::Equal => None,
        Ordering::Greater => Some(Ordering::Greater),
    }
}

macro_rules! fixed_width_impl {
    ( $( $t:ty ),+ ) => {
        {
            let mut sum = 0;
            $(
                sum += <$t>::fixed_width()?;
            )+
            Some(sum)
        }
    };
}

macro_rules! as_bytes_impl {
    ( $value:expr, $( $t:ty, $i:tt ),+ ) => {{
        if Self::fixed_width().is_some() {
            serialize_tuple_elements_fixed(&[
                $(
                    <$t>::as_bytes($value.$i.borrow()).as_ref(),
                )+
            ])
        } else {
            serialize_tuple_elements_variable(
            [
                $(
                    <$t>::fixed_width().is_some(),
                )+
            ],
            [
                $(
                    <$t>::as_bytes($value.$i.borrow()).as_ref(),
                )+
            ])
        }
    }};
}

macro_rules! type_name_impl {
    ( $head:ty $(,$tail:ty)+ ) => {
        {
            let mut result = String::new();
            result.push('(');
            result.push_str(&<$head>::type_name().name());
            $(
                result.push(',');
                result.push_str(&<$tail>::type_name().name());
            )+
            result.push(')');

            if Self::fixed_width().is_some() {
                TypeName::internal(&result)
            } else {
                TypeName::internal2(&result)
            }
        }
    };
}

macro_rules! from_bytes_variable_impl {
    ( $data:expr $(,$t:ty, $v:ident, $i:literal )+ | $t_last:ty, $v_last:ident, $i_last:literal ) => {
        #[allow(clippy::manual_bits)]
        {
            let (mut offset, lens) = parse_lens::<$i_last>(
                [
                    $(
                        <$t>::fixed_width(),
                    )+
                ],
                $data);
            $(
                let len = lens[$i];
                let $v = <$t>::from_bytes(&$data[offset..(offset + len)]);
                offset += len;
            )+
            let $v_last = <$t_last>::from_bytes(&$data[offset..]);
            ($(
                $v,
            )+
                $v_last
            )
        }
    };
}

macro_rules! from_bytes_fixed_impl {
    ( $data:expr $(,$t:ty, $v:ident )+ ) => {
        {
            let mut offset = 0;
            $(
                let len = <$t>::fixed_width().unwrap();
                let $v = <$t>::from_bytes(&$data[offset..(offset + len)]);
                #[allow(unused_assignments)]
                {
                    offset += len;
                }
            )+

            ($(
                $v,
            )+)
        }
    };
}

macro_rules! compare_variable_impl {
    ( $data0:expr, $data1:expr $(,$t:ty, $i:literal )+ | $t_last:ty, $i_last:literal ) => {
        #[allow(clippy::manual_bits)]
        {
            let fixed_width = [
                $(
                    <$t>::fixed_width(),
                )+
            ];
            let (mut offset0, lens0) = parse_lens::<$i_last>(fixed_width, $data0);
            let (mut offset1, lens1) = parse_lens::<$i_last>(fixed_width, $data1);
            $(
                let index = $i;
                let len0 = lens0[index];
                let len1 = lens1[index];
                if let Some(order) = not_equal::<$t>(
                    &$data0[offset0..(offset0 + len0)],
                    &$data1[offset1..(offset1 + len1)],
                ) {
                    return order;
                }
                offset0 += len0;
                offset1 += len1;
            )+

            <$t_last>::compare(&$data0[offset0..], &$data1[offset1..])
        }
    };
}

macro_rules! compare_fixed_impl {
    ( $data0:expr, $data1:expr, $($t:ty),+ ) => {
        {
            let mut offset0 = 0;
            let mut offset1 = 0;
            $(
                let len = <$t>::fixed_width().unwrap();
                if let Some(order) = not_equal::<$t>(
                    &$data0[offset0..(offset0 + len)],
                    &$data1[offset1..(offset1 + len)],
                ) {
                    return order;
                }
                #[allow(unused_assignments)]
                {
                    offset0 += len;
                    offset1 += len;
                }
            )+

            Ordering::Equal
        }
    };
}

macro_rules! tuple_impl {
    ( $($t:ident, $v:ident, $i:tt ),+ | $t_last:ident, $v_last:ident, $i_last:tt ) => {
        impl<$($t: Value,)+ $t_last: Value> Value for ($($t,)+ $t_last) {
            type SelfType<'a> = (
                $(<$t>::SelfType<'a>,)+
                <$t_last>::SelfType<'a>,
            )
            where
                Self: 'a;
            type AsBytes<'a> = Vec<u8>
            where
                Self: 'a;

            fn fixed_width() -> Option<usize> {
                fixed_width_impl!($($t,)+ $t_last)
            }

            fn from_bytes<'a>(data: &'a [u8]) -> Self::SelfType<'a>
            where
                Self: 'a,
            {
                if Self::fixed_width().is_some() {
                    from_bytes_fixed_impl!(data $(,$t,$v)+, $t_last, $v_last)
                } else {
                    from_bytes_variable_impl!(data $(,$t,$v,$i)+ | $t_last, $v_last, $i_last)
                }
            }

            fn as_bytes<'a, 'b: 'a>(value: &'a Self::SelfType<'b>) -> Vec<u8>
            where
                Self: 'a,
                Self: 'b,
            {
                as_bytes_impl!(value, $($t,$i,)+ $t_last, $i_last)
            }

            fn type_name() -> TypeName {
                type_name_impl!($($t,)+ $t_last)
            }
        }

        impl<$($t: Key,)+ $t_last: Key> Key for ($($t,)+ $t_last) {
            fn compare(data1: &[u8], data2: &[u8]) -> Ordering {
                if Self::fixed_width().is_some() {
                    compare_fixed_impl!(data1, data2, $($t,)+ $t_last)
                } else {
                    compare_variable_impl!(data1, data2 $(,$t,$i)+ | $t_last, $i_last)
                }
            }
        }
    };
}

impl<T: Value> Value for (T,) {
    type SelfType<'a>
        = (T::SelfType<'a>,)
    where
        Self: 'a;
    type AsBytes<'a>
        = T::AsBytes<'a>
    where
        Self: 'a;

    fn fixed_width() -> Option<usize> {
        T::fixed_width()
    }

    fn from_bytes<'a>(data: &'a [u8]) -> Self::SelfType<'a>
    where
        Self: 'a,
    {
        (T::from_bytes(data),)
    }

    fn as_bytes<'a, 'b: 'a>(value: &'a Self::SelfType<'b>) -> Self::AsBytes<'a>
    where
        Self: 'a,
        Self: 'b,
    {
        T::as_bytes(&value.0)
    }

    fn type_name() -> TypeName {
        TypeName::internal(&format!("({},)", T::type_name().name()))
    }
}

impl<T: Key> Key for (T,) {
    fn compare(data1: &[u8], data2: &[u8]) -> Ordering {
        T::compare(data1, data2)
    }
}

tuple_impl! {
    T0, t0, 0
    | T1, t1, 1
}

tuple_impl! {
    T0, t0, 0,
    T1, t1, 1
    | T2, t2, 2
}

tuple_impl! {
    T0, t0, 0,
    T1, t1, 1,
    T2, t2, 2
    | T3, t3, 3
}

tuple_impl! {
    T0, t0, 0,
    T1, t1, 1,
    T2, t2, 2,
    T3, t3, 3
    | T4, t4, 4
}

tuple_impl! {
    T0, t0, 0,
    T1, t1, 1,
    T2, t2, 2,
    T3, t3, 3,
    T4, t4, 4
    | T5, t5, 5
}

tuple_impl! {
    T0, t0, 0,
    T1, t1, 1,
    T2, t2, 2,
    T3, t3, 3,
    T4, t4, 4,
    T5, t5, 5
    | T6, t6, 6
}

tuple_impl! {
    T0, t0, 0,
    T1, t1, 1,
    T2, t2, 2,
    T3, t3, 3,
    T4, t4, 4,
    T5, t5, 5,
    T6, t6, 6
    | T7, t7, 7
}

tuple_impl! {
    T0, t0, 0,
    T1, t1, 1,
    T2, t2, 2,
    T3, t3, 3,
    T4, t4, 4,
    T5, t5, 5,
    T6, t6, 6,
    T7, t7, 7
    | T8, t8, 8
}

tuple_impl! {
    T0, t0, 0,
    T1, t1, 1,
    T2, t2, 2,
    T3, t3, 3,
    T4, t4, 4,
    T5, t5, 5,
    T6, t6, 6,
    T7, t7, 7,
    T8, t8, 8
    | T9, t9, 9
}

tuple_impl! {
    T0, t0, 0,
    T1, t1, 1,
    T2, t2, 2,
    T3, t3, 3,
    T4, t4, 4,
    T5, t5, 5,
    T6, t6, 6,
    T7, t7, 7,
    T8, t8, 8,
    T9, t9, 9
    | T10, t10, 10
}

tuple_impl! {
    T0, t0, 0,
    T1, t1, 1,
    T2, t2, 2,
    T3, t3, 3,
    T4, t4, 4,
    T5, t5, 5,
    T6, t6, 6,
    T7, t7, 7,
    T8, t8, 8,
    T9, t9, 9,
    T10, t10, 10
    | T11, t11, 11
}

#[cfg(test)]
mod test {
    use crate::types::Value;

    #[test]
    fn width() {
        assert!(<(&str, u8)>::fixed_width().is_none());
        assert!(<(u16, u8, &str, u128)>::fixed_width().is_none());
        assert_eq!(<(u16,)>::fixed_width().unwrap(), 2);
        assert_eq!(<(u16, u8)>::fixed_width().unwrap(), 3);
        assert_eq!(<(u16, u8, u128)>::fixed_width().unwrap(), 19);
        assert_eq!(<(u16, u8, i8, u128)>::fixed_width().unwrap(), 20);
        // Check that length of final field is elided
        assert_eq!(
            <(u8, &str)>::as_bytes(&(1, "hello")).len(),
            "hello".len() + size_of::<u8>()
        );
        // Check that varint encoding uses only 1 byte for small strings
        assert_eq!(
            <(&str, u8)>::as_bytes(&("hello", 1)).len(),
            "hello".len() + size_of::<u8>() + size_of::<u8>()
        );
    }
}
