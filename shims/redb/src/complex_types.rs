use crate::types::{TypeName, Value};

// Encode len as a varint and store it at the end of output
pub(super) fn encode_varint_len(len: usize, output: &mut Vec<u8>) {
    if len < 254 {
        output.push(len.try_into().unwrap());
    } else if len <= u16::MAX.into() {
        let u16_len: u16 = len.try_into().unwrap();
        output.push(254);
        output.extend_from_slice(&u16_len.to_le_bytes());
    } else {
        let u32_len: u32 = len.try_into().unwrap();
        output.push(255);
        output.extend_from_slice(&u32_len.to_le_bytes());
    }
}

// Decode a variable length int starting at the beginning of data
// Returns (decoded length, length consumed of `data`)
pub(super) fn decode_varint_len(data: &[u8]) -> (usize, usize) {
    match data[0] {
        0..=253 => (data[0] as usize, 1),
        254 => (
            u16::from_le_bytes(data[1..3].try_into().unwrap()) as usize,
            3,
        ),
        255 => (
            u32::from_le_bytes(data[1..5].try_into().unwrap()) as usize,
            5,
        ),
    }
}

impl<T: Value> Value for Vec<T> {
    type SelfType<'a>
        = Vec<T::SelfType<'a>>
    where
        Self: 'a;
    type AsBytes<'a>
        = Vec<u8>
    where
        Self: 'a;

    fn fixed_width() -> Option<usize> {
        None
    }

    fn from_bytes<'a>(data: &'a [u8]) -> Vec<T::SelfType<'a>>
    where
        Self: 'a,
    {
        let (elements, mut offset) = decode_varint_len(data);
        let mut result = Vec::with_capacity(elements);
        for _ in 0..elements {
            let element_len = if let Some(len) = T::fixed_width() {
                len
            } else {
                let (len, consumed) = decode_varint_len(&data[offset..]);
                offset += consumed;
                len
            };
            result.push(T::from_bytes(&data[offset..(offset + element_len)]));
            offset += element_len;
        }
        assert_eq!(offset, data.len());
        result
    }

    fn as_bytes<'a, 'b: 'a>(value: &'a Vec<T::SelfType<'b>>) -> Vec<u8>
    where
        Self: 'b,
    {
        let mut result = if let Some(width) = T::fixed_width() {
            Vec::with_capacity(value.len() * width + 5)
        } else {
            Vec::with_capacity(value.len() * 2 + 5)
        };
        encode_varint_len(value.len(), &mut result);

        for element in value {
            let serialized = T::as_bytes(element);
            if T::fixed_width().is_none() {
                encode_varint_len(serialized.as_ref().len(), &mut result);
            }
            result.extend_from_slice(serialized.as_ref());
        }
        result
    }

    fn type_name() -> TypeName {
        TypeName::internal(&format!("Vec<{}>", T::type_name().name()))
    }
}
