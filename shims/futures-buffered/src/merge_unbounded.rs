use alloc::vec::Vec;
use core::{
    pin::Pin,
    task::{Context, Poll},
};

use futures_core::Stream;

use crate::{futures_unordered::MIN_CAPACITY, FuturesUnorderedBounded, MergeBounded};

/// A combined stream that releases values in any order that they come.
///
/// This differs from [`crate::MergeBounded`] in that [`MergeUnbounded`] does not have a fixed capacity
/// but instead grows on demand. It uses [`crate::FuturesUnordered`] under the hood.
///
/// # Example
///
/// ```
/// use std::future::ready;
/// use futures::stream::{self, StreamExt};
/// use futures::executor::block_on;
/// use futures_buffered::MergeUnbounded;
///
/// block_on(async {
///     let a = stream::once(ready(2));
///     let b = stream::once(ready(3));
///     let mut s = MergeUnbounded::from_iter([a, b]);
///
///     let mut counter = 0;
///     while let Some(n) = s.next().await {
///         if n == 3 {
///             s.push(stream::once(ready(4)));
///         }
///         counter += n;
///     }
///     assert_eq!(counter, 2+3+4);
/// })
/// ```
pub struct MergeUnbounded<S> {
    pub(crate) groups: Vec<MergeBounded<S>>,
    poll_next: usize,
}

impl<S> Default for MergeUnbounded<S> {
    fn default() -> Self {
        Self::new()
    }
}

impl<S> MergeUnbounded<S> {
    /// Create a new, empty [`MergeUnbounded`].
    ///
    /// Calling [`poll_next`](futures_core::Stream::poll_next) will return `Poll::Ready(None)`
    /// until a stream is added with [`Self::push`].
    pub const fn new() -> Self {
        Self {
            groups: Vec::new(),
            poll_next: 0,
        }
    }

    /// Push a stream into the set.
    ///
    /// This method adds the given stream to the set. This method will not
    /// call [`poll_next`](futures_core::Stream::poll_next) on the submitted stream. The caller must
    /// ensure that [`MergeUnbounded::poll_next`](Stream::poll_next) is called
    /// in order to receive wake-up notifications for the given stream.
    #[track_caller]
    pub fn push(&mut self, stream: S) {
        let last = match self.groups.last_mut() {
            Some(last) => last,
            None => {
                self.groups.push(MergeBounded {
                    streams: FuturesUnorderedBounded::new(MIN_CAPACITY),
                });
                self.groups.last_mut().unwrap()
            }
        };
        match last.try_push(stream) {
            Ok(()) => {}
            Err(stream) => {
                let mut next = MergeBounded {
                    streams: FuturesUnorderedBounded::new(last.streams.capacity() * 2),
                };
                next.push(stream);
                self.groups.push(next);
            }
        }
    }

    /// Returns `true` if there are no streams in the set.
    pub fn is_empty(&self) -> bool {
        self.groups.iter().all(|g| g.streams.is_empty())
    }

    /// Returns the number of streams currently in the set.
    pub fn len(&self) -> usize {
        self.groups.iter().map(|g| g.streams.len()).sum()
    }
}

impl<S: Stream + Unpin> Stream for MergeUnbounded<S> {
    type Item = S::Item;

    fn poll_next(mut self: Pin<&mut Self>, cx: &mut Context<'_>) -> Poll<Option<Self::Item>> {
        let Self { groups, poll_next } = &mut *self;
        if groups.is_empty() {
            return Poll::Ready(None);
        }

        for _ in 0..groups.len() {
            if *poll_next >= groups.len() {
                *poll_next = 0;
            }

            let poll = Pin::new(&mut groups[*poll_next]).poll_next(cx);
            match poll {
                Poll::Ready(Some(x)) => {
                    return Poll::Ready(Some(x));
                }
                Poll::Ready(None) => {
                    let group = groups.remove(*poll_next);
                    debug_assert!(group.streams.is_empty());

                    if groups.is_empty() {
                        // group should contain at least 1 set
                        groups.push(group);
                        return Poll::Ready(None);
                    }

                    // we do not want to drop the last set as it contains
                    // the largest allocation that we want to keep a hold of
                    if *poll_next == groups.len() {
                        groups.push(group);
                        *poll_next = 0;
                    }
                }
                Poll::Pending => {
                    *poll_next += 1;
                }
            }
        }
        Poll::Pending
    }
}

impl<S: Stream + Unpin> FromIterator<S> for MergeUnbounded<S> {
    fn from_iter<T>(iter: T) -> Self
    where
        T: IntoIterator<Item = S>,
    {
        let iter = iter.into_iter();
        // let mut this =
        //     Self::with_capacity(usize::max(iter.size_hint().0, MIN_CAPACITY));
        let mut this = Self::new();
        for stream in iter {
            this.push(stream);
        }
        this
    }
}

#[cfg(test)]
mod tests {
    use core::cell::RefCell;
    use core::task::Waker;

    use super::*;
    use alloc::collections::VecDeque;
    use alloc::rc::Rc;
    use futures::executor::block_on;
    use futures::executor::LocalPool;
    use futures::stream;
    use futures::task::LocalSpawnExt;
    use futures::StreamExt;

    #[test]
    fn merge_tuple_4() {
        block_on(async {
            let a = stream::repeat(2).take(2);
            let b = stream::repeat(3).take(3);
            let c = stream::repeat(5).take(5);
            let d = stream::repeat(7).take(7);
            let mut s: MergeUnbounded<_> = [a, b, c, d].into_iter().collect();

            let mut counter = 0;
            while let Some(n) = s.next().await {
                counter += n;
            }
            assert_eq!(counter, 4 + 9 + 25 + 49);
        });
    }

    #[test]
    fn add_streams() {
        block_on(async {
            let a = stream::repeat(2).take(2);
            let b = stream::repeat(3).take(3);
            let mut s = MergeUnbounded::default();
            assert_eq!(s.next().await, None);
            assert!(s.is_empty());
            assert_eq!(s.len(), 0);

            s.push(a);
            s.push(b);

            assert!(!s.is_empty());
            assert_eq!(s.len(), 2);

            let mut counter = 0;
            while let Some(n) = s.next().await {
                counter += n;
                assert!(!s.is_empty());
            }

            assert!(s.is_empty());
            assert_eq!(s.len(), 0);

            let b = stream::repeat(4).take(4);
            s.push(b);

            assert!(!s.is_empty());
            assert_eq!(s.len(), 1);

            while let Some(n) = s.next().await {
                counter += n;
            }

            assert_eq!(counter, 4 + 9 + 16);

            assert!(s.is_empty());
            assert_eq!(s.len(), 0);
        });
    }

    /// This test case uses channels so we'll have streams that return Pending from time to time.
    ///
    /// The purpose of this test is to make sure we have the waking logic working.
    #[test]
    fn merge_channels() {
        struct LocalChannel<T> {
            queue: VecDeque<T>,
            waker: Option<Waker>,
            closed: bool,
        }

        struct LocalReceiver<T> {
            channel: Rc<RefCell<LocalChannel<T>>>,
        }

        impl<T> Stream for LocalReceiver<T> {
            type Item = T;

            fn poll_next(self: Pin<&mut Self>, cx: &mut Context<'_>) -> Poll<Option<Self::Item>> {
                let mut channel = self.channel.borrow_mut();

                match channel.queue.pop_front() {
                    Some(item) => Poll::Ready(Some(item)),
                    None => {
                        if channel.closed {
                            Poll::Ready(None)
                        } else {
                            channel.waker = Some(cx.waker().clone());
                            Poll::Pending
                        }
                    }
                }
            }
        }

        struct LocalSender<T> {
            channel: Rc<RefCell<LocalChannel<T>>>,
        }

        impl<T> LocalSender<T> {
            fn send(&self, item: T) {
                let mut channel = self.channel.borrow_mut();

                channel.queue.push_back(item);

                let _ = channel.waker.take().map(Waker::wake);
            }
        }

        impl<T> Drop for LocalSender<T> {
            fn drop(&mut self) {
                let mut channel = self.channel.borrow_mut();
                channel.closed = true;
                let _ = channel.waker.take().map(Waker::wake);
            }
        }

        fn local_channel<T>() -> (LocalSender<T>, LocalReceiver<T>) {
            let channel = Rc::new(RefCell::new(LocalChannel {
                queue: VecDeque::new(),
                waker: None,
                closed: false,
            }));

            (
                LocalSender {
                    channel: channel.clone(),
                },
                LocalReceiver { channel },
            )
        }

        let mut pool = LocalPool::new();

        let done = Rc::new(RefCell::new(false));
        let done2 = done.clone();

        pool.spawner()
            .spawn_local(async move {
                let (send1, receive1) = local_channel();
                let (send2, receive2) = local_channel();
                let (send3, receive3) = local_channel();

                let (count, ()) = futures::future::join(
                    async {
                        let s: MergeUnbounded<_> =
                            [receive1, receive2, receive3].into_iter().collect();
                        s.fold(0, |a, b| async move { a + b }).await
                    },
                    async {
                        for i in 1..=4 {
                            send1.send(i);
                            send2.send(i);
                            send3.send(i);
                        }
                        drop(send1);
                        drop(send2);
                        drop(send3);
                    },
                )
                .await;

                assert_eq!(count, 30);

                *done2.borrow_mut() = true;
            })
            .unwrap();

        while !*done.borrow() {
            pool.run_until_stalled();
        }
    }
}
