use crate::FuturesOrderedBounded;
use crate::FuturesUnorderedBounded;
use core::future::Future;
use futures_core::Stream;

mod for_each;
mod ordered;
mod unordered;

pub use for_each::ForEachConcurrent;
pub use ordered::BufferedOrdered;
pub use unordered::BufferUnordered;

impl<T: ?Sized + Stream> BufferedStreamExt for T {}

/// An extension trait for `Stream`s that provides a variety of convenient
/// combinator functions.
pub trait BufferedStreamExt: Stream {
    /// An adaptor for creating a buffered list of pending futures.
    ///
    /// If this stream's item can be converted into a future, then this adaptor
    /// will buffer up to at most `n` futures and then return the outputs in the
    /// same order as the underlying stream. No more than `n` futures will be
    /// buffered at any point in time, and less than `n` may also be buffered
    /// depending on the state of each future.
    ///
    /// The returned stream will be a stream of each future's output.
    fn buffered_ordered(self, n: usize) -> BufferedOrdered<Self>
    where
        Self::Item: Future,
        Self: Sized,
    {
        BufferedOrdered {
            stream: Some(self),
            in_progress_queue: FuturesOrderedBounded::new(n),
        }
    }

    /// An adaptor for creating a buffered list of pending futures (unordered).
    ///
    /// If this stream's item can be converted into a future, then this adaptor
    /// will buffer up to `n` futures and then return the outputs in the order
    /// in which they complete. No more than `n` futures will be buffered at
    /// any point in time, and less than `n` may also be buffered depending on
    /// the state of each future.
    ///
    /// The returned stream will be a stream of each future's output.
    ///
    /// # Examples
    ///
    /// ```
    /// # futures::executor::block_on(async {
    /// use futures::channel::oneshot;
    /// use futures::stream::{self, StreamExt};
    /// use futures_buffered::BufferedStreamExt;
    ///
    /// let (send_one, recv_one) = oneshot::channel();
    /// let (send_two, recv_two) = oneshot::channel();
    ///
    /// let stream_of_futures = stream::iter(vec![recv_one, recv_two]);
    /// let mut buffered = stream_of_futures.buffered_unordered(10);
    ///
    /// send_two.send(2i32)?;
    /// assert_eq!(buffered.next().await, Some(Ok(2i32)));
    ///
    /// send_one.send(1i32)?;
    /// assert_eq!(buffered.next().await, Some(Ok(1i32)));
    ///
    /// assert_eq!(buffered.next().await, None);
    /// # Ok::<(), i32>(()) }).unwrap();
    /// ```
    ///
    /// See [`BufferUnordered`] for performance details
    fn buffered_unordered(self, n: usize) -> BufferUnordered<Self>
    where
        Self::Item: Future,
        Self: Sized,
    {
        BufferUnordered {
            stream: Some(self),
            in_progress_queue: FuturesUnorderedBounded::new(n),
        }
    }

    /// Runs this stream to completion, executing the provided asynchronous
    /// closure for each element on the stream concurrently as elements become
    /// available.
    ///
    /// This is similar to [`StreamExt::for_each`](futures_util::StreamExt::for_each), but the futures
    /// produced by the closure are run concurrently (but not in parallel--
    /// this combinator does not introduce any threads).
    ///
    /// The closure provided will be called for each item this stream produces,
    /// yielding a future. That future will then be executed to completion
    /// concurrently with the other futures produced by the closure.
    ///
    /// The first argument is an optional limit on the number of concurrent
    /// futures. If this limit is not `None`, no more than `limit` futures
    /// will be run concurrently. The `limit` argument is of type
    /// `Into<Option<usize>>`, and so can be provided as either `None`,
    /// `Some(10)`, or just `10`. Note: a limit of zero is interpreted as
    /// no limit at all, and will have the same result as passing in `None`.
    ///
    /// This method is only available when the `std` or `alloc` feature of this
    /// library is activated, and it is activated by default.
    ///
    /// # Examples
    ///
    /// ```
    /// # futures::executor::block_on(async {
    /// use futures::channel::oneshot;
    /// use futures::stream::{self, StreamExt};
    ///
    /// let (tx1, rx1) = oneshot::channel();
    /// let (tx2, rx2) = oneshot::channel();
    /// let (tx3, rx3) = oneshot::channel();
    ///
    /// let fut = stream::iter(vec![rx1, rx2, rx3]).for_each_concurrent(
    ///     /* limit */ 2,
    ///     |rx| async move {
    ///         rx.await.unwrap();
    ///     }
    /// );
    /// tx1.send(()).unwrap();
    /// tx2.send(()).unwrap();
    /// tx3.send(()).unwrap();
    /// fut.await;
    /// # })
    /// ```
    fn for_each_concurrent<Fut, F>(self, limit: usize, f: F) -> ForEachConcurrent<Self, Fut, F>
    where
        F: FnMut(Self::Item) -> Fut,
        Fut: Future<Output = ()>,
        Self: Sized,
    {
        ForEachConcurrent::new(self, limit, f)
    }
}
