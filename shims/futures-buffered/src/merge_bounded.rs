use core::{
    pin::Pin,
    task::{Context, Poll},
};

use futures_core::Stream;

use crate::FuturesUnorderedBounded;

#[deprecated = "use `MergeBounded` instead"]
pub type Merge<S> = MergeBounded<S>;

/// A combined stream that releases values in any order that they come
///
/// # Example
///
/// ```
/// use std::future::ready;
/// use futures::stream::{self, StreamExt};
/// use futures::executor::block_on;
/// use futures_buffered::Merge;
///
/// block_on(async {
///     let a = stream::once(ready(2));
///     let b = stream::once(ready(3));
///     let c = stream::once(ready(5));
///     let d = stream::once(ready(7));
///     let mut s = Merge::from_iter([a, b, c, d]);
///
///     let mut counter = 0;
///     while let Some(n) = s.next().await {
///         counter += n;
///     }
///     assert_eq!(counter, 2+3+5+7);
/// })
/// ```
pub struct MergeBounded<S> {
    pub(crate) streams: FuturesUnorderedBounded<S>,
}

impl<S> MergeBounded<S> {
    /// Push a stream into the set.
    ///
    /// This method adds the given stream to the set. This method will not
    /// call [`poll_next`](futures_core::Stream::poll_next) on the submitted stream. The caller must
    /// ensure that [`Merge::poll_next`](Stream::poll_next) is called
    /// in order to receive wake-up notifications for the given stream.
    ///
    /// # Panics
    /// This method will panic if the buffer is currently full. See [`Merge::try_push`] to get a result instead
    #[track_caller]
    pub fn push(&mut self, stream: S) {
        if self.try_push(stream).is_err() {
            panic!("attempted to push into a full `Merge`");
        }
    }

    /// Push a future into the set.
    ///
    /// This method adds the given future to the set. This method will not
    /// call [`poll`](core::future::Future::poll) on the submitted future. The caller must
    /// ensure that [`FuturesUnorderedBounded::poll_next`](Stream::poll_next) is called
    /// in order to receive wake-up notifications for the given future.
    ///
    /// # Errors
    /// This method will error if the buffer is currently full, returning the future back
    pub fn try_push(&mut self, stream: S) -> Result<(), S> {
        self.streams.try_push_with(stream, core::convert::identity)
    }
}

impl<S: Stream> Stream for MergeBounded<S> {
    type Item = S::Item;

    fn poll_next(mut self: Pin<&mut Self>, cx: &mut Context<'_>) -> Poll<Option<Self::Item>> {
        loop {
            match self.streams.poll_inner_no_remove(cx, S::poll_next) {
                // if we have a value from the stream, wake up that slot again
                Poll::Ready(Some((i, Some(x)))) => {
                    // safety: i is always within capacity
                    unsafe {
                        self.streams.shared.push(i);
                    }
                    break Poll::Ready(Some(x));
                }
                // if a stream completed, remove it from the queue
                Poll::Ready(Some((i, None))) => {
                    self.streams.tasks.remove(i);
                }
                Poll::Pending => break Poll::Pending,
                Poll::Ready(None) => break Poll::Ready(None),
            }
        }
    }
}

impl<S: Stream> FromIterator<S> for MergeBounded<S> {
    fn from_iter<T>(iter: T) -> Self
    where
        T: IntoIterator<Item = S>,
    {
        Self {
            streams: iter.into_iter().collect(),
        }
    }
}

#[cfg(test)]
mod tests {
    use core::cell::RefCell;
    use core::task::Waker;

    use super::*;
    use alloc::collections::VecDeque;
    use alloc::rc::Rc;
    use futures::executor::block_on;
    use futures::executor::LocalPool;
    use futures::prelude::*;
    use futures::stream;
    use futures::task::LocalSpawnExt;

    #[test]
    fn merge_tuple_4() {
        block_on(async {
            let a = stream::repeat(2).take(2);
            let b = stream::repeat(3).take(3);
            let c = stream::repeat(5).take(5);
            let d = stream::repeat(7).take(7);
            let mut s: MergeBounded<_> = [a, b, c, d].into_iter().collect();

            let mut counter = 0;
            while let Some(n) = s.next().await {
                counter += n;
            }
            assert_eq!(counter, 4 + 9 + 25 + 49);
        });
    }

    /// This test case uses channels so we'll have streams that return Pending from time to time.
    ///
    /// The purpose of this test is to make sure we have the waking logic working.
    #[test]
    fn merge_channels() {
        struct LocalChannel<T> {
            queue: VecDeque<T>,
            waker: Option<Waker>,
            closed: bool,
        }

        struct LocalReceiver<T> {
            channel: Rc<RefCell<LocalChannel<T>>>,
        }

        impl<T> Stream for LocalReceiver<T> {
            type Item = T;

            fn poll_next(self: Pin<&mut Self>, cx: &mut Context<'_>) -> Poll<Option<Self::Item>> {
                let mut channel = self.channel.borrow_mut();

                match channel.queue.pop_front() {
                    Some(item) => Poll::Ready(Some(item)),
                    None => {
                        if channel.closed {
                            Poll::Ready(None)
                        } else {
                            channel.waker = Some(cx.waker().clone());
                            Poll::Pending
                        }
                    }
                }
            }
        }

        struct LocalSender<T> {
            channel: Rc<RefCell<LocalChannel<T>>>,
        }

        impl<T> LocalSender<T> {
            fn send(&self, item: T) {
                let mut channel = self.channel.borrow_mut();

                channel.queue.push_back(item);

                let _ = channel.waker.take().map(Waker::wake);
            }
        }

        impl<T> Drop for LocalSender<T> {
            fn drop(&mut self) {
                let mut channel = self.channel.borrow_mut();
                channel.closed = true;
                let _ = channel.waker.take().map(Waker::wake);
            }
        }

        fn local_channel<T>() -> (LocalSender<T>, LocalReceiver<T>) {
            let channel = Rc::new(RefCell::new(LocalChannel {
                queue: VecDeque::new(),
                waker: None,
                closed: false,
            }));

            (
                LocalSender {
                    channel: channel.clone(),
                },
                LocalReceiver { channel },
            )
        }

        let mut pool = LocalPool::new();

        let done = Rc::new(RefCell::new(false));
        let done2 = done.clone();

        pool.spawner()
            .spawn_local(async move {
                let (send1, receive1) = local_channel();
                let (send2, receive2) = local_channel();
                let (send3, receive3) = local_channel();

                let (count, ()) = futures::future::join(
                    async {
                        let s: MergeBounded<_> =
                            [receive1, receive2, receive3].into_iter().collect();
                        s.fold(0, |a, b| async move { a + b }).await
                    },
                    async {
                        for i in 1..=4 {
                            send1.send(i);
                            send2.send(i);
                            send3.send(i);
                        }
                        drop(send1);
                        drop(send2);
                        drop(send3);
                    },
                )
                .await;

                assert_eq!(count, 30);

                *done2.borrow_mut() = true;
            })
            .unwrap();

        while !*done.borrow() {
            pool.run_until_stalled();
        }
    }
}
