//! A `SlotMap` impl that uses a pre-allocated buffer to allow for pinned access.
//!
//! Implementation inspired by <https://github.com/orlp/slotmap>

use alloc::{boxed::Box, vec::Vec};
use core::{hint::unreachable_unchecked, pin::Pin};

pub(crate) struct PinSlotMap<F> {
    slots: Pin<Box<[Slot<F>]>>,
    free_head: usize,
    filled: usize,
}

// A slot, which represents storage for a value and a current version.
// Can be occupied or vacant.
enum Slot<F> {
    Occupied(F),
    NextFree(usize),
}

impl<F> PinSlotMap<F> {
    /// Constructs a new, empty [`SlotMap`] with the given capacity
    pub fn new(capacity: usize) -> Self {
        let slots: Vec<_> = (1..=capacity).map(Slot::NextFree).collect();

        Self {
            slots: slots.into_boxed_slice().into(),
            free_head: 0,
            filled: 0,
        }
    }

    /// Inserts a value given by `f` into the slot map.
    pub fn insert_with<Arg>(
        &mut self,
        arg: Arg,
        mut f: impl FnMut(Arg) -> F,
    ) -> Result<usize, Arg> {
        let key = self.free_head;
        let Some(mut slot) = self.get_slot(key) else {
            return Err(arg);
        };

        let Slot::NextFree(next_free) = *slot else {
            debug_assert!(false, "slotmap free_head pointed to a not free entry");
            unsafe { unreachable_unchecked() }
        };

        slot.set(Slot::Occupied(f(arg)));

        self.free_head = next_free;
        self.filled += 1;

        Ok(key)
    }

    /// Removes a key from the slot map
    pub fn remove(&mut self, key: usize) {
        let free_head = self.free_head;
        let Some(mut slot) = self.get_slot(key) else {
            return;
        };
        if let Slot::NextFree(_) = &*slot {
            return; // don't update if this slot is already free
        }
        slot.set(Slot::NextFree(free_head));
        self.free_head = key;
        self.filled -= 1;
    }

    fn get_slot(&mut self, key: usize) -> Option<Pin<&mut Slot<F>>> {
        // SAFETY: We return the inner data pinned and we never move the values within
        unsafe {
            let slots = self.slots.as_mut().get_unchecked_mut();
            let slot = slots.get_mut(key)?;
            Some(Pin::new_unchecked(slot))
        }
    }

    pub fn get(&mut self, key: usize) -> Option<Pin<&mut F>> {
        let slot = self.get_slot(key)?;
        // SAFETY: We return the inner data pinned and we never move the values within
        unsafe {
            match slot.get_unchecked_mut() {
                Slot::Occupied(f) => Some(Pin::new_unchecked(f)),
                Slot::NextFree(_) => None,
            }
        }
    }

    pub fn len(&self) -> usize {
        self.filled
    }

    pub fn capacity(&self) -> usize {
        self.slots.len()
    }

    pub fn is_empty(&self) -> bool {
        self.filled == 0
    }

    pub fn iter_mut(&mut self) -> SlotMapIterMut<'_, F> {
        // SAFETY: Our iterator will return pinned values
        SlotMapIterMut(unsafe { self.slots.as_mut().get_unchecked_mut().iter_mut() })
    }
}

pub(crate) struct SlotMapIterMut<'a, F>(core::slice::IterMut<'a, Slot<F>>);
impl<'a, F> Iterator for SlotMapIterMut<'a, F> {
    type Item = Pin<&'a mut F>;

    fn next(&mut self) -> Option<Self::Item> {
        for f in self.0.by_ref() {
            if let Slot::Occupied(f) = f {
                // SAFETY: These values are guaranteed pinned
                return Some(unsafe { Pin::new_unchecked(f) });
            }
        }
        None
    }
}

impl<F> FromIterator<F> for PinSlotMap<F> {
    fn from_iter<T: IntoIterator<Item = F>>(iter: T) -> Self {
        // store the futures in our task list
        let inner: Box<[Slot<F>]> = iter.into_iter().map(Slot::Occupied).collect();

        // determine the actual capacity and create the shared state
        let cap = inner.len();

        // create the queue
        Self {
            slots: inner.into(),
            free_head: cap,
            filled: cap,
        }
    }
}
