use crate::FuturesOrderedBounded;
use core::{
    future::Future,
    pin::Pin,
    task::{ready, Context, Poll},
};
use futures_core::Stream;
use pin_project_lite::pin_project;

pin_project! {
    /// Stream for the [`buffered_ordered`](crate::BufferedStreamExt::buffered_ordered) method.
    #[must_use = "streams do nothing unless polled"]
    pub struct BufferedOrdered<St>
    where
        St: Stream,
        St::Item: Future,
    {
        #[pin]
        pub(crate) stream: Option<St>,
        pub(crate) in_progress_queue: FuturesOrderedBounded<St::Item>,
    }
}

impl<St> Stream for BufferedOrdered<St>
where
    St: Stream,
    St::Item: Future,
{
    type Item = <St::Item as Future>::Output;

    fn poll_next(self: Pin<&mut Self>, cx: &mut Context<'_>) -> Poll<Option<Self::Item>> {
        let mut this = self.project();

        // First up, try to spawn off as many futures as possible by filling up
        // our queue of futures.
        let ordered = this.in_progress_queue;
        while ordered.in_progress_queue.tasks.len() < ordered.in_progress_queue.tasks.capacity() {
            if let Some(s) = this.stream.as_mut().as_pin_mut() {
                match s.poll_next(cx) {
                    Poll::Ready(Some(fut)) => {
                        ordered.push_back(fut);
                        continue;
                    }
                    Poll::Ready(None) => this.stream.as_mut().set(None),
                    Poll::Pending => {}
                }
            }
            break;
        }

        // Attempt to pull the next value from the in_progress_queue
        let res = Pin::new(ordered).poll_next(cx);
        if let Some(val) = ready!(res) {
            return Poll::Ready(Some(val));
        }

        // If more values are still coming from the stream, we're not done yet
        if this.stream.is_none() {
            Poll::Ready(None)
        } else {
            Poll::Pending
        }
    }

    fn size_hint(&self) -> (usize, Option<usize>) {
        let queue_len = self.in_progress_queue.len();
        let (lower, upper) = self
            .stream
            .as_ref()
            .map(|s| s.size_hint())
            .unwrap_or((0, Some(0)));
        let lower = lower.saturating_add(queue_len);
        let upper = match upper {
            Some(x) => x.checked_add(queue_len),
            None => None,
        };
        (lower, upper)
    }
}

#[cfg(test)]
mod tests {
    use crate::BufferedStreamExt;

    use super::*;
    use futures::{channel::oneshot, stream, StreamExt};
    use futures_test::task::noop_context;

    #[test]
    fn buffered_ordered() {
        let (send_one, recv_one) = oneshot::channel();
        let (send_two, recv_two) = oneshot::channel();

        let stream_of_futures = stream::iter(vec![recv_one, recv_two]);
        let mut buffered = stream_of_futures.buffered_ordered(10);
        let mut cx = noop_context();

        // sized properly
        assert_eq!(buffered.size_hint(), (2, Some(2)));

        // make sure it returns pending
        assert_eq!(buffered.poll_next_unpin(&mut cx), Poll::Pending);

        // returns in a fixed order
        send_two.send(2i32).unwrap();
        assert_eq!(buffered.poll_next_unpin(&mut cx), Poll::Pending);

        send_one.send(1i32).unwrap();
        assert_eq!(
            buffered.poll_next_unpin(&mut cx),
            Poll::Ready(Some(Ok(1i32)))
        );
        assert_eq!(
            buffered.poll_next_unpin(&mut cx),
            Poll::Ready(Some(Ok(2i32)))
        );

        // completes properly
        assert_eq!(buffered.poll_next_unpin(&mut cx), Poll::Ready(None));
    }
}
