use core::{
    future::Future,
    pin::Pin,
    task::{Context, Poll},
};
use futures_core::{FusedFuture, Stream};
use pin_project_lite::pin_project;

use crate::FuturesUnorderedBounded;

pin_project! {
    /// Future for the [`for_each_concurrent`](super::StreamExt::for_each_concurrent)
    /// method.
    #[must_use = "futures do nothing unless you `.await` or poll them"]
    pub struct ForEachConcurrent<St, Fut, F> {
        #[pin]
        stream: Option<St>,
        f: F,
        futures: FuturesUnorderedBounded<Fut>,
    }
}

impl<St, Fut, F> ForEachConcurrent<St, Fut, F>
where
    St: Stream,
    F: FnMut(St::Item) -> Fut,
    Fut: Future<Output = ()>,
{
    pub(super) fn new(stream: St, limit: usize, f: F) -> Self {
        Self {
            stream: Some(stream),
            f,
            futures: FuturesUnorderedBounded::new(limit),
        }
    }
}

impl<St, Fut, F> FusedFuture for ForEachConcurrent<St, Fut, F>
where
    St: Stream,
    F: FnMut(St::Item) -> Fut,
    Fut: Future<Output = ()>,
{
    fn is_terminated(&self) -> bool {
        self.stream.is_none() && self.futures.is_empty()
    }
}

impl<St, Fut, F> Future for ForEachConcurrent<St, Fut, F>
where
    St: Stream,
    F: FnMut(St::Item) -> Fut,
    Fut: Future<Output = ()>,
{
    type Output = ();

    fn poll(self: Pin<&mut Self>, cx: &mut Context<'_>) -> Poll<()> {
        let mut this = self.project();

        loop {
            let mut should_poll_stream = false;

            let unordered = &mut *this.futures;

            // if there's capacity for more futures, try and poll the stream
            if unordered.tasks.len() < unordered.tasks.capacity() {
                if let Some(s) = this.stream.as_mut().as_pin_mut() {
                    match s.poll_next(cx) {
                        Poll::Ready(Some(elem)) => {
                            should_poll_stream = true;
                            unordered.push((this.f)(elem));
                        }
                        Poll::Ready(None) => this.stream.as_mut().set(None),
                        Poll::Pending => {}
                    }
                }
            }

            // Attempt to pull the next value from the in_progress_queue
            match Pin::new(unordered).poll_next(cx) {
                Poll::Pending => {}
                Poll::Ready(None) => {
                    // If the stream is finished, then we are done here
                    if this.stream.as_mut().as_pin_mut().is_none() {
                        break Poll::Ready(());
                    }
                }
                Poll::Ready(Some(())) => continue,
            }

            if !should_poll_stream {
                break Poll::Pending;
            }
        }
    }
}
