use core::{
    future::Future,
    pin::Pin,
    task::{Context, Poll},
};
use futures_core::Stream;
use pin_project_lite::pin_project;

use crate::FuturesUnorderedBounded;

pin_project!(
    /// Stream for the [`buffered_unordered`](crate::BufferedStreamExt::buffered_unordered)
    /// method.
    ///
    /// # Examples
    ///
    /// ```
    /// # futures::executor::block_on(async {
    /// use futures::channel::oneshot;
    /// use futures::stream::{self, StreamExt};
    /// use futures_buffered::BufferedStreamExt;
    ///
    /// let (send_one, recv_one) = oneshot::channel();
    /// let (send_two, recv_two) = oneshot::channel();
    ///
    /// let stream_of_futures = stream::iter(vec![recv_one, recv_two]);
    /// let mut buffered = stream_of_futures.buffered_unordered(10);
    ///
    /// send_two.send(2i32)?;
    /// assert_eq!(buffered.next().await, Some(Ok(2i32)));
    ///
    /// send_one.send(1i32)?;
    /// assert_eq!(buffered.next().await, Some(Ok(1i32)));
    ///
    /// assert_eq!(buffered.next().await, None);
    /// # Ok::<(), i32>(()) }).unwrap();
    /// ```
    ///
    /// ## Benchmarks
    ///
    /// ### Speed
    ///
    /// Running 65536 100us timers with 256 concurrent jobs in a single threaded tokio runtime:
    ///
    /// ```text
    /// futures::stream::BufferUnordered    time:   [420.33 ms 422.57 ms 424.83 ms]
    /// futures_buffered::BufferUnordered   time:   [363.39 ms 365.59 ms 367.78 ms]
    /// ```
    ///
    /// ### Memory usage
    ///
    /// Running 512000 `Ready<i32>` futures with 256 concurrent jobs.
    ///
    /// - count: the number of times alloc/dealloc was called
    /// - alloc: the number of cumulative bytes allocated
    /// - dealloc: the number of cumulative bytes deallocated
    ///
    /// ```text
    /// futures::stream::BufferUnordered
    ///     count:    1024002
    ///     alloc:    40960144 B
    ///     dealloc:  40960000 B
    ///
    /// futures_buffered::BufferUnordered
    ///     count:    2
    ///     alloc:    8264 B
    ///     dealloc:  0 B
    /// ```
    #[must_use = "streams do nothing unless polled"]
    pub struct BufferUnordered<S: Stream> {
        #[pin]
        pub(crate) stream: Option<S>,
        pub(crate) in_progress_queue: FuturesUnorderedBounded<S::Item>,
    }
);

impl<St> Stream for BufferUnordered<St>
where
    St: Stream,
    St::Item: Future,
{
    type Item = <St::Item as Future>::Output;

    fn poll_next(self: Pin<&mut Self>, cx: &mut Context<'_>) -> Poll<Option<Self::Item>> {
        let mut this = self.project();

        // First up, try to spawn off as many futures as possible by filling up
        // our queue of futures.
        let unordered = this.in_progress_queue;
        while unordered.tasks.len() < unordered.tasks.capacity() {
            if let Some(s) = this.stream.as_mut().as_pin_mut() {
                match s.poll_next(cx) {
                    Poll::Ready(Some(fut)) => {
                        unordered.push(fut);
                        continue;
                    }
                    Poll::Ready(None) => this.stream.as_mut().set(None),
                    Poll::Pending => {}
                }
            }
            break;
        }

        // Attempt to pull the next value from the in_progress_queue
        match Pin::new(unordered).poll_next(cx) {
            x @ (Poll::Pending | Poll::Ready(Some(_))) => return x,
            Poll::Ready(None) => {}
        }

        // If more values are still coming from the stream, we're not done yet
        if this.stream.as_pin_mut().is_none() {
            Poll::Ready(None)
        } else {
            Poll::Pending
        }
    }

    fn size_hint(&self) -> (usize, Option<usize>) {
        let queue_len = self.in_progress_queue.len();
        let (lower, upper) = self
            .stream
            .as_ref()
            .map(|s| s.size_hint())
            .unwrap_or((0, Some(0)));
        let lower = lower.saturating_add(queue_len);
        let upper = match upper {
            Some(x) => x.checked_add(queue_len),
            None => None,
        };
        (lower, upper)
    }
}

#[cfg(test)]
mod tests {
    use crate::BufferedStreamExt;

    use super::*;
    use futures::{channel::oneshot, stream, StreamExt};
    use futures_test::task::noop_context;
    use rand::{rng, Rng};
    use tokio::task::JoinSet;

    #[test]
    fn buffered_unordered() {
        let (send_one, recv_one) = oneshot::channel();
        let (send_two, recv_two) = oneshot::channel();

        let stream_of_futures = stream::iter(vec![recv_one, recv_two]);
        let mut buffered = stream_of_futures.buffered_unordered(10);
        let mut cx = noop_context();

        // sized properly
        assert_eq!(buffered.size_hint(), (2, Some(2)));

        // make sure it returns pending
        assert_eq!(buffered.poll_next_unpin(&mut cx), Poll::Pending);

        // returns in any order
        send_two.send(2i32).unwrap();
        assert_eq!(
            buffered.poll_next_unpin(&mut cx),
            Poll::Ready(Some(Ok(2i32)))
        );

        send_one.send(1i32).unwrap();
        assert_eq!(
            buffered.poll_next_unpin(&mut cx),
            Poll::Ready(Some(Ok(1i32)))
        );

        // completes properly
        assert_eq!(buffered.poll_next_unpin(&mut cx), Poll::Ready(None));
    }

    #[cfg(not(miri))]
    // #[tokio::test(flavor = "multi_thread")]
    #[tokio::test(start_paused = true)]
    async fn high_concurrency() {
        let now = tokio::time::Instant::now();
        let dur = std::time::Duration::from_millis(10);
        let n = 1024 * 16;
        let c = 32;

        let estimated = dur.as_secs_f64() * 10.5 * (n as f64) / (c as f64) * 4.0;
        dbg!(estimated);

        let mut js = JoinSet::new();

        for _ in 0..32 {
            js.spawn(async move {
                let x = futures::stream::repeat_with(|| {
                    let n = rng().random_range(1..=20);
                    let fut = async move {
                        for _ in 0..4 {
                            tokio::time::sleep(n * dur).await;
                        }
                    };
                    tokio::time::timeout(dur * (5 * n), fut)
                });
                let x = x.take(n as usize).buffered_unordered(c as usize);
                x.for_each(|res| async { res.unwrap() }).await;
            });
        }

        while js.join_next().await.is_some() {}

        let elapsed = now.elapsed().as_secs_f64();
        dbg!(elapsed);
    }
}
