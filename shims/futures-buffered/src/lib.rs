//! # futures-buffered
//!
//! This project provides a single future structure: `FuturesUnorderedBounded`.
//!
//! Much like [`futures::stream::FuturesUnordered`](https://docs.rs/futures/0.3.25/futures/stream/struct.FuturesUnordered.html),
//! this is a thread-safe, `Pin` friendly, lifetime friendly, concurrent processing stream.
//!
//! The is different to `FuturesUnordered` in that `FuturesUnorderedBounded` has a fixed capacity for processing count.
//! This means it's less flexible, but produces better memory efficiency.
//!
//! ## Benchmarks
//!
//! ### Speed
//!
//! Running 65536 100us timers with 256 concurrent jobs in a single threaded tokio runtime:
//!
//! ```text
//! FuturesUnordered         time:   [420.47 ms 422.21 ms 423.99 ms]
//! FuturesUnorderedBounded  time:   [366.02 ms 367.54 ms 369.05 ms]
//! ```
//!
//! ### Memory usage
//!
//! Running 512000 `Ready<i32>` futures with 256 concurrent jobs.
//!
//! - count: the number of times alloc/dealloc was called
//! - alloc: the number of cumulative bytes allocated
//! - dealloc: the number of cumulative bytes deallocated
//!
//! ```text
//! FuturesUnordered
//!     count:    1024002
//!     alloc:    40960144 B
//!     dealloc:  40960000 B
//!
//! FuturesUnorderedBounded
//!     count:    2
//!     alloc:    8264 B
//!     dealloc:  0 B
//! ```
//!
//! ### Conclusion
//!
//! As you can see, `FuturesUnorderedBounded` massively reduces you memory overhead while providing a significant performance gain.
//! Perfect for if you want a fixed batch size
//!
//! # Example
//! ```
//! use futures::future::Future;
//! use futures::stream::StreamExt;
//! use futures_buffered::FuturesUnorderedBounded;
//! use hyper::client::conn::http1::{handshake, SendRequest};
//! use hyper::body::Incoming;
//! use hyper::{Request, Response};
//! use hyper_util::rt::TokioIo;
//! use tokio::net::TcpStream;
//!
//! # #[cfg(miri)] fn main() {}
//! # #[cfg(not(miri))] #[tokio::main]
//! # async fn main() -> Result<(), Box<dyn std::error::Error>> {
//! // create a tcp connection
//! let stream = TcpStream::connect("example.com:80").await?;
//!
//! // perform the http handshakes
//! let (mut rs, conn) = handshake(TokioIo::new(stream)).await?;
//! tokio::spawn(conn);
//!
//! /// make http request to example.com and read the response
//! fn make_req(rs: &mut SendRequest<String>) -> impl Future<Output = hyper::Result<Response<Incoming>>> {
//!     let req = Request::builder()
//!         .header("Host", "example.com")
//!         .method("GET")
//!         .body(String::new())
//!         .unwrap();
//!     rs.send_request(req)
//! }
//!
//! // create a queue that can hold 128 concurrent requests
//! let mut queue = FuturesUnorderedBounded::new(128);
//!
//! // start up 128 requests
//! for _ in 0..128 {
//!     queue.push(make_req(&mut rs));
//! }
//! // wait for a request to finish and start another to fill its place - up to 1024 total requests
//! for _ in 128..1024 {
//!     queue.next().await;
//!     queue.push(make_req(&mut rs));
//! }
//! // wait for the tail end to finish
//! for _ in 0..128 {
//!     queue.next().await;
//! }
//! # Ok(()) }
//! ```
//!
//! # Cooperative Scheduling
//!
//! The functionality provided by this crate are technically their own async schedulers. If you are using this functionality within another
//! async scheduler, you might not cooperate effectively and might starve other tasks in your scheduler.
//!
//! This crate makes sure it doesn't get stuck forever by forcing a yield periodically,
//! but if you're using Tokio you will get better scheduling behaviour if you enable the `tokio-coop` feature.
#![no_std]

extern crate alloc;

#[cfg(test)]
#[macro_use(vec, dbg)]
extern crate std;

use core::future::Future;
use futures_core::Stream;

mod buffered;
mod futures_ordered;
mod futures_ordered_bounded;
mod futures_unordered;
mod futures_unordered_bounded;
mod iter_ext;
mod join_all;
mod merge_bounded;
mod merge_unbounded;
mod slot_map;
mod try_buffered;
mod try_join_all;
mod waker_list;

pub use buffered::{BufferUnordered, BufferedOrdered, BufferedStreamExt};
pub use futures_ordered::FuturesOrdered;
pub use futures_ordered_bounded::FuturesOrderedBounded;
pub use futures_unordered::FuturesUnordered;
pub use futures_unordered_bounded::FuturesUnorderedBounded;
pub use iter_ext::IterExt;
pub use join_all::{join_all, JoinAll};
#[allow(deprecated)]
pub use merge_bounded::{Merge, MergeBounded};
pub use merge_unbounded::MergeUnbounded;
pub use try_buffered::{BufferedTryStreamExt, TryBufferUnordered, TryBufferedOrdered};
pub use try_join_all::{try_join_all, TryJoinAll};

mod private_try_future {
    use core::future::Future;

    pub trait Sealed {}

    impl<F, T, E> Sealed for F where F: ?Sized + Future<Output = Result<T, E>> {}
}

/// A convenience for futures that return `Result` values that includes
/// a variety of adapters tailored to such futures.
///
/// This is [`futures::TryFuture`](futures_core::future::TryFuture) except it's stricter on the future super-trait.
pub trait TryFuture:
    Future<Output = Result<Self::Ok, Self::Err>> + private_try_future::Sealed
{
    type Ok;
    type Err;
}

impl<T, E, F: ?Sized + Future<Output = Result<T, E>>> TryFuture for F {
    type Ok = T;
    type Err = E;
}

mod private_try_stream {
    use futures_core::Stream;

    pub trait Sealed {}

    impl<S, T, E> Sealed for S where S: ?Sized + Stream<Item = Result<T, E>> {}
}

/// A convenience for streams that return `Result` values that includes
/// a variety of adapters tailored to such futures.
///
/// This is [`futures::TryStream`](futures_core::stream::TryStream) except it's stricter on the stream super-trait.
pub trait TryStream:
    Stream<Item = Result<Self::Ok, Self::Err>> + private_try_stream::Sealed
{
    type Ok;
    type Err;
}

impl<T, E, S: ?Sized + Stream<Item = Result<T, E>>> TryStream for S {
    type Ok = T;
    type Err = E;
}
