//! MODEL (see /verif/DESIGN.md §3.3): `FuturesOrdered` with sequential polling.
//!
//! The original keeps the futures in a `FuturesUnordered` (slot map, intrusive waker list, spin
//! mutex) plus a `BinaryHeap` of early results.  The observable contract — outputs are yielded in
//! submission order — is kept: this model polls the front future only and yields its output when
//! it is ready.  That is one of the schedules the original admits; for futures that do not depend
//! on each other's progress the yielded sequence is identical.  Wake-up bookkeeping is dropped,
//! which is sound under a busy-polling executor (the caller's waker is passed through).
use alloc::boxed::Box;
use alloc::collections::VecDeque;
use core::fmt;
use core::iter::FromIterator;
use core::pin::Pin;
use futures_core::future::Future;
use futures_core::stream::Stream;
use futures_core::{
    task::{Context, Poll},
    FusedStream,
};

#[must_use = "streams do nothing unless polled"]
pub struct FuturesOrdered<T: Future> {
    queue: VecDeque<Pin<Box<T>>>,
}

impl<T: Future> Unpin for FuturesOrdered<T> {}

impl<Fut: Future> FuturesOrdered<Fut> {
    pub fn new() -> Self {
        Self { queue: VecDeque::new() }
    }
    pub fn with_capacity(capacity: usize) -> Self {
        Self { queue: VecDeque::with_capacity(capacity) }
    }
    pub fn len(&self) -> usize {
        self.queue.len()
    }
    pub fn is_empty(&self) -> bool {
        self.queue.is_empty()
    }
    pub fn push_back(&mut self, future: Fut) {
        self.queue.push_back(Box::pin(future));
    }
    pub fn push_front(&mut self, future: Fut) {
        self.queue.push_front(Box::pin(future));
    }
}

impl<Fut: Future> Default for FuturesOrdered<Fut> {
    fn default() -> Self {
        Self::new()
    }
}

impl<Fut: Future> Stream for FuturesOrdered<Fut> {
    type Item = Fut::Output;

    fn poll_next(mut self: Pin<&mut Self>, cx: &mut Context<'_>) -> Poll<Option<Self::Item>> {
        let this = &mut *self;
        match this.queue.front_mut() {
            None => Poll::Ready(None),
            Some(f) => match f.as_mut().poll(cx) {
                Poll::Ready(v) => {
                    this.queue.pop_front();
                    Poll::Ready(Some(v))
                }
                Poll::Pending => Poll::Pending,
            },
        }
    }

    fn size_hint(&self) -> (usize, Option<usize>) {
        let len = self.len();
        (len, Some(len))
    }
}

impl<Fut: Future> fmt::Debug for FuturesOrdered<Fut> {
    fn fmt(&self, f: &mut fmt::Formatter<'_>) -> fmt::Result {
        write!(f, "FuturesOrdered {{ ... }}")
    }
}

impl<Fut: Future> FromIterator<Fut> for FuturesOrdered<Fut> {
    fn from_iter<T>(iter: T) -> Self
    where
        T: IntoIterator<Item = Fut>,
    {
        let mut s = Self::new();
        for f in iter {
            s.push_back(f);
        }
        s
    }
}

impl<Fut: Future> FusedStream for FuturesOrdered<Fut> {
    fn is_terminated(&self) -> bool {
        self.queue.is_empty()
    }
}

impl<Fut: Future> Extend<Fut> for FuturesOrdered<Fut> {
    fn extend<I>(&mut self, iter: I)
    where
        I: IntoIterator<Item = Fut>,
    {
        for item in iter {
            self.push_back(item);
        }
    }
}
