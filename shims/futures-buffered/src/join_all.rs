use alloc::{boxed::Box, vec::Vec};
use core::{
    future::Future,
    mem::MaybeUninit,
    pin::Pin,
    task::{Context, Poll},
};

use crate::FuturesUnorderedBounded;

#[must_use = "futures do nothing unless you `.await` or poll them"]
/// Future for the [`join_all`] function.
pub struct JoinAll<F: Future> {
    queue: FuturesUnorderedBounded<F>,
    output: Box<[MaybeUninit<F::Output>]>,
}

impl<F: Future> Unpin for JoinAll<F> {}

/// Creates a future which represents a collection of the outputs of the futures
/// given.
///
/// The returned future will drive execution for all of its underlying futures,
/// collecting the results into a destination `Vec<T>` in the same order as they
/// were provided.
///
/// # Examples
///
/// ```
/// # futures::executor::block_on(async {
/// use futures_buffered::join_all;
///
/// async fn foo(i: u32) -> u32 { i }
///
/// let futures = vec![foo(1), foo(2), foo(3)];
/// assert_eq!(join_all(futures).await, [1, 2, 3]);
/// # });
/// ```
///
/// ## Benchmarks
///
/// ### Speed
///
/// Running 256 100us timers in a single threaded tokio runtime:
///
/// ```text
/// futures::future::join_all   time:   [3.3207 ms 3.3904 ms 3.4552 ms]
/// futures_buffered::join_all  time:   [2.6058 ms 2.6616 ms 2.7189 ms]
/// ```
///
/// ### Memory usage
///
/// Running 256 `Ready<i32>` futures.
///
/// - count: the number of times alloc/dealloc was called
/// - alloc: the number of cumulative bytes allocated
/// - dealloc: the number of cumulative bytes deallocated
///
/// ```text
/// futures::future::join_all
///     count:    512
///     alloc:    26744 B
///     dealloc:  26744 B
///
/// futures_buffered::join_all
///     count:    6
///     alloc:    10312 B
///     dealloc:  10312 B
/// ```
pub fn join_all<I>(iter: I) -> JoinAll<<I as IntoIterator>::Item>
where
    I: IntoIterator,
    <I as IntoIterator>::Item: Future,
{
    // create the queue
    let queue = FuturesUnorderedBounded::from_iter(iter);

    // create the output buffer
    let mut output = Vec::with_capacity(queue.capacity());
    output.resize_with(queue.capacity(), MaybeUninit::uninit);

    JoinAll {
        queue,
        output: output.into_boxed_slice(),
    }
}

impl<F: Future> Future for JoinAll<F> {
    type Output = Vec<F::Output>;

    fn poll(mut self: Pin<&mut Self>, cx: &mut Context<'_>) -> Poll<Self::Output> {
        loop {
            match self.as_mut().queue.poll_inner(cx) {
                Poll::Ready(Some((i, x))) => {
                    self.output[i].write(x);
                }
                Poll::Ready(None) => {
                    // SAFETY: for Ready(None) to be returned, we know that every future in the queue
                    // must be consumed. Since we have a 1:1 mapping in the queue to our output, we
                    // know that every output entry is init.
                    let boxed = unsafe {
                        // take the boxed slice
                        let boxed =
                            core::mem::replace(&mut self.output, Vec::new().into_boxed_slice());

                        // Box::assume_init
                        let raw = Box::into_raw(boxed);
                        Box::from_raw(raw as *mut [F::Output])
                    };

                    break Poll::Ready(boxed.into_vec());
                }
                Poll::Pending => break Poll::Pending,
            }
        }
    }
}

#[cfg(test)]
mod tests {
    use core::future::ready;

    #[test]
    fn join_all() {
        let x = futures::executor::block_on(crate::join_all((0..10).map(ready)));

        assert_eq!(x.len(), 10);
        assert_eq!(x.capacity(), 10);
    }
}
