use alloc::{boxed::Box, vec::Vec};
use core::{
    future::Future,
    mem::MaybeUninit,
    pin::Pin,
    task::{Context, Poll},
};

use crate::{FuturesUnorderedBounded, TryFuture};

#[must_use = "futures do nothing unless you `.await` or poll them"]
/// Future for the [`try_join_all`] function.
pub struct TryJoinAll<F: TryFuture> {
    queue: FuturesUnorderedBounded<F>,
    output: Box<[MaybeUninit<F::Ok>]>,
}

impl<F: TryFuture> Unpin for TryJoinAll<F> {}

/// Creates a future which represents a collection of the outputs of the futures
/// given.
///
/// The returned future will drive execution for all of its underlying futures,
/// collecting the results into a destination `Vec<T>` in the same order as they
/// were provided.
///
/// If any future returns an error then all other futures will be canceled and
/// an error will be returned immediately. If all futures complete successfully,
/// however, then the returned future will succeed with a `Vec` of all the
/// successful results.
///
/// # Examples
///
/// ```
/// # futures::executor::block_on(async {
/// use futures_buffered::try_join_all;
///
/// async fn foo(i: u32) -> Result<u32, u32> {
///     if i < 4 { Ok(i) } else { Err(i) }
/// }
///
/// let futures = vec![foo(1), foo(2), foo(3)];
/// assert_eq!(try_join_all(futures).await, Ok(vec![1, 2, 3]));
///
/// let futures = vec![foo(1), foo(2), foo(3), foo(4)];
/// assert_eq!(try_join_all(futures).await, Err(4));
/// # });
/// ```
///
/// See [`join_all`](crate::join_all()) for benchmark results
pub fn try_join_all<I>(iter: I) -> TryJoinAll<<I as IntoIterator>::Item>
where
    I: IntoIterator,
    <I as IntoIterator>::Item: TryFuture,
{
    // create the queue
    let queue = FuturesUnorderedBounded::from_iter(iter);

    // create the output buffer
    let mut output = Vec::with_capacity(queue.capacity());
    output.resize_with(queue.capacity(), MaybeUninit::uninit);

    TryJoinAll {
        queue,
        output: output.into_boxed_slice(),
    }
}

impl<F: TryFuture> Future for TryJoinAll<F> {
    type Output = Result<Vec<F::Ok>, F::Err>;

    fn poll(mut self: Pin<&mut Self>, cx: &mut Context<'_>) -> Poll<Self::Output> {
        loop {
            match self.as_mut().queue.poll_inner(cx) {
                Poll::Ready(Some((i, Ok(t)))) => {
                    self.output[i].write(t);
                }
                Poll::Ready(Some((_, Err(e)))) => {
                    break Poll::Ready(Err(e));
                }
                Poll::Ready(None) => {
                    // SAFETY: for Ready(None) to be returned, we know that every future in the queue
                    // must be consumed. Since we have a 1:1 mapping in the queue to our output, we
                    // know that every output entry is init.
                    let boxed = unsafe {
                        // take the boxed slice
                        let boxed =
                            core::mem::replace(&mut self.output, Vec::new().into_boxed_slice());

                        // Box::assume_init
                        let raw = Box::into_raw(boxed);
                        Box::from_raw(raw as *mut [F::Ok])
                    };

                    break Poll::Ready(Ok(boxed.into_vec()));
                }
                Poll::Pending => break Poll::Pending,
            }
        }
    }
}

#[cfg(test)]
mod tests {
    use core::future::ready;

    #[test]
    fn try_join_all() {
        let x = futures::executor::block_on(crate::try_join_all(
            (0..10).map(|i| ready(Result::<_, ()>::Ok(i))),
        ))
        .unwrap();

        assert_eq!(x, [0, 1, 2, 3, 4, 5, 6, 7, 8, 9]);
        assert_eq!(x.capacity(), 10);

        futures::executor::block_on(crate::try_join_all(
            (0..10).map(|i| ready(if i == 9 { Err(()) } else { Ok(i) })),
        ))
        .unwrap_err();
    }
}
