#![warn(unsafe_op_in_unsafe_fn)]

use alloc::alloc::{dealloc, handle_alloc_error, Layout};
use cordyceps::{
    mpsc_queue::{Links, TryDequeueError},
    Linked, MpscQueue,
};
use core::{
    marker::PhantomData,
    mem::ManuallyDrop,
    ptr::{self, drop_in_place, NonNull},
    sync::atomic::{self, AtomicUsize, Ordering},
    task::Waker,
};
use diatomic_waker::primitives::DiatomicWaker;
use spin::mutex::SpinMutex;

/// [`WakerList`] is a fun optimisation. For `FuturesUnorderedBounded`, we have `n` slots for futures,
/// and we create a separate context when polling each individual future to avoid having n^2 polling.
///
/// Originally, we pre-allocated `n` `Arc<Wake>` types and stored those along side the future slots.
/// These wakers would have a `Weak` pointing to some shared state, as well as an index for which slot this
/// waker is associated with.
///
/// [`RawWaker`] only gives us 1 pointer worth of data to play with - but we need 2. So unfortunately we needed
/// the extra allocations here
///
/// ... unless we hack around a little bit!
///
/// [`WakerList`] represents the shared state, as well as having a long tail of indices. The layout is as follows
/// ```text
/// [ strong_count | waker | head | tail | len | slot 0 | slot 1 | slot 2 | slot 3 | ... ]
/// ```
///
/// [`WakerItem`] represents our [`RawWaker`]. It points to one of the numbers in the list.
/// Since the layouts of the internals are fixed (`repr(C)`) - we can count back from the index to find
/// the shared data.
///
/// For example, if we have an `WakerItem` pointing at the number 2, we can count back to pointer 2 `usize`s + [`WakerHeader`] to find
/// the start of the [`WakerList`], and then we can insert `2` into the list of futures to poll, finally calling `waker.wake()`.
///
/// Each slot also forms part of a linked list.
pub(crate) struct WakerList {
    ptr: NonNull<WakerHeader>,
    phantom: PhantomData<WakerListInner>,
}

// The physical representation of WakerList.
// A `ThinBox<WakerListInner>`
#[repr(C)]
pub(crate) struct WakerListInner {
    meta: WakerHeader,
    slice: [WakerItem],
}

pub(crate) struct WakerHeader {
    strong: AtomicUsize,
    waker: DiatomicWaker,
    len: usize,
    queue: MpscQueue<WakerItem>,
}

pub(crate) struct WakerItem {
    links: Links<Self>,
    // if true, then this slot is already woken and queued for processing.
    // if false, then this slot is available to be queued.
    wake_lock: SpinMutex<bool>,
    index: usize,
}

// SAFETY:
// 1. WakerItemInner will be pinned in memory within the WakerList allocation
// 2. The `Links` object enforces WakerItemInner to be !Unpin
unsafe impl Linked<Links<Self>> for WakerItem {
    type Handle = NonNull<Self>;

    fn into_ptr(r: Self::Handle) -> NonNull<Self> {
        r
    }

    unsafe fn from_ptr(ptr: NonNull<Self>) -> Self::Handle {
        ptr
    }

    unsafe fn links(ptr: NonNull<Self>) -> NonNull<Links<Self>> {
        let this = ptr.as_ptr();
        let links = unsafe { ptr::addr_of_mut!((*this).links) };
        unsafe { NonNull::new_unchecked(links) }
    }
}

const fn __assert_send_sync<T: Send + Sync>() {}
const _: () = {
    // SyncUnsafeCell :ferrisPlead:
    // __assert_send_sync::<WakerHeader>();
    __assert_send_sync::<WakerItem>();

    // SAFETY: The contents of the WakerList are Send+Sync
    unsafe impl Send for WakerList {}
    unsafe impl Sync for WakerList {}
};

impl WakerList {
    fn slice_start(&self) -> *mut WakerItem {
        unsafe {
            let ptr = self.ptr.as_ptr().cast::<u8>();
            ptr.add(slice_offset()).cast::<WakerItem>()
        }
    }

    /// The push function from the 1024cores intrusive MPSC queue algorithm.
    /// <https://www.1024cores.net/home/lock-free-algorithms/queues/intrusive-mpsc-node-based-queue>
    ///
    /// Safety: index must be within capacity
    pub(crate) unsafe fn push(&self, index: usize) {
        let queue = unsafe { &*ptr::addr_of!((*self.ptr.as_ptr()).queue) };
        let slot = unsafe { self.slice_start().add(index) };

        let mut wake_lock = unsafe { &*slot }.wake_lock.lock();
        let prev = core::mem::replace(&mut *wake_lock, true);

        if !prev {
            queue.enqueue(unsafe { NonNull::new_unchecked(slot) });
        }
    }

    /// Register the waker
    pub(crate) fn register(&mut self, waker: &Waker) {
        // Safety:
        // Diatomic waker requires we do not concurrently run
        // "register", "unregister", and "wait_until".
        // we only call register with mut access, thus we are safe.
        let meta = unsafe { &*self.ptr.as_ptr() };
        unsafe { meta.waker.register(waker) }
    }

    fn get(&self, index: usize) -> ManuallyDrop<Waker> {
        // SAFETY: This cannot go through Deref::deref or RcBoxPtr::inner because
        // this is required to retain raw/mut provenance such that e.g. `get_mut` can
        // write through the pointer after the Rc is recovered through `from_raw`.
        let slot = unsafe { self.slice_start().add(index) };

        debug_assert_eq!(
            unsafe { (*slot).index },
            index,
            "the slot should point at our index"
        );
        slot::waker(slot)
    }

    /// The pop function from the 1024cores intrusive MPSC queue algorithm
    ///
    /// Note that this is unsafe as it required mutual exclusion (only one
    /// thread can call this) to be guaranteed elsewhere.
    pub(crate) unsafe fn pop(&self) -> ReadySlot<(usize, ManuallyDrop<Waker>)> {
        let queue = unsafe { &*ptr::addr_of!((*self.ptr.as_ptr()).queue) };
        match unsafe { queue.try_dequeue_unchecked() } {
            Ok(slot) => {
                let slot = unsafe { &*slot.as_ptr() };
                *slot.wake_lock.lock() = false;
                ReadySlot::Ready((slot.index, self.get(slot.index)))
            }
            Err(TryDequeueError::Inconsistent) => ReadySlot::Inconsistent,
            Err(TryDequeueError::Empty) => ReadySlot::None,
            Err(TryDequeueError::Busy) => unreachable!(),
        }
    }
}

pub(crate) enum ReadySlot<T> {
    Ready(T),
    Inconsistent,
    None,
}

mod slot {
    use core::{
        mem::ManuallyDrop,
        ptr::NonNull,
        task::{RawWaker, RawWakerVTable, Waker},
    };

    use super::{slice_offset, WakerHeader, WakerItem};

    /// Traverses back the [`WakerList`] to find the [`WakerHeader`] pointer
    ///
    /// # Safety:
    /// `ptr` must be from an `WakerItem` originally
    unsafe fn meta_raw(ptr: *mut WakerItem) -> *mut WakerHeader {
        let index = unsafe { (*ptr).index };
        let slice_start = unsafe { ptr.sub(index) };

        unsafe { slice_start.cast::<u8>().sub(slice_offset()) }.cast::<WakerHeader>()
    }

    /// Traverses back the [`WakerList`] to find the [`WakerHeader`] pointer
    ///
    /// # Safety:
    /// * `ptr` must be from an `WakerItem` originally
    /// * The original `WakerItem` must outlive `'a`
    unsafe fn meta_ref<'a>(ptr: *const WakerItem) -> &'a WakerHeader {
        unsafe { &*meta_raw(ptr.cast_mut()) }
    }

    pub(super) fn waker(ptr: *const WakerItem) -> ManuallyDrop<Waker> {
        static VTABLE: &RawWakerVTable =
            &RawWakerVTable::new(clone_waker, wake, wake_by_ref, drop_waker);

        // Increment the reference count of the arc to clone it.
        unsafe fn clone_waker(waker: *const ()) -> RawWaker {
            unsafe { meta_ref(waker.cast()).inc_strong() };
            RawWaker::new(waker, VTABLE)
        }

        // We don't need ownership. Just wake_by_ref and drop the waker
        unsafe fn wake(waker: *const ()) {
            unsafe {
                wake_by_ref(waker);
                drop_waker(waker);
            }
        }

        // Find the `WakerHeader` and push the current index value into it,
        // then call the stored waker to trigger a poll
        unsafe fn wake_by_ref(waker: *const ()) {
            let slot = waker.cast::<WakerItem>();

            let node = unsafe { &*slot };

            let mut wake_lock = node.wake_lock.lock();
            let prev = core::mem::replace(&mut *wake_lock, true);

            if !prev {
                let meta = unsafe { meta_ref(slot) };
                meta.queue
                    .enqueue(unsafe { NonNull::new_unchecked(slot.cast_mut()) });
                meta.waker.notify();
            }
        }

        // Decrement the reference count of the Arc on drop
        unsafe fn drop_waker(waker: *const ()) {
            let meta = unsafe { meta_ref(waker.cast()) };
            if meta.dec_strong() {
                unsafe {
                    super::drop_inner(meta_raw(waker.cast::<WakerItem>().cast_mut()), meta.len);
                }
            }
        }

        let raw_waker = RawWaker::new(ptr.cast(), VTABLE);
        unsafe { ManuallyDrop::new(Waker::from_raw(raw_waker)) }
    }
}

impl WakerHeader {
    fn inc_strong(&self) {
        // Using a relaxed ordering is alright here, as knowledge of the
        // original reference prevents other threads from erroneously deleting
        // the object.
        //
        // As explained in the [Boost documentation][1], Increasing the
        // reference counter can always be done with memory_order_relaxed: New
        // references to an object can only be formed from an existing
        // reference, and passing an existing reference from one thread to
        // another must already provide any required synchronization.
        //
        // [1]: (www.boost.org/doc/libs/1_55_0/doc/html/atomic/usage_examples.html)
        let old_size = self.strong.fetch_add(1, Ordering::Relaxed);

        // However we need to guard against massive refcounts in case someone is `mem::forget`ing
        // Arcs. If we don't do this the count can overflow and users will use-after free. This
        // branch will never be taken in any realistic program. We abort because such a program is
        // incredibly degenerate, and we don't care to support it.
        //
        // This check is not 100% water-proof: we error when the refcount grows beyond `isize::MAX`.
        // But we do that check *after* having done the increment, so there is a chance here that
        // the worst already happened and we actually do overflow the `usize` counter. However, that
        // requires the counter to grow from `isize::MAX` to `usize::MAX` between the increment
        // above and the `abort` below, which seems exceedingly unlikely.
        if old_size > (isize::MAX) as usize {
            abort("too many arc clones");
        }
    }
    fn dec_strong(&self) -> bool {
        // Because `fetch_sub` is already atomic, we do not need to synchronize
        // with other threads unless we are going to delete the object. This
        // same logic applies to the below `fetch_sub` to the `weak` count.
        let old_size = self.strong.fetch_sub(1, Ordering::Release);
        if old_size != 1 {
            return false;
        }

        // This fence is needed to prevent reordering of use of the data and
        // deletion of the data.  Because it is marked `Release`, the decreasing
        // of the reference count synchronizes with this `Acquire` fence. This
        // means that use of the data happens before decreasing the reference
        // count, which happens before this fence, which happens before the
        // deletion of the data.
        //
        // As explained in the [Boost documentation][1],
        //
        // > It is important to enforce any possible access to the object in one
        // > thread (through an existing reference) to *happen before* deleting
        // > the object in a different thread. This is achieved by a "release"
        // > operation after dropping a reference (any access to the object
        // > through this reference must obviously happened before), and an
        // > "acquire" operation before deleting the object.
        //
        // In particular, while the contents of an Arc are usually immutable, it's
        // possible to have interior writes to something like a Mutex<T>. Since a
        // Mutex is not acquired when it is deleted, we can't rely on its
        // synchronization logic to make writes in thread A visible to a destructor
        // running in thread B.
        //
        // Also note that the Acquire fence here could probably be replaced with an
        // Acquire load, which could improve performance in highly-contended
        // situations. See [2].
        //
        // [1]: (www.boost.org/doc/libs/1_55_0/doc/html/atomic/usage_examples.html)
        // [2]: (https://github.com/rust-lang/rust/pull/41714)
        atomic::fence(Ordering::Acquire);
        true
    }
}

fn slice_offset() -> usize {
    fn padding_needed_for(layout: &Layout, align: usize) -> usize {
        let len = layout.size();

        // Rounded up value is:
        //   len_rounded_up = (len + align - 1) & !(align - 1);
        // and then we return the padding difference: `len_rounded_up - len`.
        //
        // We use modular arithmetic throughout:
        //
        // 1. align is guaranteed to be > 0, so align - 1 is always
        //    valid.
        //
        // 2. `len + align - 1` can overflow by at most `align - 1`,
        //    so the &-mask with `!(align - 1)` will ensure that in the
        //    case of overflow, `len_rounded_up` will itself be 0.
        //    Thus the returned padding, when added to `len`, yields 0,
        //    which trivially satisfies the alignment `align`.
        //
        // (Of course, attempts to allocate blocks of memory whose
        // size and padding overflow in the above manner should cause
        // the allocator to yield an error anyway.)

        let len_rounded_up = len.wrapping_add(align).wrapping_sub(1) & !align.wrapping_sub(1);
        len_rounded_up.wrapping_sub(len)
    }

    let layout = Layout::new::<WakerHeader>();
    layout.size() + padding_needed_for(&layout, core::mem::align_of::<WakerItem>())
}

/// Drops the internals of the [`WakerList`].
///
/// # Safety:
/// The pointer must point to a currently allocated [`WakerList`].
unsafe fn drop_inner(p: *mut WakerHeader, capacity: usize) {
    let layout = WakerList::layout(capacity);

    // SAFETY: the pointer points to an aligned and init instance of `WakerHeader`
    unsafe { drop_in_place(p) };

    // SAFETY: this pointer has been allocated in the global allocator with the given layout
    unsafe { dealloc(p.cast(), layout) };
}

impl Drop for WakerList {
    fn drop(&mut self) {
        let meta = unsafe { &*self.ptr.as_ptr() };
        if meta.dec_strong() {
            unsafe { drop_inner(self.ptr.as_ptr().cast(), meta.len) }
        }
    }
}

impl WakerList {
    /// Allocates an `ArcInner<T>` with sufficient space for
    /// a possibly-unsized inner value where the value has the layout provided.
    pub(crate) fn new(cap: usize) -> Self {
        // code taken and modified from `Arc::allocate_for_layout`

        let arc_slice_layout = Self::layout(cap);

        // safety: layout size is > 0 because it has at least 7 usizes
        // in the metadata alone
        debug_assert!(arc_slice_layout.size() > 0);
        let ptr = unsafe { alloc::alloc::alloc(arc_slice_layout) };
        if ptr.is_null() {
            handle_alloc_error(arc_slice_layout)
        }

        // meta should be the first item in the alloc
        let meta = ptr.cast::<WakerHeader>();
        let slice = unsafe { ptr.add(slice_offset()).cast::<WakerItem>() };

        // SAFETY:
        // The inner pointer is allocated and aligned, they just need to be initialised
        unsafe {
            let stub = slice.add(cap);

            for i in 0..cap {
                ptr::write(
                    slice.add(i),
                    WakerItem {
                        index: i,
                        wake_lock: SpinMutex::new(false),
                        links: Links::new(),
                    },
                );
            }
            ptr::write(
                slice.add(cap),
                WakerItem {
                    index: cap,
                    wake_lock: SpinMutex::new(false),
                    links: Links::new_stub(),
                },
            );

            ptr::write(
                meta,
                WakerHeader {
                    strong: AtomicUsize::new(1),
                    len: cap,
                    waker: DiatomicWaker::new(),
                    queue: MpscQueue::new_with_stub(NonNull::new_unchecked(stub)),
                },
            );
        }

        Self {
            ptr: unsafe { NonNull::new_unchecked(meta) },
            phantom: PhantomData,
        }
    }

    fn layout(cap: usize) -> Layout {
        let padded = Layout::new::<WakerItem>().pad_to_align();
        let alloc_size = padded.size().checked_mul(cap + 1).unwrap();
        let slice_layout =
            Layout::from_size_align(alloc_size, Layout::new::<WakerItem>().align()).unwrap();

        Layout::new::<WakerHeader>()
            .extend(slice_layout)
            .unwrap()
            .0
            .pad_to_align()
    }
}

fn abort(s: &str) -> ! {
    struct DoublePanic;

    impl Drop for DoublePanic {
        fn drop(&mut self) {
            panic!("panicking twice to abort the program");
        }
    }

    let _bomb = DoublePanic;
    panic!("{}", s);
}
