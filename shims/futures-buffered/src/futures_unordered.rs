use alloc::vec::Vec;
use core::{
    fmt,
    future::Future,
    pin::Pin,
    task::{Context, Poll},
};

use crate::FuturesUnorderedBounded;
use futures_core::{FusedStream, Stream};

/// A set of futures which may complete in any order.
///
/// Much like [`futures::stream::FuturesUnordered`](https://docs.rs/futures/0.3.25/futures/stream/struct.FuturesUnordered.html),
/// this is a thread-safe, `Pin` friendly, lifetime friendly, concurrent processing stream.
///
/// The is different to [`FuturesUnorderedBounded`] because it doesn't have a fixed capacity.
/// It still manages to achieve good efficiency however
///
/// ## Benchmarks
///
/// All benchmarks are run with `FuturesUnordered::new()`, no predefined capacity.
///
/// ### Speed
///
/// Running 65536 100us timers with 256 concurrent jobs in a single threaded tokio runtime:
///
/// ```text
/// futures::FuturesUnordered time:   [412.52 ms 414.47 ms 416.41 ms]
/// crate::FuturesUnordered   time:   [412.96 ms 414.69 ms 416.65 ms]
/// FuturesUnorderedBounded   time:   [361.81 ms 362.96 ms 364.13 ms]
/// ```
///
/// ### Memory usage
///
/// Running 512000 `Ready<i32>` futures with 256 concurrent jobs.
///
/// - count: the number of times alloc/dealloc was called
/// - alloc: the number of cumulative bytes allocated
/// - dealloc: the number of cumulative bytes deallocated
///
/// ```text
/// futures::FuturesUnordered
///     count:    1024002
///     alloc:    40960144 B
///     dealloc:  40960000 B
///
/// crate::FuturesUnordered
///     count:    9
///     alloc:    15840 B
///     dealloc:  0 B
/// ```
///
/// ### Conclusion
///
/// As you can see, our `FuturesUnordered` massively reduces you memory overhead while maintaining good performance.
///
/// # Example
///
/// Making 1024 total HTTP requests, with a max concurrency of 128
///
/// ```
/// use futures::future::Future;
/// use futures::stream::StreamExt;
/// use futures_buffered::FuturesUnordered;
/// use hyper::client::conn::http1::{handshake, SendRequest};
/// use hyper::body::Incoming;
/// use hyper::{Request, Response};
/// use hyper_util::rt::TokioIo;
/// use tokio::net::TcpStream;
///
/// # #[cfg(miri)] fn main() {}
/// # #[cfg(not(miri))] #[tokio::main]
/// # async fn main() -> Result<(), Box<dyn std::error::Error>> {
/// // create a tcp connection
/// let stream = TcpStream::connect("example.com:80").await?;
///
/// // perform the http handshakes
/// let (mut rs, conn) = handshake(TokioIo::new(stream)).await?;
/// tokio::spawn(conn);
///
/// /// make http request to example.com and read the response
/// fn make_req(rs: &mut SendRequest<String>) -> impl Future<Output = hyper::Result<Response<Incoming>>> {
///     let req = Request::builder()
///         .header("Host", "example.com")
///         .method("GET")
///         .body(String::new())
///         .unwrap();
///     rs.send_request(req)
/// }
///
/// // create a queue that can hold 128 concurrent requests
/// let mut queue = FuturesUnordered::with_capacity(128);
///
/// // start up 128 requests
/// for _ in 0..128 {
///     queue.push(make_req(&mut rs));
/// }
/// // wait for a request to finish and start another to fill its place - up to 1024 total requests
/// for _ in 128..1024 {
///     queue.next().await;
///     queue.push(make_req(&mut rs));
/// }
/// // wait for the tail end to finish
/// for _ in 0..128 {
///     queue.next().await;
/// }
/// # Ok(()) }
/// ```
pub struct FuturesUnordered<F> {
    rem: usize,
    pub(crate) groups: Vec<FuturesUnorderedBounded<F>>,
    poll_next: usize,
}

pub(crate) const MIN_CAPACITY: usize = 32;

impl<F> Unpin for FuturesUnordered<F> {}

impl<F> Default for FuturesUnordered<F> {
    fn default() -> Self {
        Self::new()
    }
}

impl<F> FuturesUnordered<F> {
    /// Constructs a new, empty [`FuturesUnordered`].
    ///
    /// The returned [`FuturesUnordered`] does not contain any futures.
    /// In this state, [`FuturesUnordered::poll_next`](Stream::poll_next) will
    /// return [`Poll::Ready(None)`](Poll::Ready).
    pub const fn new() -> Self {
        Self {
            rem: 0,
            groups: Vec::new(),
            poll_next: 0,
        }
    }

    /// Constructs a new, empty [`FuturesUnordered`] with the given fixed capacity.
    ///
    /// The returned [`FuturesUnordered`] does not contain any futures.
    /// In this state, [`FuturesUnordered::poll_next`](Stream::poll_next) will
    /// return [`Poll::Ready(None)`](Poll::Ready).
    pub fn with_capacity(n: usize) -> Self {
        if n > 0 {
            Self {
                rem: 0,
                groups: Vec::from_iter([FuturesUnorderedBounded::new(n)]),
                poll_next: 0,
            }
        } else {
            Self::new()
        }
    }

    /// Push a future into the set.
    ///
    /// This method adds the given future to the set. This method will not
    /// call [`poll`](core::future::Future::poll) on the submitted future. The caller must
    /// ensure that [`FuturesUnordered::poll_next`](Stream::poll_next) is called
    /// in order to receive wake-up notifications for the given future.
    pub fn push(&mut self, fut: F) {
        self.rem += 1;

        let last = match self.groups.last_mut() {
            Some(last) => last,
            None => {
                self.groups.push(FuturesUnorderedBounded::new(MIN_CAPACITY));
                self.groups
                    .last_mut()
                    .expect("group should have at least one entry")
            }
        };
        match last.try_push(fut) {
            Ok(()) => {}
            Err(future) => {
                let mut next = FuturesUnorderedBounded::new(last.capacity() * 2);
                next.push(future);
                self.groups.push(next);
            }
        }
    }

    /// Returns `true` if the set contains no futures.
    pub fn is_empty(&self) -> bool {
        self.rem == 0
    }

    /// Returns the number of futures contained in the set.
    ///
    /// This represents the total number of in-flight futures.
    pub fn len(&self) -> usize {
        self.rem
    }

    /// Returns the number of futures that can be contained in the set.
    pub fn capacity(&self) -> usize {
        match self.groups.as_slice() {
            [] => 0,
            [only] => only.capacity(),
            [.., last] => {
                let spare_cap = last.capacity() - last.len();
                self.rem + spare_cap
            }
        }
    }
}

impl<F: Future> Stream for FuturesUnordered<F> {
    type Item = F::Output;

    fn poll_next(mut self: Pin<&mut Self>, cx: &mut Context<'_>) -> Poll<Option<Self::Item>> {
        let Self {
            rem,
            groups,
            poll_next,
        } = &mut *self;
        if groups.is_empty() {
            return Poll::Ready(None);
        }

        for _ in 0..groups.len() {
            if *poll_next >= groups.len() {
                *poll_next = 0;
            }

            let poll = Pin::new(&mut groups[*poll_next]).poll_next(cx);
            match poll {
                Poll::Ready(Some(x)) => {
                    *rem -= 1;
                    return Poll::Ready(Some(x));
                }
                Poll::Ready(None) => {
                    let group = groups.remove(*poll_next);
                    debug_assert!(group.is_empty());

                    if groups.is_empty() {
                        // group should contain at least 1 set
                        groups.push(group);
                        debug_assert_eq!(*rem, 0);
                        return Poll::Ready(None);
                    }

                    // we do not want to drop the last set as it contains
                    // the largest allocation that we want to keep a hold of
                    if *poll_next == groups.len() {
                        groups.push(group);
                        *poll_next = 0;
                    }
                }
                Poll::Pending => {
                    *poll_next += 1;
                }
            }
        }
        Poll::Pending
    }

    fn size_hint(&self) -> (usize, Option<usize>) {
        (self.rem, Some(self.rem))
    }
}
impl<F: Future> FusedStream for FuturesUnordered<F> {
    fn is_terminated(&self) -> bool {
        self.is_empty()
    }
}

impl<F> FromIterator<F> for FuturesUnordered<F> {
    /// Constructs a new, empty [`FuturesUnordered`] with a fixed capacity that is the length of the iterator.
    ///
    /// # Example
    ///
    /// Making 1024 total HTTP requests, with a max concurrency of 128
    ///
    /// ```
    /// use futures::future::Future;
    /// use futures::stream::StreamExt;
    /// use futures_buffered::FuturesUnordered;
    /// use hyper::client::conn::http1::{handshake, SendRequest};
    /// use hyper::body::Incoming;
    /// use hyper::{Request, Response};
    /// use hyper_util::rt::TokioIo;
    /// use tokio::net::TcpStream;
    ///
    /// # #[cfg(miri)] fn main() {}
    /// # #[cfg(not(miri))] #[tokio::main]
    /// # async fn main() -> Result<(), Box<dyn std::error::Error>> {
    /// // create a tcp connection
    /// let stream = TcpStream::connect("example.com:80").await?;
    ///
    /// // perform the http handshakes
    /// let (mut rs, conn) = handshake(TokioIo::new(stream)).await?;
    /// tokio::spawn(conn);
    ///
    /// /// make http request to example.com and read the response
    /// fn make_req(rs: &mut SendRequest<String>) -> impl Future<Output = hyper::Result<Response<Incoming>>> {
    ///     let req = Request::builder()
    ///         .header("Host", "example.com")
    ///         .method("GET")
    ///         .body(String::new())
    ///         .unwrap();
    ///     rs.send_request(req)
    /// }
    ///
    /// // create a queue with an initial 128 concurrent requests
    /// let mut queue: FuturesUnordered<_> = (0..128).map(|_| make_req(&mut rs)).collect();
    ///
    /// // wait for a request to finish and start another to fill its place - up to 1024 total requests
    /// for _ in 128..1024 {
    ///     queue.next().await;
    ///     queue.push(make_req(&mut rs));
    /// }
    /// // wait for the tail end to finish
    /// for _ in 0..128 {
    ///     queue.next().await;
    /// }
    /// # Ok(()) }
    /// ```
    fn from_iter<T: IntoIterator<Item = F>>(iter: T) -> Self {
        let iter = iter.into_iter();
        let mut this =
            FuturesUnordered::with_capacity(usize::max(iter.size_hint().0, MIN_CAPACITY));
        for fut in iter {
            this.push(fut);
        }
        this
    }
}

impl<Fut> fmt::Debug for FuturesUnordered<Fut> {
    fn fmt(&self, f: &mut fmt::Formatter<'_>) -> fmt::Result {
        f.debug_struct("FuturesUnordered")
            .field("queues", &self.groups)
            .field("len", &self.rem)
            .finish_non_exhaustive()
    }
}

#[cfg(test)]
mod tests {
    use super::*;
    use core::{cell::Cell, future::ready, time::Duration};
    use futures::StreamExt;
    use pin_project_lite::pin_project;
    use std::{thread, time::Instant};

    pin_project!(
        struct PollCounter<'c, F> {
            count: &'c Cell<usize>,
            #[pin]
            inner: F,
        }
    );

    impl<F: Future> Future for PollCounter<'_, F> {
        type Output = F::Output;
        fn poll(self: Pin<&mut Self>, cx: &mut Context<'_>) -> Poll<Self::Output> {
            self.count.set(self.count.get() + 1);
            self.project().inner.poll(cx)
        }
    }

    struct Sleep {
        until: Instant,
    }
    impl Unpin for Sleep {}
    impl Future for Sleep {
        type Output = ();

        fn poll(self: Pin<&mut Self>, cx: &mut Context<'_>) -> Poll<Self::Output> {
            let until = self.until;
            if until > Instant::now() {
                let waker = cx.waker().clone();
                thread::spawn(move || {
                    thread::sleep(until.duration_since(Instant::now()));
                    waker.wake();
                });
                Poll::Pending
            } else {
                Poll::Ready(())
            }
        }
    }

    struct Yield {
        done: bool,
    }
    impl Unpin for Yield {}
    impl Future for Yield {
        type Output = ();

        fn poll(mut self: Pin<&mut Self>, cx: &mut Context<'_>) -> Poll<Self::Output> {
            if self.as_mut().done {
                Poll::Ready(())
            } else {
                cx.waker().wake_by_ref();
                self.as_mut().done = true;
                Poll::Pending
            }
        }
    }

    fn yield_now(count: &Cell<usize>) -> PollCounter<'_, Yield> {
        PollCounter {
            count,
            inner: Yield { done: false },
        }
    }

    #[test]
    fn single() {
        let c = Cell::new(0);

        let mut buffer = FuturesUnordered::new();
        buffer.push(yield_now(&c));
        futures::executor::block_on(buffer.next());

        drop(buffer);
        assert_eq!(c.into_inner(), 2);
    }

    #[test]
    fn len() {
        let mut buffer = FuturesUnordered::with_capacity(1);

        assert_eq!(buffer.len(), 0);
        assert!(buffer.is_empty());
        assert_eq!(buffer.capacity(), 1);
        assert_eq!(buffer.size_hint(), (0, Some(0)));
        assert!(buffer.is_terminated());

        buffer.push(ready(()));

        assert_eq!(buffer.len(), 1);
        assert!(!buffer.is_empty());
        assert_eq!(buffer.capacity(), 1);
        assert_eq!(buffer.size_hint(), (1, Some(1)));
        assert!(!buffer.is_terminated());

        buffer.push(ready(()));

        assert_eq!(buffer.len(), 2);
        assert!(!buffer.is_empty());
        assert_eq!(buffer.capacity(), 3);
        assert_eq!(buffer.size_hint(), (2, Some(2)));
        assert!(!buffer.is_terminated());

        futures::executor::block_on(buffer.next());
        futures::executor::block_on(buffer.next());

        assert_eq!(buffer.len(), 0);
        assert!(buffer.is_empty());
        assert_eq!(buffer.capacity(), 2);
        assert_eq!(buffer.size_hint(), (0, Some(0)));
        assert!(buffer.is_terminated());
    }

    #[test]
    fn from_iter() {
        let buffer = FuturesUnordered::from_iter((0..10).map(|_| ready(())));

        assert_eq!(buffer.len(), 10);
        assert_eq!(buffer.capacity(), 32);
        assert_eq!(buffer.size_hint(), (10, Some(10)));
    }

    #[test]
    fn multi() {
        fn wait(count: &Cell<usize>) -> PollCounter<'_, Yield> {
            yield_now(count)
        }

        let c = Cell::new(0);

        let mut buffer = FuturesUnordered::with_capacity(1);
        // build up
        for _ in 0..10 {
            buffer.push(wait(&c));
        }
        // poll and insert
        for _ in 0..100 {
            assert!(futures::executor::block_on(buffer.next()).is_some());
            buffer.push(wait(&c));
        }
        // drain down
        for _ in 0..10 {
            assert!(futures::executor::block_on(buffer.next()).is_some());
        }

        let count = c.into_inner();
        assert_eq!(count, 220);
    }

    #[test]
    fn very_slow_task() {
        let c = Cell::new(0);

        let now = Instant::now();

        let mut buffer = FuturesUnordered::with_capacity(1);
        // build up
        for _ in 0..9 {
            buffer.push(yield_now(&c));
        }
        // spawn a slow future among a bunch of fast ones.
        // the test is to make sure this doesn't block the rest getting completed
        buffer.push(yield_now(&c));
        // poll and insert
        for _ in 0..100 {
            assert!(futures::executor::block_on(buffer.next()).is_some());
            buffer.push(yield_now(&c));
        }
        // drain down
        for _ in 0..10 {
            assert!(futures::executor::block_on(buffer.next()).is_some());
        }

        let dur = now.elapsed();
        assert!(dur < Duration::from_millis(2050));

        let count = c.into_inner();
        assert_eq!(count, 220);
    }

    #[cfg(not(miri))]
    #[tokio::test]
    async fn unordered_large() {
        for i in 0..256 {
            let mut queue: FuturesUnorderedBounded<_> = ((0..i).map(|_| async move {
                tokio::time::sleep(Duration::from_nanos(1)).await;
            }))
            .collect();
            for _ in 0..i {
                queue.next().await.unwrap();
            }
        }
    }
}
