use core::{
    fmt,
    future::Future,
    pin::Pin,
    task::{Context, Poll},
};

use crate::{slot_map::PinSlotMap, waker_list::WakerList};
use futures_core::{FusedStream, Stream};

/// A set of futures which may complete in any order.
///
/// Much like [`futures::stream::FuturesUnordered`](https://docs.rs/futures/0.3.25/futures/stream/struct.FuturesUnordered.html),
/// this is a thread-safe, `Pin` friendly, lifetime friendly, concurrent processing stream.
///
/// The is different to `FuturesUnordered` in that `FuturesUnorderedBounded` has a fixed capacity for processing count.
/// This means it's less flexible, but produces better memory efficiency.
///
/// ## Benchmarks
///
/// ### Speed
///
/// Running 65536 100us timers with 256 concurrent jobs in a single threaded tokio runtime:
///
/// ```text
/// FuturesUnordered         time:   [420.47 ms 422.21 ms 423.99 ms]
/// FuturesUnorderedBounded  time:   [366.02 ms 367.54 ms 369.05 ms]
/// ```
///
/// ### Memory usage
///
/// Running 512000 `Ready<i32>` futures with 256 concurrent jobs.
///
/// - count: the number of times alloc/dealloc was called
/// - alloc: the number of cumulative bytes allocated
/// - dealloc: the number of cumulative bytes deallocated
///
/// ```text
/// FuturesUnordered
///     count:    1024002
///     alloc:    40960144 B
///     dealloc:  40960000 B
///
/// FuturesUnorderedBounded
///     count:    2
///     alloc:    8264 B
///     dealloc:  0 B
/// ```
///
/// ### Conclusion
///
/// As you can see, `FuturesUnorderedBounded` massively reduces you memory overhead while providing a significant performance gain.
/// Perfect for if you want a fixed batch size
///
/// # Example
///
/// Making 1024 total HTTP requests, with a max concurrency of 128
///
/// ```
/// use futures::future::Future;
/// use futures::stream::StreamExt;
/// use futures_buffered::FuturesUnorderedBounded;
/// use hyper::client::conn::http1::{handshake, SendRequest};
/// use hyper::body::Incoming;
/// use hyper::{Request, Response};
/// use hyper_util::rt::TokioIo;
/// use tokio::net::TcpStream;
///
/// # #[cfg(miri)] fn main() {}
/// # #[cfg(not(miri))] #[tokio::main]
/// # async fn main() -> Result<(), Box<dyn std::error::Error>> {
/// // create a tcp connection
/// let stream = TcpStream::connect("example.com:80").await?;
///
/// // perform the http handshakes
/// let (mut rs, conn) = handshake(TokioIo::new(stream)).await?;
/// tokio::spawn(conn);
///
/// /// make http request to example.com and read the response
/// fn make_req(rs: &mut SendRequest<String>) -> impl Future<Output = hyper::Result<Response<Incoming>>> {
///     let req = Request::builder()
///         .header("Host", "example.com")
///         .method("GET")
///         .body(String::new())
///         .unwrap();
///     rs.send_request(req)
/// }
///
/// // create a queue that can hold 128 concurrent requests
/// let mut queue = FuturesUnorderedBounded::new(128);
///
/// // start up 128 requests
/// for _ in 0..128 {
///     queue.push(make_req(&mut rs));
/// }
/// // wait for a request to finish and start another to fill its place - up to 1024 total requests
/// for _ in 128..1024 {
///     queue.next().await;
///     queue.push(make_req(&mut rs));
/// }
/// // wait for the tail end to finish
/// for _ in 0..128 {
///     queue.next().await;
/// }
/// # Ok(()) }
/// ```
pub struct FuturesUnorderedBounded<F> {
    pub(crate) tasks: PinSlotMap<F>,
    pub(crate) shared: WakerList,
}

impl<F> Unpin for FuturesUnorderedBounded<F> {}

impl<F> FuturesUnorderedBounded<F> {
    /// Constructs a new, empty [`FuturesUnorderedBounded`] with the given fixed capacity.
    ///
    /// The returned [`FuturesUnorderedBounded`] does not contain any futures.
    /// In this state, [`FuturesUnorderedBounded::poll_next`](Stream::poll_next) will
    /// return [`Poll::Ready(None)`](Poll::Ready).
    pub fn new(cap: usize) -> Self {
        Self {
            tasks: PinSlotMap::new(cap),
            shared: WakerList::new(cap),
        }
    }

    /// Push a future into the set.
    ///
    /// This method adds the given future to the set. This method will not
    /// call [`poll`](core::future::Future::poll) on the submitted future. The caller must
    /// ensure that [`FuturesUnorderedBounded::poll_next`](Stream::poll_next) is called
    /// in order to receive wake-up notifications for the given future.
    ///
    /// # Panics
    /// This method will panic if the buffer is currently full. See [`FuturesUnorderedBounded::try_push`] to get a result instead
    #[track_caller]
    pub fn push(&mut self, fut: F) {
        if self.try_push(fut).is_err() {
            panic!("attempted to push into a full `FuturesUnorderedBounded`");
        }
    }

    /// Push a future into the set.
    ///
    /// This method adds the given future to the set. This method will not
    /// call [`poll`](core::future::Future::poll) on the submitted future. The caller must
    /// ensure that [`FuturesUnorderedBounded::poll_next`](Stream::poll_next) is called
    /// in order to receive wake-up notifications for the given future.
    ///
    /// # Errors
    /// This method will error if the buffer is currently full, returning the future back
    pub fn try_push(&mut self, fut: F) -> Result<(), F> {
        self.try_push_with(fut, core::convert::identity)
    }

    #[inline]
    pub(crate) fn try_push_with<T>(&mut self, t: T, f: impl FnMut(T) -> F) -> Result<(), T> {
        let i = self.tasks.insert_with(t, f)?;
        // safety: i is always within capacity
        unsafe {
            self.shared.push(i);
        }
        Ok(())
    }

    /// Returns `true` if the set contains no futures.
    pub fn is_empty(&self) -> bool {
        self.tasks.is_empty()
    }

    /// Returns the number of futures contained in the set.
    ///
    /// This represents the total number of in-flight futures.
    pub fn len(&self) -> usize {
        self.tasks.len()
    }

    /// Returns the number of futures that can be contained in the set.
    pub fn capacity(&self) -> usize {
        self.tasks.capacity()
    }
}

type PollFn<F, O> = fn(Pin<&mut F>, cx: &mut Context<'_>) -> Poll<O>;

impl<F> FuturesUnorderedBounded<F> {
    pub(crate) fn poll_inner_no_remove<O>(
        &mut self,
        cx: &mut Context<'_>,
        poll_fn: PollFn<F, O>,
    ) -> Poll<Option<(usize, O)>> {
        const MAX: usize = 61;

        if self.is_empty() {
            return Poll::Ready(None);
        }

        self.shared.register(cx.waker());

        let mut count = 0;
        loop {
            count += 1;
            // if we are in a pending only loop - let's break out.
            // we do this even with tokio-coop in case of unconstrained tasks, or non-tokio runtimes.
            if count > MAX {
                cx.waker().wake_by_ref();
                return Poll::Pending;
            }

            #[cfg(feature = "tokio-coop")]
            let coop = core::task::ready!(tokio::task::coop::poll_proceed(cx));

            match unsafe { self.shared.pop() } {
                crate::waker_list::ReadySlot::None => return Poll::Pending,
                crate::waker_list::ReadySlot::Inconsistent => {
                    cx.waker().wake_by_ref();
                    return Poll::Pending;
                }
                crate::waker_list::ReadySlot::Ready((i, waker)) => {
                    #[cfg(feature = "tokio-coop")]
                    coop.made_progress();

                    if let Some(task) = self.tasks.get(i) {
                        let mut cx = Context::from_waker(&waker);

                        let res = poll_fn(task, &mut cx);

                        if let Poll::Ready(x) = res {
                            return Poll::Ready(Some((i, x)));
                        }
                    }
                }
            }
        }
    }
}

impl<F: Future> FuturesUnorderedBounded<F> {
    pub(crate) fn poll_inner(&mut self, cx: &mut Context<'_>) -> Poll<Option<(usize, F::Output)>> {
        match self.poll_inner_no_remove(cx, F::poll) {
            Poll::Ready(Some((i, x))) => {
                self.tasks.remove(i);
                Poll::Ready(Some((i, x)))
            }
            p => p,
        }
    }
}

impl<F: Future> Stream for FuturesUnorderedBounded<F> {
    type Item = F::Output;

    fn poll_next(mut self: Pin<&mut Self>, cx: &mut Context<'_>) -> Poll<Option<Self::Item>> {
        match self.poll_inner(cx) {
            Poll::Ready(Some((_, x))) => Poll::Ready(Some(x)),
            Poll::Ready(None) => Poll::Ready(None),
            Poll::Pending => Poll::Pending,
        }
    }

    fn size_hint(&self) -> (usize, Option<usize>) {
        let len = self.len();
        (len, Some(len))
    }
}

impl<F> FromIterator<F> for FuturesUnorderedBounded<F> {
    /// Constructs a new, empty [`FuturesUnorderedBounded`] with a fixed capacity that is the length of the iterator.
    ///
    /// # Example
    ///
    /// Making 1024 total HTTP requests, with a max concurrency of 128
    ///
    /// ```
    /// use futures::future::Future;
    /// use futures::stream::StreamExt;
    /// use futures_buffered::FuturesUnorderedBounded;
    /// use hyper::client::conn::http1::{handshake, SendRequest};
    /// use hyper::body::Incoming;
    /// use hyper::{Request, Response};
    /// use hyper_util::rt::TokioIo;
    /// use tokio::net::TcpStream;
    ///
    /// # #[cfg(miri)] fn main() {}
    /// # #[cfg(not(miri))] #[tokio::main]
    /// # async fn main() -> Result<(), Box<dyn std::error::Error>> {
    /// // create a tcp connection
    /// let stream = TcpStream::connect("example.com:80").await?;
    ///
    /// // perform the http handshakes
    /// let (mut rs, conn) = handshake(TokioIo::new(stream)).await?;
    /// tokio::spawn(conn);
    ///
    /// /// make http request to example.com and read the response
    /// fn make_req(rs: &mut SendRequest<String>) -> impl Future<Output = hyper::Result<Response<Incoming>>> {
    ///     let req = Request::builder()
    ///         .header("Host", "example.com")
    ///         .method("GET")
    ///         .body(String::new())
    ///         .unwrap();
    ///     rs.send_request(req)
    /// }
    ///
    /// // create a queue with an initial 128 concurrent requests
    /// let mut queue: FuturesUnorderedBounded<_> = (0..128).map(|_| make_req(&mut rs)).collect();
    ///
    /// // wait for a request to finish and start another to fill its place - up to 1024 total requests
    /// for _ in 128..1024 {
    ///     queue.next().await;
    ///     queue.push(make_req(&mut rs));
    /// }
    /// // wait for the tail end to finish
    /// for _ in 0..128 {
    ///     queue.next().await;
    /// }
    /// # Ok(()) }
    /// ```
    fn from_iter<T: IntoIterator<Item = F>>(iter: T) -> Self {
        // store the futures in our task list
        let tasks = PinSlotMap::from_iter(iter);

        // determine the actual capacity and create the shared state
        let cap = tasks.len();
        let shared = WakerList::new(cap);

        for i in 0..cap {
            // safety: i is always within capacity
            unsafe {
                shared.push(i);
            }
        }

        // create the queue
        Self { tasks, shared }
    }
}

impl<Fut: Future> FusedStream for FuturesUnorderedBounded<Fut> {
    fn is_terminated(&self) -> bool {
        self.is_empty()
    }
}

impl<Fut> fmt::Debug for FuturesUnorderedBounded<Fut> {
    fn fmt(&self, f: &mut fmt::Formatter<'_>) -> fmt::Result {
        f.debug_struct("FuturesUnorderedBounded")
            .field("len", &self.tasks.len())
            .finish_non_exhaustive()
    }
}

#[cfg(test)]
mod tests {
    use super::*;
    use core::{
        cell::Cell,
        future::{poll_fn, ready},
        time::Duration,
    };
    use futures::{channel::oneshot, StreamExt};
    use futures_test::task::noop_context;
    use pin_project_lite::pin_project;
    use std::time::Instant;

    pin_project!(
        struct PollCounter<'c, F> {
            count: &'c Cell<usize>,
            #[pin]
            inner: F,
        }
    );

    impl<F: Future> Future for PollCounter<'_, F> {
        type Output = F::Output;
        fn poll(self: Pin<&mut Self>, cx: &mut Context<'_>) -> Poll<Self::Output> {
            self.count.set(self.count.get() + 1);
            self.project().inner.poll(cx)
        }
    }

    struct Yield {
        done: bool,
    }
    impl Unpin for Yield {}
    impl Future for Yield {
        type Output = ();

        fn poll(mut self: Pin<&mut Self>, cx: &mut Context<'_>) -> Poll<Self::Output> {
            if self.as_mut().done {
                Poll::Ready(())
            } else {
                cx.waker().wake_by_ref();
                self.as_mut().done = true;
                Poll::Pending
            }
        }
    }

    fn yield_now(count: &Cell<usize>) -> PollCounter<'_, Yield> {
        PollCounter {
            count,
            inner: Yield { done: false },
        }
    }

    #[test]
    fn single() {
        let c = Cell::new(0);

        let mut buffer = FuturesUnorderedBounded::new(10);
        buffer.push(yield_now(&c));
        futures::executor::block_on(buffer.next());

        drop(buffer);
        assert_eq!(c.into_inner(), 2);
    }

    #[test]
    #[should_panic(expected = "attempted to push into a full `FuturesUnorderedBounded`")]
    fn full() {
        let mut buffer = FuturesUnorderedBounded::new(1);
        buffer.push(ready(()));
        buffer.push(ready(()));
    }

    #[test]
    fn len() {
        let mut buffer = FuturesUnorderedBounded::new(1);

        assert_eq!(buffer.len(), 0);
        assert!(buffer.is_empty());
        assert_eq!(buffer.capacity(), 1);
        assert_eq!(buffer.size_hint(), (0, Some(0)));
        assert!(buffer.is_terminated());

        buffer.push(ready(()));

        assert_eq!(buffer.len(), 1);
        assert!(!buffer.is_empty());
        assert_eq!(buffer.capacity(), 1);
        assert_eq!(buffer.size_hint(), (1, Some(1)));
        assert!(!buffer.is_terminated());

        futures::executor::block_on(buffer.next());

        assert_eq!(buffer.len(), 0);
        assert!(buffer.is_empty());
        assert_eq!(buffer.capacity(), 1);
        assert_eq!(buffer.size_hint(), (0, Some(0)));
        assert!(buffer.is_terminated());
    }

    #[test]
    fn from_iter() {
        let buffer = FuturesUnorderedBounded::from_iter((0..10).map(|_| ready(())));

        assert_eq!(buffer.len(), 10);
        assert_eq!(buffer.capacity(), 10);
        assert_eq!(buffer.size_hint(), (10, Some(10)));
    }

    #[test]
    fn drop_while_waiting() {
        let mut buffer = FuturesUnorderedBounded::new(10);
        let waker = Cell::new(None);
        buffer.push(poll_fn(|cx| {
            waker.set(Some(cx.waker().clone()));
            Poll::<()>::Pending
        }));

        assert_eq!(buffer.poll_next_unpin(&mut noop_context()), Poll::Pending);
        drop(buffer);

        let cx = waker.take().unwrap();
        drop(cx);
    }

    #[test]
    fn multi() {
        fn wait(count: &Cell<usize>) -> PollCounter<'_, Yield> {
            yield_now(count)
        }

        let c = Cell::new(0);

        let mut buffer = FuturesUnorderedBounded::new(10);
        // build up
        for _ in 0..10 {
            buffer.push(wait(&c));
        }
        // poll and insert
        for _ in 0..100 {
            assert!(futures::executor::block_on(buffer.next()).is_some());
            buffer.push(wait(&c));
        }
        // drain down
        for _ in 0..10 {
            assert!(futures::executor::block_on(buffer.next()).is_some());
        }

        let count = c.into_inner();
        assert_eq!(count, 220);
    }

    #[test]
    fn very_slow_task() {
        let c = Cell::new(0);

        let now = Instant::now();

        let mut buffer = FuturesUnorderedBounded::new(10);
        // build up
        for _ in 0..9 {
            buffer.push(yield_now(&c));
        }
        // spawn a slow future among a bunch of fast ones.
        // the test is to make sure this doesn't block the rest getting completed
        buffer.push(yield_now(&c));
        // poll and insert
        for _ in 0..100 {
            assert!(futures::executor::block_on(buffer.next()).is_some());
            buffer.push(yield_now(&c));
        }
        // drain down
        for _ in 0..10 {
            assert!(futures::executor::block_on(buffer.next()).is_some());
        }

        let dur = now.elapsed();
        assert!(dur < Duration::from_millis(2050));

        let count = c.into_inner();
        assert_eq!(count, 220);
    }

    #[cfg(not(miri))]
    #[tokio::test]
    async fn unordered_large() {
        for i in 0..256 {
            let mut queue: FuturesUnorderedBounded<_> = ((0..i).map(|_| async move {
                tokio::time::sleep(Duration::from_nanos(1)).await;
            }))
            .collect();
            for _ in 0..i {
                queue.next().await.unwrap();
            }
        }
    }

    #[test]
    fn correct_fairer_order() {
        const LEN: usize = 256;

        let mut buffer = FuturesUnorderedBounded::new(LEN);
        let mut txs = vec![];
        for _ in 0..LEN {
            let (tx, rx) = oneshot::channel();
            buffer.push(rx);
            txs.push(tx);
        }

        for _ in 0..=(LEN / 61) {
            assert!(buffer.poll_next_unpin(&mut noop_context()).is_pending());
        }

        for (i, tx) in txs.into_iter().enumerate() {
            let _ = tx.send(i);
        }

        for i in 0..LEN {
            let poll = buffer.poll_next_unpin(&mut noop_context());
            assert_eq!(poll, Poll::Ready(Some(Ok(i))));
        }
    }
}
