use crate::FuturesUnorderedBounded;
use alloc::collections::binary_heap::{BinaryHeap, PeekMut};
use core::cmp::Ordering;
use core::fmt;
use core::iter::FromIterator;
use core::num::Wrapping;
use core::pin::Pin;
use futures_core::future::Future;
use futures_core::ready;
use futures_core::stream::Stream;
use futures_core::{
    task::{Context, Poll},
    FusedStream,
};
use pin_project_lite::pin_project;

pin_project! {
    #[must_use = "futures do nothing unless you `.await` or poll them"]
    #[derive(Debug)]
    pub(crate) struct OrderWrapper<T> {
        #[pin]
        pub data: T, // A future or a future's output
        pub index: usize,
    }
}

impl<T> PartialEq for OrderWrapper<T> {
    fn eq(&self, other: &Self) -> bool {
        self.index == other.index
    }
}

impl<T> Eq for OrderWrapper<T> {}

impl<T> PartialOrd for OrderWrapper<T> {
    fn partial_cmp(&self, other: &Self) -> Option<Ordering> {
        Some(self.cmp(other))
    }
}

impl<T> Ord for OrderWrapper<T> {
    fn cmp(&self, other: &Self) -> Ordering {
        // BinaryHeap is a max heap, so compare backwards here.
        other.index.cmp(&self.index)
    }
}

impl<T> Future for OrderWrapper<T>
where
    T: Future,
{
    type Output = OrderWrapper<T::Output>;

    fn poll(self: Pin<&mut Self>, cx: &mut Context<'_>) -> Poll<Self::Output> {
        let index = self.index;
        self.project().data.poll(cx).map(|output| OrderWrapper {
            data: output,
            index,
        })
    }
}

/// An unbounded queue of futures.
///
/// This "combinator" is similar to `FuturesUnordered`, but it imposes an order
/// on top of the set of futures. While futures in the set will race to
/// completion in parallel, results will only be returned in the order their
/// originating futures were added to the queue.
///
/// Futures are pushed into this queue and their realized values are yielded in
/// order. This structure is optimized to manage a large number of futures.
/// Futures managed by `FuturesOrderedBounded` will only be polled when they generate
/// notifications. This reduces the required amount of work needed to coordinate
/// large numbers of futures.
///
/// When a `FuturesOrderedBounded` is first created, it does not contain any futures.
/// Calling `poll` in this state will result in `Poll::Ready(None))` to be
/// returned. Futures are submitted to the queue using `push`; however, the
/// future will **not** be polled at this point. `FuturesOrderedBounded` will only
/// poll managed futures when `FuturesOrderedBounded::poll` is called. As such, it
/// is important to call `poll` after pushing new futures.
///
/// If `FuturesOrderedBounded::poll` returns `Poll::Ready(None)` this means that
/// the queue is currently not managing any futures. A future may be submitted
/// to the queue at a later time. At that point, a call to
/// `FuturesOrderedBounded::poll` will either return the future's resolved value
/// **or** `Poll::Pending` if the future has not yet completed. When
/// multiple futures are submitted to the queue, `FuturesOrderedBounded::poll` will
/// return `Poll::Pending` until the first future completes, even if
/// some of the later futures have already completed.
///
/// Note that you can create a ready-made `FuturesOrderedBounded` via the
/// [`collect`](Iterator::collect) method, or you can start with an empty queue
/// with the `FuturesOrderedBounded::new` constructor.
#[must_use = "streams do nothing unless polled"]
pub struct FuturesOrderedBounded<T: Future> {
    pub(crate) in_progress_queue: FuturesUnorderedBounded<OrderWrapper<T>>,
    queued_outputs: BinaryHeap<OrderWrapper<T::Output>>,
    pub(crate) next_incoming_index: Wrapping<usize>,
    next_outgoing_index: Wrapping<usize>,
}

impl<T: Future> Unpin for FuturesOrderedBounded<T> {}

impl<Fut: Future> FuturesOrderedBounded<Fut> {
    /// Constructs a new, empty `FuturesOrderedBounded`
    ///
    /// The returned `FuturesOrderedBounded` does not contain any futures and, in this
    /// state, `FuturesOrderedBounded::poll_next` will return `Poll::Ready(None)`.
    pub fn new(capacity: usize) -> Self {
        Self {
            in_progress_queue: FuturesUnorderedBounded::new(capacity),
            queued_outputs: BinaryHeap::with_capacity(capacity - 1),
            next_incoming_index: Wrapping(0),
            next_outgoing_index: Wrapping(0),
        }
    }

    /// Returns the number of futures contained in the queue.
    ///
    /// This represents the total number of in-flight futures, both
    /// those currently processing and those that have completed but
    /// which are waiting for earlier futures to complete.
    pub fn len(&self) -> usize {
        self.in_progress_queue.len() + self.queued_outputs.len()
    }

    /// Returns `true` if the queue contains no futures
    pub fn is_empty(&self) -> bool {
        self.in_progress_queue.is_empty() && self.queued_outputs.is_empty()
    }

    /// Pushes a future to the back of the queue.
    ///
    /// This function submits the given future to the internal set for managing.
    /// This function will not call `poll` on the submitted future. The caller
    /// must ensure that `FuturesOrderedBounded::poll` is called in order to receive
    /// task notifications.
    ///
    /// # Errors
    /// This method will error if the buffer is currently full, returning the future back
    pub fn try_push_back(&mut self, future: Fut) -> Result<(), Fut> {
        self.in_progress_queue.try_push_with(future, |future| {
            let wrapped = OrderWrapper {
                data: future,
                index: self.next_incoming_index.0,
            };
            self.next_incoming_index += 1;
            wrapped
        })
    }

    /// Pushes a future to the front of the queue.
    ///
    /// This function submits the given future to the internal set for managing.
    /// This function will not call `poll` on the submitted future. The caller
    /// must ensure that `FuturesOrderedBounded::poll` is called in order to receive
    /// task notifications. This future will be the next future to be returned
    /// complete.
    ///
    /// # Errors
    /// This method will error if the buffer is currently full, returning the future back
    pub fn try_push_front(&mut self, future: Fut) -> Result<(), Fut> {
        self.in_progress_queue.try_push_with(future, |future| {
            self.next_outgoing_index -= 1;
            OrderWrapper {
                data: future,
                index: self.next_outgoing_index.0,
            }
        })
    }

    /// Pushes a future to the back of the queue.
    ///
    /// This function submits the given future to the internal set for managing.
    /// This function will not call `poll` on the submitted future. The caller
    /// must ensure that `FuturesOrderedBounded::poll` is called in order to receive
    /// task notifications.
    ///
    /// # Panics
    /// This method will panic if the buffer is currently full. See [`FuturesOrderedBounded::try_push_back`] to get a result instead
    #[track_caller]
    pub fn push_back(&mut self, future: Fut) {
        if self.try_push_back(future).is_err() {
            panic!("attempted to push into a full `FuturesOrderedBounded`");
        }
    }

    /// Pushes a future to the front of the queue.
    ///
    /// This function submits the given future to the internal set for managing.
    /// This function will not call `poll` on the submitted future. The caller
    /// must ensure that `FuturesOrderedBounded::poll` is called in order to receive
    /// task notifications. This future will be the next future to be returned
    /// complete.
    ///
    /// # Panics
    /// This method will panic if the buffer is currently full. See [`FuturesOrderedBounded::try_push_front`] to get a result instead
    #[track_caller]
    pub fn push_front(&mut self, future: Fut) {
        if self.try_push_front(future).is_err() {
            panic!("attempted to push into a full `FuturesOrderedBounded`");
        }
    }
}

impl<Fut: Future> Stream for FuturesOrderedBounded<Fut> {
    type Item = Fut::Output;

    fn poll_next(mut self: Pin<&mut Self>, cx: &mut Context<'_>) -> Poll<Option<Self::Item>> {
        const MSB: usize = !(usize::MAX >> 1);

        let this = &mut *self;

        // house keeping if the indices gets too high
        if this.next_outgoing_index.0 & MSB == MSB {
            let mut ready_queue = core::mem::take(&mut this.queued_outputs).into_vec();
            for entry in &mut ready_queue {
                entry.index ^= MSB;
            }
            this.queued_outputs = ready_queue.into();

            for task in this.in_progress_queue.tasks.iter_mut() {
                *task.project().index ^= MSB;
            }

            this.next_outgoing_index.0 ^= MSB;
            this.next_incoming_index.0 ^= MSB;
        }

        // Check to see if we've already received the next value
        if let Some(next_output) = this.queued_outputs.peek_mut() {
            if next_output.index == this.next_outgoing_index.0 {
                this.next_outgoing_index += 1;
                return Poll::Ready(Some(PeekMut::pop(next_output).data));
            }
        }

        loop {
            match ready!(Pin::new(&mut this.in_progress_queue).poll_next(cx)) {
                Some(output) => {
                    if output.index == this.next_outgoing_index.0 {
                        this.next_outgoing_index += 1;
                        return Poll::Ready(Some(output.data));
                    }

                    this.queued_outputs.push(output);
                }
                None => return Poll::Ready(None),
            }
        }
    }

    fn size_hint(&self) -> (usize, Option<usize>) {
        let len = self.len();
        (len, Some(len))
    }
}

impl<Fut: Future> fmt::Debug for FuturesOrderedBounded<Fut> {
    fn fmt(&self, f: &mut fmt::Formatter<'_>) -> fmt::Result {
        write!(f, "FuturesOrderedBounded {{ ... }}")
    }
}

impl<Fut: Future> FromIterator<Fut> for FuturesOrderedBounded<Fut> {
    fn from_iter<T>(iter: T) -> Self
    where
        T: IntoIterator<Item = Fut>,
    {
        let mut index = Wrapping(0);
        let in_progress_queue = FuturesUnorderedBounded::from_iter(iter.into_iter().map(|data| {
            let next_index = index + Wrapping(1);
            OrderWrapper {
                data,
                index: core::mem::replace(&mut index, next_index).0,
            }
        }));
        Self {
            in_progress_queue,
            queued_outputs: BinaryHeap::new(),
            next_incoming_index: index,
            next_outgoing_index: Wrapping(0),
        }
    }
}

impl<Fut: Future> FusedStream for FuturesOrderedBounded<Fut> {
    fn is_terminated(&self) -> bool {
        self.in_progress_queue.is_terminated() && self.queued_outputs.is_empty()
    }
}

impl<Fut: Future> Extend<Fut> for FuturesOrderedBounded<Fut> {
    fn extend<I>(&mut self, iter: I)
    where
        I: IntoIterator<Item = Fut>,
    {
        for item in iter {
            self.push_back(item);
        }
    }
}

#[cfg(test)]
mod tests {
    use crate::FuturesOrderedBounded;
    use core::{future::ready, task::Poll};
    use futures::{Stream, StreamExt};
    use futures_test::task::noop_context;

    #[test]
    fn ordered() {
        let mut buffer = FuturesOrderedBounded::new(10);

        for i in 0..10 {
            buffer.push_back(ready(i));
        }

        for i in 0..10 {
            assert_eq!(
                buffer.poll_next_unpin(&mut noop_context()),
                Poll::Ready(Some(i))
            );
        }
    }

    #[test]
    fn ordered_front() {
        let mut buffer = FuturesOrderedBounded::new(10);

        for i in 0..10 {
            buffer.push_front(ready(i));
        }

        for i in (0..10).rev() {
            assert_eq!(
                buffer.poll_next_unpin(&mut noop_context()),
                Poll::Ready(Some(i))
            );
        }
    }

    #[test]
    #[should_panic(expected = "attempted to push into a full `FuturesOrderedBounded`")]
    fn full_back() {
        let mut buffer = FuturesOrderedBounded::new(1);
        buffer.push_back(ready(()));
        buffer.push_back(ready(()));
    }

    #[test]
    #[should_panic(expected = "attempted to push into a full `FuturesOrderedBounded`")]
    fn full_front() {
        let mut buffer = FuturesOrderedBounded::new(1);
        buffer.push_front(ready(()));
        buffer.push_front(ready(()));
    }

    #[test]
    fn from_iter() {
        let buffer = FuturesOrderedBounded::from_iter((0..10).map(|_| ready(())));

        assert_eq!(buffer.len(), 10);
        assert_eq!(buffer.size_hint(), (10, Some(10)));
    }
}
