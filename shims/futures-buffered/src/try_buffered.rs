use core::{
    pin::Pin,
    task::{Context, Poll},
};

use crate::{FuturesOrderedBounded, TryStream};
use crate::{FuturesUnorderedBounded, TryFuture};
use futures_core::ready;
use futures_core::Stream;
use pin_project_lite::pin_project;

impl<T: ?Sized + TryStream> BufferedTryStreamExt for T {}

/// An extension trait for `Stream`s that provides a variety of convenient
/// combinator functions.
pub trait BufferedTryStreamExt: TryStream {
    /// An adaptor for creating a buffered list of pending futures.
    ///
    /// If this stream's item can be converted into a future, then this adaptor
    /// will buffer up to at most `n` futures and then return the outputs in the
    /// same order as the underlying stream. No more than `n` futures will be
    /// buffered at any point in time, and less than `n` may also be buffered
    /// depending on the state of each future.
    ///
    /// The returned stream will be a stream of each future's output.
    fn try_buffered_ordered(self, n: usize) -> TryBufferedOrdered<Self>
    where
        Self::Ok: TryFuture<Err = Self::Err>,
        Self: Sized,
    {
        TryBufferedOrdered {
            stream: Some(self),
            in_progress_queue: FuturesOrderedBounded::new(n),
        }
    }

    /// An adaptor for creating a buffered list of pending futures (unordered).
    ///
    /// If this stream's item can be converted into a future, then this adaptor
    /// will buffer up to `n` futures and then return the outputs in the order
    /// in which they complete. No more than `n` futures will be buffered at
    /// any point in time, and less than `n` may also be buffered depending on
    /// the state of each future.
    ///
    /// The returned stream will be a stream of each future's output.
    fn try_buffered_unordered(self, n: usize) -> TryBufferUnordered<Self>
    where
        Self::Ok: TryFuture<Err = Self::Err>,
        Self: Sized,
    {
        TryBufferUnordered {
            stream: Some(self),
            in_progress_queue: FuturesUnorderedBounded::new(n),
        }
    }
}

pin_project! {
    /// Stream for the [`try_buffered_ordered`](BufferedTryStreamExt::try_buffered_ordered) method.
    #[must_use = "streams do nothing unless polled"]
    pub struct TryBufferedOrdered<St>
    where
        St: TryStream,
        St::Ok: TryFuture,
    {
        #[pin]
        stream: Option<St>,
        in_progress_queue: FuturesOrderedBounded<St::Ok>,
    }
}

impl<St> Stream for TryBufferedOrdered<St>
where
    St: TryStream,
    St::Ok: TryFuture<Err = St::Err>,
{
    type Item = Result<<St::Ok as TryFuture>::Ok, St::Err>;

    fn poll_next(self: Pin<&mut Self>, cx: &mut Context<'_>) -> Poll<Option<Self::Item>> {
        let mut this = self.project();

        // First up, try to spawn off as many futures as possible by filling up
        // our queue of futures.
        let ordered = this.in_progress_queue;
        while ordered.in_progress_queue.tasks.len() < ordered.in_progress_queue.tasks.capacity() {
            if let Some(s) = this.stream.as_mut().as_pin_mut() {
                match s.poll_next(cx)? {
                    Poll::Ready(Some(fut)) => {
                        ordered.push_back(fut);
                        continue;
                    }
                    Poll::Ready(None) => this.stream.as_mut().set(None),
                    Poll::Pending => {}
                }
            }
            break;
        }

        // Attempt to pull the next value from the in_progress_queue
        let res = Pin::new(ordered).poll_next(cx);
        if let Some(val) = ready!(res) {
            return Poll::Ready(Some(val));
        }

        // If more values are still coming from the stream, we're not done yet
        if this.stream.is_none() {
            Poll::Ready(None)
        } else {
            Poll::Pending
        }
    }

    fn size_hint(&self) -> (usize, Option<usize>) {
        match &self.stream {
            Some(s) => {
                let queue_len = self.in_progress_queue.len();
                let (lower, upper) = s.size_hint();
                let lower = lower.saturating_add(queue_len);
                let upper = match upper {
                    Some(x) => x.checked_add(queue_len),
                    None => None,
                };
                (lower, upper)
            }
            _ => (0, Some(0)),
        }
    }
}

pin_project!(
    /// Stream for the [`try_buffered_unordered`](BufferedTryStreamExt::try_buffered_unordered) method.
    #[must_use = "streams do nothing unless polled"]
    pub struct TryBufferUnordered<S: TryStream> {
        #[pin]
        stream: Option<S>,
        in_progress_queue: FuturesUnorderedBounded<S::Ok>,
    }
);

impl<St> Stream for TryBufferUnordered<St>
where
    St: TryStream,
    St::Ok: TryFuture<Err = St::Err>,
{
    type Item = Result<<St::Ok as TryFuture>::Ok, St::Err>;

    fn poll_next(self: Pin<&mut Self>, cx: &mut Context<'_>) -> Poll<Option<Self::Item>> {
        let mut this = self.project();

        // First up, try to spawn off as many futures as possible by filling up
        // our queue of futures.
        let unordered = this.in_progress_queue;
        while unordered.tasks.len() < unordered.tasks.capacity() {
            if let Some(s) = this.stream.as_mut().as_pin_mut() {
                match s.poll_next(cx)? {
                    Poll::Ready(Some(fut)) => {
                        unordered.push(fut);
                        continue;
                    }
                    Poll::Ready(None) => this.stream.as_mut().set(None),
                    Poll::Pending => {}
                }
            }
            break;
        }

        // Attempt to pull the next value from the in_progress_queue
        match Pin::new(unordered).poll_next(cx) {
            x @ (Poll::Pending | Poll::Ready(Some(_))) => return x,
            Poll::Ready(None) => {}
        }

        // If more values are still coming from the stream, we're not done yet
        if this.stream.as_pin_mut().is_none() {
            Poll::Ready(None)
        } else {
            Poll::Pending
        }
    }

    fn size_hint(&self) -> (usize, Option<usize>) {
        match &self.stream {
            Some(s) => {
                let queue_len = self.in_progress_queue.len();
                let (lower, upper) = s.size_hint();
                let lower = lower.saturating_add(queue_len);
                let upper = match upper {
                    Some(x) => x.checked_add(queue_len),
                    None => None,
                };
                (lower, upper)
            }
            _ => (0, Some(0)),
        }
    }
}

#[cfg(test)]
mod tests {
    use super::*;
    use core::task::Poll;
    use futures::{
        channel::oneshot::{self, Canceled},
        stream, TryFutureExt, TryStreamExt,
    };
    use futures_test::task::noop_context;

    fn _else(_: Canceled) -> Result<i32, i32> {
        Ok(0)
    }

    #[test]
    fn buffered_ordered() {
        let (send_one, recv_one) = oneshot::channel();
        let (send_two, recv_two) = oneshot::channel();

        let stream_of_futures = stream::iter(vec![
            Ok(recv_one.unwrap_or_else(_else)),
            Err(0),
            Ok(recv_two.unwrap_or_else(_else)),
        ]);
        let mut buffered = stream_of_futures.try_buffered_ordered(10);
        let mut cx = noop_context();

        // sized properly
        assert_eq!(buffered.size_hint(), (3, Some(3)));

        // stream errors upfront
        assert_eq!(
            buffered.try_poll_next_unpin(&mut cx),
            Poll::Ready(Some(Err(0)))
        );

        // make sure it returns pending
        assert_eq!(buffered.try_poll_next_unpin(&mut cx), Poll::Pending);

        // returns in a fixed order
        send_two.send(Ok(2)).unwrap();
        assert_eq!(buffered.try_poll_next_unpin(&mut cx), Poll::Pending);

        send_one.send(Err(1)).unwrap();
        assert_eq!(
            buffered.try_poll_next_unpin(&mut cx),
            Poll::Ready(Some(Err(1)))
        );
        assert_eq!(
            buffered.try_poll_next_unpin(&mut cx),
            Poll::Ready(Some(Ok(2)))
        );

        // completes properly
        assert_eq!(buffered.try_poll_next_unpin(&mut cx), Poll::Ready(None));
    }

    #[test]
    fn buffered_unordered() {
        let (send_one, recv_one) = oneshot::channel();
        let (send_two, recv_two) = oneshot::channel();

        let stream_of_futures = stream::iter(vec![
            Ok(recv_one.unwrap_or_else(_else)),
            Err(0),
            Ok(recv_two.unwrap_or_else(_else)),
        ]);
        let mut buffered = stream_of_futures.try_buffered_unordered(10);
        let mut cx = noop_context();

        // sized properly
        assert_eq!(buffered.size_hint(), (3, Some(3)));

        // stream errors upfront
        assert_eq!(
            buffered.try_poll_next_unpin(&mut cx),
            Poll::Ready(Some(Err(0)))
        );

        // make sure it returns pending
        assert_eq!(buffered.try_poll_next_unpin(&mut cx), Poll::Pending);

        // returns in any order
        send_two.send(Ok(2)).unwrap();
        assert_eq!(
            buffered.try_poll_next_unpin(&mut cx),
            Poll::Ready(Some(Ok(2)))
        );

        send_one.send(Ok(1)).unwrap();
        assert_eq!(
            buffered.try_poll_next_unpin(&mut cx),
            Poll::Ready(Some(Ok(1)))
        );

        // completes properly
        assert_eq!(buffered.try_poll_next_unpin(&mut cx), Poll::Ready(None));
    }
}
