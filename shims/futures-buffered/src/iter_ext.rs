use core::future::Future;

use futures_core::Stream;

use crate::{
    join_all, try_join_all, FuturesOrdered, FuturesOrderedBounded, FuturesUnordered,
    FuturesUnorderedBounded, JoinAll, MergeBounded, MergeUnbounded, TryFuture, TryJoinAll,
};

/// Concurrency extensions for iterators of streams and futures.
pub trait IterExt: IntoIterator {
    /// Combines an iterator of streams into a single stream, yielding items as they arrive.
    ///
    /// Returns [`MergeBounded`], which has a fixed capacity and thus no further streams may be added.
    ///
    /// ## Example
    /// ```
    /// use futures::{stream, StreamExt};
    /// use futures_buffered::IterExt;
    ///
    /// # #[tokio::main] async fn main() {
    /// let res = [stream::iter(0..3), stream::iter(0..5)]
    ///     .merge()
    ///     .count()
    ///     .await;
    /// assert_eq!(res, 3 + 5);
    /// # }
    /// ```
    fn merge(self) -> MergeBounded<Self::Item>
    where
        Self: Sized,
        Self::Item: Stream,
    {
        MergeBounded::from_iter(self)
    }

    /// Combines an iterator of streams into a single stream, yielding items as they arrive.
    ///
    /// This is like [`IterExt::merge`], but  returns [`MergeUnbounded`], to which further streams
    /// may be added with [`MergeUnbounded::push`]. If you don't need to add more streams, use
    /// [`IterExt::merge`], which has better performance characteristics.
    fn merge_unbounded(self) -> MergeUnbounded<Self::Item>
    where
        Self: Sized,
        Self::Item: Stream + Unpin,
    {
        MergeUnbounded::from_iter(self)
    }

    /// Waits for all futures to complete, returning a `Vec` of their outputs.
    ///
    /// All futures are driven concurrently to completion, and their results are
    /// collected into a `Vec` in same order as they were provided.
    ///
    /// See [`join_all`] for details.
    ///
    /// ## Example
    /// ```
    /// use futures_buffered::IterExt;
    /// # #[tokio::main] async fn main() {
    /// let res: Vec<_> = [3, 2, 1]
    ///     .map(|x| async move { x })
    ///     .join_all()
    ///     .await;
    /// assert_eq!(res, vec![3, 2, 1]);
    /// # }
    /// ```
    fn join_all(self) -> JoinAll<Self::Item>
    where
        Self: Sized,
        Self::Item: Future,
    {
        join_all(self)
    }

    /// Waits for all futures to complete, returning a `Result<Vec<T>, E>`.
    ///
    /// If any future returns an error then all other futures will be canceled and
    /// the error will be returned immediately. If all futures complete successfully,
    /// then the returned future will succeed with a `Vec` of all the successful
    /// results in the same order as the futures were provided.
    ///
    /// See [`try_join_all`] for details.
    fn try_join_all(self) -> TryJoinAll<Self::Item>
    where
        Self: Sized,
        Self::Item: TryFuture,
    {
        try_join_all(self)
    }

    /// Combines an iterator of futures into a concurrent stream, yielding items as they arrive.
    ///
    /// The futures are polled concurrently and items are yielded in the order of completion.
    ///
    /// Returns [`FuturesUnorderedBounded`], which has a fixed capacity so no further futures can be
    /// added to the stream.
    ///
    /// ## Example
    /// ```
    /// use futures::StreamExt;
    /// use futures_buffered::IterExt;
    /// use tokio::time::{sleep, Duration};
    ///
    /// # #[cfg(miri)] fn main() {}
    /// # #[cfg(not(miri))] #[tokio::main]
    /// # async fn main() {
    /// let res: Vec<_> = [3, 2, 1]
    ///     .map(|x| async move {
    ///         sleep(Duration::from_millis(x * 10)).await;
    ///         x
    ///     })
    ///     .into_unordered_stream()
    ///     .collect()
    ///     .await;
    /// assert_eq!(res, vec![1, 2, 3]);
    /// # }
    /// ```
    fn into_unordered_stream(self) -> FuturesUnorderedBounded<Self::Item>
    where
        Self: Sized,
        Self::Item: Future,
    {
        FuturesUnorderedBounded::from_iter(self)
    }

    /// Combines an iterator of futures into a concurrent stream, yielding items as they arrive.
    ///
    /// The futures are polled concurrently and items are yielded in the order of completion.
    ///
    /// Returns [`FuturesUnordered`], which can grow capacity on demand, so further futures can be
    /// added to the stream via [`FuturesUnordered::push`].
    fn into_unordered_stream_unbounded(self) -> FuturesUnordered<Self::Item>
    where
        Self: Sized,
        Self::Item: Future,
    {
        FuturesUnordered::from_iter(self)
    }

    /// Combines an iterator of futures into a concurrent stream, yielding items in their original order.
    ///
    /// The futures are polled concurrently and items are yielded in the order of the source iterator.
    ///
    /// Returns [`FuturesOrderedBounded`], which has a fixed capacity so no further futures can be
    /// added to the stream.
    ///
    /// ## Example
    /// ```
    /// use futures::StreamExt;
    /// use futures_buffered::IterExt;
    /// use tokio::time::{sleep, Duration};
    ///
    /// # #[cfg(miri)] fn main() {}
    /// # #[cfg(not(miri))] #[tokio::main]
    /// # async fn main() {
    /// let res: Vec<_> = [3, 2, 1]
    ///     .map(|x| async move {
    ///         sleep(Duration::from_millis(x * 10)).await;
    ///         x
    ///     })
    ///     .into_ordered_stream()
    ///     .collect()
    ///     .await;
    /// assert_eq!(res, vec![3, 2, 1]);
    /// # }
    /// ```
    fn into_ordered_stream(self) -> FuturesOrderedBounded<Self::Item>
    where
        Self: Sized,
        Self::Item: Future,
    {
        FuturesOrderedBounded::from_iter(self)
    }

    /// Combines an iterator of futures into a concurrent stream, yielding items in their original order.
    ///
    /// The futures are polled concurrently and items are yielded in the order of the source iterator.
    ///
    /// Returns [`FuturesOrdered`], which can grow capacity on demand, so further futures can be
    /// added to the stream via [`FuturesOrdered::push_back`] or [`FuturesOrdered::push_front`].
    fn into_ordered_stream_unbounded(self) -> FuturesOrdered<Self::Item>
    where
        Self: Sized,
        Self::Item: Future,
    {
        FuturesOrdered::from_iter(self)
    }
}

impl<T: IntoIterator> IterExt for T {}

#[cfg(test)]
mod tests {
    use core::time::Duration;
    use std::vec::Vec;

    use futures::{FutureExt, StreamExt};

    use super::IterExt;

    #[cfg(not(miri))]
    #[tokio::test]
    async fn smoke() {
        let to_future = |x: u64| async move {
            tokio::time::sleep(Duration::from_millis(x * 10)).await;
            x
        };

        let res: Vec<_> = [3, 2, 1]
            .map(to_future)
            .into_ordered_stream()
            .collect()
            .await;
        assert_eq!(res, vec![3, 2, 1]);

        let res: Vec<_> = [3, 2, 1]
            .map(to_future)
            .into_unordered_stream()
            .collect()
            .await;
        assert_eq!(res, vec![1, 2, 3]);

        let res: Vec<_> = [3, 2, 1]
            .map(to_future)
            .into_ordered_stream_unbounded()
            .collect()
            .await;
        assert_eq!(res, vec![3, 2, 1]);

        let res: Vec<_> = [3, 2, 1]
            .map(to_future)
            .into_unordered_stream_unbounded()
            .collect()
            .await;
        assert_eq!(res, vec![1, 2, 3]);

        let res: Vec<_> = [3, 2, 1].map(to_future).join_all().await;
        assert_eq!(res, vec![3, 2, 1]);

        let res: Result<Vec<_>, ()> = [3, 2, 1]
            .map(|x| to_future(x).map(Result::Ok))
            .try_join_all()
            .await;
        assert_eq!(res, Ok(vec![3, 2, 1]));

        let res = [3, 2, 1]
            .map(|x| to_future(x).map(|x| if x == 2 { Err(x) } else { Ok(x) }))
            .try_join_all()
            .await;
        assert_eq!(res, Err(2));

        let res = [3, 2, 1]
            .map(|x| futures::stream::iter(0..x))
            .merge()
            .count()
            .await;
        assert_eq!(res, 3 + 2 + 1);

        let res = [3, 2, 1]
            .map(|x| futures::stream::iter(0..x))
            .merge_unbounded()
            .count()
            .await;
        assert_eq!(res, 3 + 2 + 1);
    }
}
