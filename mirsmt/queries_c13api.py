"""E3 query for C13 over the small API around the author heads (src/heads.rs, src/store/fs.rs), executed (Exec2 / PMExec):

c13_heads_api
  * `AuthorHeads::insert(author, ts)` with its `and_modify` closure: an author already present keeps max(old, ts) — the
    solver decides the value written for symbolic timestamps —, an unknown author gets ts; no other author is touched;
  * `AuthorHeads::merge(other)`: every head of `other` (K <= 2) is inserted, once, with its own author and timestamp;
  * `AuthorHeads::decode(bytes)`: postcard's answer symbolic: an error is reported, a decoded list of (timestamp, author)
    pairs is inserted pair by pair with the fields the right way round;
  * `LatestIterator::new / next`: the heads of a document are read from the latest-per-author table between
    (namespace, 00..00) and (namespace, ff..ff) inclusive, and every row is reported as (author = the key's second
    column, timestamp = the value's first column, key = the value's second column);
  * `Store::has_news_for_us`: our heads are built from exactly these rows and the verdict is `theirs.has_news_for(ours)`.
The B-tree map is modelled by its entry API (occupied slot / vacant), redb by a window over K rows.
"""
import re

from mirsmt import Smt, solve, mk_deref, mk_v2b, split_sexpr_args
from exec2 import is_addr
from stdmodels import PMExec, Inconclusive, std_models, _deep, run_closure_forks, run_closure, conj, seq_next
from queries_c05 import _find, _src


def _verdict(problems):
    if any(p[1] != "inconclusive" for p in problems):
        return "violated"
    return "inconclusive" if problems else "holds"


def _base_smt():
    smt = Smt()
    for f, n in (("C_Ok", 1), ("C_Err", 1), ("C_Some", 1), ("C_None", 0), ("C_Continue", 1), ("C_Break", 1), ("C_seq", 1), ("C_tuple2", 2), ("C_tuple3", 3), ("discr", 1),
                 ("C_entry_occ", 1), ("C_entry_vac", 1), ("umax", 2), ("author_from", 1)):
        smt.fun(f, n)
    smt.decls.append("(declare-fun toint (V) Int)")
    smt.asserts.append("(forall ((a V) (b V)) (= (toint (umax a b)) (ite (>= (toint a) (toint b)) (toint a) (toint b))))")
    for c in ("HEADS", "MAP", "AUTHOR", "TS", "OLD", "UNIT"):
        smt.decls.append("(declare-const %s V)" % c)
    return smt


def _map_models(known):
    """BTreeMap<AuthorId, u64> behind `HEADS.0`: `known` = the author asked about is present"""
    models = std_models()

    def m_entry(ex, v, env):
        env["__log"] = env.get("__log", ()) + (("entry", v[1]),)
        return "(C_entry_occ %s)" % v[1] if known else "(C_entry_vac %s)" % v[1]
    m_entry.wants_env = True

    def m_and_modify(ex, v, env):
        e = v[0]
        if e.startswith("(C_entry_vac "):
            return e
        # the closure gets `&mut value`: an address whose content is the stored timestamp
        slot = "(addr MAP %s)" % ex.ksym("slot")
        if ("MAP", "slot") not in env.get("__heap", {}):
            ex.store(env, slot, "OLD")
        outs = []
        for cond, ret, patch in run_closure_forks(ex, env, v[1], [slot]):
            outs.append((cond, e, patch))
        return outs
    m_and_modify.wants_env = True

    def m_or_insert(ex, v, env):
        e = v[0]
        if e.startswith("(C_entry_vac "):
            env["__log"] = env.get("__log", ()) + (("inserted", split_sexpr_args(e)[0], v[1]),)
        return "UNIT"
    m_or_insert.wants_env = True
    models.update({
        r"^BTreeMap::<keys::AuthorId, u64>::entry$": m_entry,
        r"^std::collections::btree_map::Entry::<'_, keys::AuthorId, u64>::and_modify::<": m_and_modify,
        r"^std::collections::btree_map::Entry::<'_, keys::AuthorId, u64>::or_insert$": m_or_insert,
        r"^<u64 as Ord>::max$": lambda ex, v: "(umax %s %s)" % (v[0], v[1]),
    })
    return models


def q_c13_heads_api(bodies):
    name = "c13_heads_api"
    fn = {}
    for f in ("insert", "merge", "decode"):
        h = _find(bodies, r"^heads::<impl at [^>]*>::%s$" % f)
        h = [b for b in h if "AuthorHeads" in (b.args + b.ret)]
        if len(h) != 1:
            return dict(name=name, property="C13", verdict="inconclusive", detail="AuthorHeads::%s not found uniquely (%d)" % (f, len(h)), functions=[])
        fn[f] = h[0]
    lnew = _find(bodies, r"^store::fs::<impl at [^>]*>::new$", r"LatestIterator")
    lnext = _find(bodies, r"^store::fs::<impl at [^>]*>::next$", r"^_1: &mut LatestIterator")
    news = _find(bodies, r"^store::fs::<impl at [^>]*>::has_news_for_us$")
    if len(lnew) != 1 or len(lnext) != 1 or len(news) != 1:
        return dict(name=name, property="C13", verdict="inconclusive", detail="LatestIterator / has_news_for_us not found (%d %d %d)" % (len(lnew), len(lnext), len(news)), functions=[])
    problems, nq, ncases, funcs = [], 0, 0, set()
    # ---------------- insert
    for known in (False, True):
        smt = _base_smt()
        ex = PMExec(bodies, smt, models=_map_models(known), max_paths=200)
        try:
            paths = ex.run(fn["insert"], ["HEADS", "AUTHOR", "TS"], heap0={("HEADS", "0"): "MAP"}, feasibility=False)
        except (Inconclusive, ValueError, AssertionError, KeyError, IndexError, RecursionError) as e:
            problems.append(("AuthorHeads::insert can be followed", "inconclusive", "%r" % (e,)))
            continue
        funcs |= ex.inlined
        for pc, ret, calls, env in paths:
            ncases += 1
            log = env.get("__log", ())
            ents = [l for l in log if l[0] == "entry"]
            ins = [l for l in log if l[0] == "inserted"]
            if [e[1] for e in ents] != ["AUTHOR"]:
                problems.append(("insert looks up exactly the given author", "sat", "entries=%s" % (ents,)))
                continue
            if not known:
                if list(ins) != [("inserted", "AUTHOR", "TS")]:
                    problems.append(("an unknown author gets the given timestamp as its head", "sat", "inserted=%s" % (ins,)))
                continue
            if ins:
                problems.append(("a known author's head is updated in place", "sat", "inserted=%s" % (ins,)))
                continue
            newv = env.get("__heap", {}).get(("MAP", "slot"))
            if newv is None:
                problems.append(("a known author's head becomes the greater of the stored and the given timestamp", "sat", "the stored value is not written"))
                continue
            nq += 1
            v, _ = solve(smt.script("(and true %s (not (= (toint %s) (ite (>= (toint OLD) (toint TS)) (toint OLD) (toint TS)))))" % (" ".join(pc), newv)))
            if v != "unsat":
                problems.append(("a known author's head becomes the greater of the stored and the given timestamp", v, "written=%s" % newv[:60]))
    # ---------------- merge: every head of the other set is inserted once
    for K in (0, 1, 2):
        smt = _base_smt()
        for i in range(K):
            smt.decls.append("(declare-const A%d V)" % i)
            smt.decls.append("(declare-const T%d V)" % i)
        models = std_models()

        def m_iter(ex, v, env, K=K):
            return ex.new_seq(env, ["(C_tuple2 (ref A%d) (ref T%d))" % (i, i) for i in range(K)])
        m_iter.wants_env = True

        def m_next(ex, v, env):
            it = seq_next(ex, env, v[0])
            return "C_None" if it is None else "(C_Some %s)" % it
        m_next.wants_env = True

        def m_insert(ex, v, env):
            env["__log"] = env.get("__log", ()) + (("insert", _deep(ex, env, v[0]), v[1], v[2]),)
            return "UNIT"
        m_insert.wants_env = True
        models.update({
            r"^heads::AuthorHeads::iter$": m_iter,
            r"^<std::collections::btree_map::Iter<'_, keys::AuthorId, u64> as Iterator>::next$": m_next,
            r"^heads::AuthorHeads::insert$": m_insert,
        })
        ex = PMExec(bodies, smt, models=models, max_paths=200, max_depth=3000)
        try:
            paths = ex.run(fn["merge"], ["HEADS", "(ref OTHER)"], feasibility=False)
        except (Inconclusive, ValueError, AssertionError, KeyError, IndexError, RecursionError) as e:
            problems.append(("AuthorHeads::merge can be followed", "inconclusive", "K=%d %r" % (K, e)))
            continue
        funcs |= ex.inlined
        for pc, ret, calls, env in paths:
            ncases += 1
            got = [l[1:] for l in env.get("__log", ()) if l[0] == "insert"]
            want = [("HEADS", "A%d" % i, "T%d" % i) for i in range(K)]
            if got != want:
                problems.append(("merge inserts every head of the other set into this one, once, with its own author and timestamp", "sat", "K=%d inserts=%s" % (K, got)))
    # ---------------- decode
    for K in (0, 1, 2):
        smt = _base_smt()
        for i in range(K):
            smt.decls.append("(declare-const A%d V)" % i)
            smt.decls.append("(declare-const T%d V)" % i)
        for c in ("BYTES", "PERR", "NEWHEADS"):
            smt.decls.append("(declare-const %s V)" % c)
        smt.decls.append("(declare-const decoded Bool)")
        models = std_models()

        def m_from_bytes(ex, v, env, K=K):
            env["__log"] = env.get("__log", ()) + (("from_bytes", v[0]),)
            seq = ex.new_seq(env, ["(C_tuple2 T%d A%d)" % (i, i) for i in range(K)])     # (Timestamp, AuthorId)
            return [("decoded", "(C_Ok %s)" % seq), ("(not decoded)", "(C_Err PERR)")]
        m_from_bytes.wants_env = True

        def m_insert(ex, v, env):
            env["__log"] = env.get("__log", ()) + (("insert", v[1], v[2]),)
            return "UNIT"
        m_insert.wants_env = True
        models.update({
            r"^(postcard::)?from_bytes::<": m_from_bytes,
            r"^<heads::AuthorHeads as (std::default::)?Default>::default$": lambda ex, v: "NEWHEADS",
            r"^heads::AuthorHeads::insert$": m_insert,
            r" as FromResidual<.*>>::from_residual$": lambda ex, v: v[0] if v[0].startswith("(C_Err") else "(C_Err %s)" % v[0],
        })
        ex = PMExec(bodies, smt, models=models, max_paths=200, max_depth=3000)
        try:
            paths = ex.run(fn["decode"], ["BYTES"], feasibility=False)
        except (Inconclusive, ValueError, AssertionError, KeyError, IndexError, RecursionError) as e:
            problems.append(("AuthorHeads::decode can be followed", "inconclusive", "K=%d %r" % (K, e)))
            continue
        funcs |= ex.inlined
        for pc, ret, calls, env in paths:
            ncases += 1
            log = env.get("__log", ())
            if [l for l in log if l[0] == "from_bytes"] != [("from_bytes", "BYTES")]:
                problems.append(("decode parses exactly the bytes it was given", "sat", str(log)[:100]))
                continue
            if "(not decoded)" in pc:
                if not ret.startswith("(C_Err") or [l for l in log if l[0] == "insert"]:
                    problems.append(("undecodable bytes are an error", "sat", "ret=%s" % ret[:50]))
                continue
            got = [l[1:] for l in log if l[0] == "insert"]
            want = [("A%d" % i, "T%d" % i) for i in range(K)]
            if got != want or not ret.startswith("(C_Ok"):
                problems.append(("decode returns the decoded (timestamp, author) pairs as heads, author and timestamp the right way round", "sat", "K=%d inserts=%s ret=%s" % (K, got, ret[:40])))
    # ---------------- LatestIterator::new / next
    smt = _base_smt()
    for c in ("TABLE", "NS", "RERR", "NSBYTES"):
        smt.decls.append("(declare-const %s V)" % c)
    smt.decls.append("(declare-const range_ok Bool)")
    models = std_models()

    def m_range(ex, v, env):
        env["__log"] = env.get("__log", ()) + (("range", v[0], v[1]),)
        return [("range_ok", "(C_Ok (C_latest_range %s))" % v[1]), ("(not range_ok)", "(C_Err RERR)")]
    m_range.wants_env = True
    smt.fun("C_latest_range", 1)
    models.update({
        r"^keys::NamespaceId::as_bytes$": lambda ex, v: "(ref NSBYTES)",
        r" as ReadableTable<.*>>::range::<": m_range,
        r" as FromResidual<.*>>::from_residual$": lambda ex, v: v[0] if v[0].startswith("(C_Err") else "(C_Err %s)" % v[0],
    })
    class PExec(PMExec):
        """promoted constants of this function keep their index (the generic instantiation in their path defeats the lookup)"""

        def _konst(self, c):
            m = re.search(r"::promoted\[(\d+)\]$", c)
            if m:
                return super()._konst("PROMOTED_%s" % m.group(1))
            return super()._konst(c)
    ex = PExec(bodies, smt, models=models, max_paths=200)
    try:
        paths = ex.run(lnew[0], ["(ref TABLE)", "NS"], feasibility=False)
        funcs |= ex.inlined
        for pc, ret, calls, env in paths:
            ncases += 1
            if "(not range_ok)" in pc:
                if not ret.startswith("(C_Err"):
                    problems.append(("a failing scan is reported", "sat", ret[:50]))
                continue
            rg = [l for l in env.get("__log", ()) if l[0] == "range"]
            ok = False
            mr = re.match(r"^\(call_std__ops__RangeInclusive\S*new \(C_tuple2 \(ref NSBYTES\) k_PROMOTED_(\d+)\) \(C_tuple2 \(ref NSBYTES\) k_PROMOTED_(\d+)\)\)$", rg[0][2]) if len(rg) == 1 else None
            if mr:
                def promoted_fill(i):
                    hit = [b for n, bs in bodies.items() if re.search(r"^store::fs::<impl at [^>]*>::new::promoted\[%s\]$" % i, n) for b in bs if "[u8; 32]" in b.ret]
                    if len(hit) != 1:
                        return None
                    txt = " ".join(st for blk in hit[0].blocks.values() for st in blk)
                    mm = re.search(r"= \[const (.+?); 32\];", txt)
                    return mm.group(1) if mm else None
                lo, hi = promoted_fill(mr.group(1)), promoted_fill(mr.group(2))
                ok = bool(lo and hi and re.search(r"::MIN$|^0_u8$", lo) and re.search(r"::MAX$|^255_u8$|^u8::MAX$", hi))
            if not ok:
                problems.append(("the heads of a document are scanned from (namespace, 00..00) to (namespace, ff..ff) inclusive", "sat", "range=%s" % (rg[0][2][:200] if rg else "-")))
    except (Inconclusive, ValueError, AssertionError, KeyError, IndexError, RecursionError) as e:
        problems.append(("LatestIterator::new can be followed", "inconclusive", "%r" % (e,)))
    smt = _base_smt()
    for c in ("IT", "RANGE", "KNS", "KAU", "VTS", "VKEY"):
        smt.decls.append("(declare-const %s V)" % c)
    models = std_models()

    def m_next_map(ex, v, env):
        outs = []
        for cond, r, patch in run_closure_forks(ex, env, v[1], ["(C_tuple2 (ref KNS) (ref KAU))", "(C_tuple2 VTS VKEY)"]):
            outs.append((cond, "(C_Some (C_Ok %s))" % r, patch))
        return outs
    m_next_map.wants_env = True
    models.update({
        r" as RangeExt<.*>>::next_map::<": m_next_map,
        r"^<&\[u8; 32\] as Into<keys::AuthorId>>::into$": lambda ex, v: "(author_from %s)" % mk_deref(v[0]),
    })
    ex = PMExec(bodies, smt, models=models, max_paths=200)
    try:
        paths = ex.run(lnext[0], ["IT"], heap0={("IT", "0"): "RANGE"}, feasibility=False)
        funcs |= ex.inlined
        for pc, ret, calls, env in paths:
            ncases += 1
            if ret not in ("(C_Some (C_Ok (C_tuple3 (author_from KAU) VTS VKEY)))", "(C_Some (C_Ok (C_tuple3 (author_from KAU) VTS (deref VKEY))))"):
                problems.append(("a head row is reported as (author = second key column, timestamp = first value column, key = second value column)", "sat", "ret=%s" % ret[:120]))
    except (Inconclusive, ValueError, AssertionError, KeyError, IndexError, RecursionError) as e:
        problems.append(("LatestIterator::next can be followed", "inconclusive", "%r" % (e,)))
    # ---------------- has_news_for_us
    for K in (0, 1, 2):
        smt = _base_smt()
        for i in range(K):
            smt.decls.append("(declare-const A%d V)" % i)
            smt.decls.append("(declare-const T%d V)" % i)
            smt.decls.append("(declare-const K%d V)" % i)
        for c in ("STORE", "NS", "THEIRS", "OURS", "LERR", "ROWERR", "VERDICT"):
            smt.decls.append("(declare-const %s V)" % c)
        smt.decls.append("(declare-const latest_ok Bool)")
        models = std_models()

        def m_latest(ex, v, env, K=K):
            env["__log"] = env.get("__log", ()) + (("latest", v[0], v[1]),)
            seq = ex.new_seq(env, ["(C_Ok (C_tuple3 A%d T%d K%d))" % (i, i, i) for i in range(K)])
            return [("latest_ok", "(C_Ok %s)" % seq), ("(not latest_ok)", "(C_Err LERR)")]
        m_latest.wants_env = True

        def m_next(ex, v, env):
            it = seq_next(ex, env, v[0])
            return "C_None" if it is None else "(C_Some %s)" % it
        m_next.wants_env = True

        def m_insert(ex, v, env):
            env["__log"] = env.get("__log", ()) + (("insert", _deep(ex, env, v[0]), v[1], v[2]),)
            return "UNIT"
        m_insert.wants_env = True

        def m_news(ex, v, env):
            env["__log"] = env.get("__log", ()) + (("has_news_for", _deep(ex, env, v[0]), _deep(ex, env, v[1])),)
            return "VERDICT"
        m_news.wants_env = True
        models.update({
            r"^store::fs::Store::get_latest_for_each_author$": m_latest,
            r"^<LatestIterator<'_> as Iterator>::next$": m_next,
            r"^<heads::AuthorHeads as (std::default::)?Default>::default$": lambda ex, v: "OURS",
            r"^heads::AuthorHeads::insert$": m_insert,
            r"^heads::AuthorHeads::has_news_for$": m_news,
            r" as FromResidual<.*>>::from_residual$": lambda ex, v: v[0] if v[0].startswith("(C_Err") else "(C_Err %s)" % v[0],
        })
        ex = PMExec(bodies, smt, models=models, max_paths=200, max_depth=3000)
        try:
            paths = ex.run(news[0], ["STORE", "NS", "(ref THEIRS)"], feasibility=False)
        except (Inconclusive, ValueError, AssertionError, KeyError, IndexError, RecursionError) as e:
            problems.append(("Store::has_news_for_us can be followed", "inconclusive", "K=%d %r" % (K, e)))
            continue
        funcs |= ex.inlined
        for pc, ret, calls, env in paths:
            ncases += 1
            log = env.get("__log", ())
            if "(not latest_ok)" in pc:
                if not ret.startswith("(C_Err"):
                    problems.append(("a failing head scan is reported", "sat", ret[:50]))
                continue
            lat = [l for l in log if l[0] == "latest"]
            ins = [l[1:] for l in log if l[0] == "insert"]
            nw = [l for l in log if l[0] == "has_news_for"]
            want_ins = [("OURS", "A%d" % i, "T%d" % i) for i in range(K)]
            if len(lat) != 1 or lat[0][1:] != ("STORE", "NS") or ins != want_ins or nw != [("has_news_for", "THEIRS", "OURS")] or ret != "(C_Ok VERDICT)":
                problems.append(("news for us = theirs.has_news_for(our heads), our heads being exactly the (author, timestamp) of every head row of the document", "sat",
                                 "K=%d inserts=%s verdict call=%s ret=%s" % (K, ins, nw, ret[:40])))
    problems.sort(key=lambda p: p[1] == "inconclusive")
    return dict(name=name, property="C13", verdict=_verdict(problems), detail="paths=%d; problems: %s" % (ncases, problems[:4] or "none"),
                functions=sorted(funcs) + ["std BTreeMap entry API, postcard::from_bytes, redb Range / RangeExt::next_map (modelled)"], queries=nq, cases=ncases, witness="c13api",
                check_message=(problems[0][0] if problems else "heads are inserted, merged, decoded and read back as specified"))


QUERIES_C13API = [q_c13_heads_api]
