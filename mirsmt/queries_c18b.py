"""E3 query for C18: `Store::new_impl` (what every way of opening a database goes through), executed (PMExec), every step
answering Ok or failing:
c18_open_runs_migrations — a store is handed out (Ok) only after, in this order, the tables were set up in a committed write
  transaction of THIS database and `run_migrations(&db)` ran on THIS database and succeeded — on every path, whatever the
  database contains: there is no way to open a store that skips the migrations (each migration decides for itself, by looking
  at its own table, whether it has work to do: c18_run_migration / c18_*_rebuild); any failing step is reported and no store
  is handed out."""
import re

from mirsmt import Smt, solve, mk_deref, split_sexpr_args
from stdmodels import PMExec, Inconclusive, std_models, _deep
from queries_c05 import _find, _src


def q_c18_open_runs_migrations(bodies):
    name = "c18_open_runs_migrations"
    hits = _find(bodies, r"^store::fs::<impl at [^>]*>::new_impl$", r"^_1: Database")
    if len(hits) != 1:
        return dict(name=name, property="C18", verdict="inconclusive", detail="Store::new_impl not found uniquely (%d)" % len(hits), functions=[])
    smt = Smt()
    for f, n in (("C_Ok", 1), ("C_Err", 1), ("C_Continue", 1), ("C_Break", 1), ("discr", 1), ("wtx", 1), ("conv", 1)):
        smt.fun(f, n)
    for c in ("DB", "E1", "E2", "E3", "E4", "UNIT", "TBLS"):
        smt.decls.append("(declare-const %s V)" % c)
    for b in ("begin_ok", "tables_ok", "commit_ok", "migr_ok"):
        smt.decls.append("(declare-const %s Bool)" % b)
    models = std_models()

    def log(kind, ok, okval, err):
        def f(ex, v, env):
            env["__log"] = env.get("__log", ()) + ((kind,) + tuple(_deep(ex, env, x) for x in v),)
            return [(ok, "(C_Ok %s)" % (okval(v) if callable(okval) else okval)), ("(not %s)" % ok, "(C_Err %s)" % err)]
        f.wants_env = True
        return f

    def other(ex, v, env):
        env["__log"] = env.get("__log", ()) + (("other", ex._cur),)
        return "UNIT"
    other.wants_env = True
    models.update({
        r"^Database::begin_write$": log("begin_write", "begin_ok", lambda v: "(wtx %s)" % mk_deref(v[0]), "E1"),
        r"^Tables::<'_>::new$": log("tables_new", "tables_ok", "TBLS", "E2"),
        r"^WriteTransaction::commit$": log("commit", "commit_ok", "UNIT", "E3"),
        r"^run_migrations$|^migrations::run_migrations$": log("run_migrations", "migr_ok", "UNIT", "E4"),
        r" as FromResidual<.*>>::from_residual$": lambda ex, v: "(C_Err (conv %s))" % (split_sexpr_args(v[0])[0] if v[0].startswith("(C_Err ") else v[0]),
        r"^Database::(begin_read|list_tables|compact|check_integrity)|^WriteTransaction::(list_tables|list_multimap_tables|open_table|abort)|^ReadTransaction::": other,
    })

    class OExec(PMExec):
        def call(self, callee, vals, env=None):
            self._cur = callee
            return super().call(callee, vals, env)
    ex = OExec(bodies, smt, models=models, max_paths=500)
    ex._cur = ""
    problems, nq, ncases = [], 0, 0
    try:
        paths = ex.run(hits[0], ["DB"], feasibility=False)
    except (Inconclusive, ValueError, AssertionError, KeyError, IndexError, RecursionError) as e:
        return dict(name=name, property="C18", verdict="inconclusive", detail="%r" % (e,), functions=[hits[0].name])
    for pc, ret, calls, env in paths:
        nq += 1
        v, _ = solve(smt.script("(and true %s)" % " ".join(pc)))
        if v == "unsat":
            continue
        ncases += 1
        log_ = env.get("__log", ())
        kinds = [l[0] for l in log_]
        flat = " ".join(pc)
        tag = "path=%s steps=%s" % (pc[:4], kinds)
        if "other" in kinds:
            problems.append(("opening a database does nothing but set up the tables and run the migrations (no inspection of the file decides to skip them)", "sat", tag + " %s" % [l[1] for l in log_ if l[0] == "other"][:2]))
            continue
        failed = any(("(not %s)" % b) in flat for b in ("begin_ok", "tables_ok", "commit_ok", "migr_ok"))
        if ret.startswith("(C_Ok"):
            want = [("begin_write", "DB"), ("tables_new", "(wtx DB)"), ("commit", "(wtx DB)"), ("run_migrations", "DB")]
            got = [tuple(l[:2]) for l in log_]
            if failed or got != want:
                problems.append(("a store is handed out only after its tables were set up in a committed transaction and run_migrations ran on the same database and succeeded", "sat", tag + " calls=%s" % (got,)))
        elif not failed:
            problems.append(("opening succeeds when every step succeeds", "sat", tag + " ret=%s" % ret[:50]))
    verdict = "violated" if any(p[1] != "inconclusive" for p in problems) else ("inconclusive" if problems else "holds")
    return dict(name=name, property="C18", verdict=verdict, detail="feasible paths=%d; problems: %s" % (ncases, problems[:3] or "none"),
                functions=sorted(ex.inlined) + ["redb begin_write / commit, Tables::new, run_migrations (its own query c18_run_migration): each answers Ok or an error"], queries=nq, cases=ncases, witness="c18",
                check_message=(problems[0][0] if problems else "every open runs the migrations"))


QUERIES_C18B = [q_c18_open_runs_migrations]
