"""E3 query for C15 ("filters survive their textual form unchanged"):
c15_filter_text — `<FilterKind as Display>::fmt` and `<FilterKind as FromStr>::from_str`, both executed from their MIR
  (PMExec) over the SMT theory of strings: the filter bytes are ONE symbolic string B of any length and any content
  (valid UTF-8 or not: `String::from_utf8` answers either way), the text is the string term the `write!` template and
  its arguments denote (the template byte code of the dump is decoded), and the parser runs on exactly that term:
  `split_once(':')` is `str.indexof` / `str.substr`, the comparisons with "exact" / "prefix" / "utf8" / "hex" are string
  equalities.  Asked of z3 and cvc5 for both variants and both encodings: on every feasible path of the composition the
  parser answers Ok with the SAME variant and bytes equal to B.  `hex::encode` / `hex::decode` are uninterpreted with the
  crate's contract (decode(encode(b)) = Ok(b)); any other `str -> str` function the parser may call on its input (trim,
  a case conversion, ...) is an uninterpreted function, so the solver is free to make it change the text: a `sat` is then
  confirmed (or not) by the native witness `c15text`, which pushes filters with white space, colons, non-UTF-8 bytes,
  upper-case hex look-alikes and the empty filter through the real `to_string` / `parse`."""
import re

from mirsmt import Smt, solve, split_sexpr_args
from stdmodels import PMExec, Inconclusive, std_models, _deep
from queries_c05 import _find


def _smt_str(raw):
    """text between the quotes of a MIR `const "..."` -> SMT-LIB string literal (None when it has an escape we do not decode)"""
    out, i = [], 0
    while i < len(raw):
        ch = raw[i]
        if ch == "\\":
            nx = raw[i + 1] if i + 1 < len(raw) else ""
            if nx in ('"', "\\", "'"):
                out.append(ord(nx)); i += 2
            elif nx == "n":
                out.append(10); i += 2
            elif nx == "t":
                out.append(9); i += 2
            elif nx == "r":
                out.append(13); i += 2
            elif nx == "0":
                out.append(0); i += 2
            elif nx == "x":
                out.append(int(raw[i + 2:i + 4], 16)); i += 4
            else:
                return None
        else:
            out.append(ord(ch)); i += 1
    return out


def _lit(codes):
    s = ""
    for c in codes:
        if c == 34:
            s += '""'
        elif 32 <= c < 127 and c != 92:
            s += chr(c)
        else:
            s += "\\u{%x}" % c
    return '"%s"' % s


def _template(codes, args):
    """core::fmt template byte code of this toolchain: n < 0x80 = a literal of n bytes follows; 0xC0 = the next argument with
    default options; 0 = end.  Anything else is not decoded (=> inconclusive)."""
    parts, i, k = [], 0, 0
    while i < len(codes):
        c = codes[i]
        if c == 0:
            if i != len(codes) - 1:
                return None
            break
        if c < 0x80:
            parts.append(_lit(codes[i + 1:i + 1 + c])); i += 1 + c
        elif c == 0xC0:
            if k >= len(args):
                return None
            parts.append(args[k]); k += 1; i += 1
        else:
            return None
    if k != len(args):
        return None
    if not parts:
        return '""'
    return parts[0] if len(parts) == 1 else "(str.++ %s)" % " ".join(parts)


def _S(t):
    t = t.strip()
    if not t.startswith("(S "):
        raise Inconclusive("not a string value: %s" % t[:80])
    return split_sexpr_args(t)[0]


class TExec(PMExec):
    def operand(self, env, op):
        o = re.sub(r"^(copy|move) ", "", op.strip())
        m = re.match(r'^const (b?)"(.*)"$', o, re.S)
        if m:
            codes = _smt_str(m.group(2))
            if codes is None:
                raise Inconclusive("string constant not decoded: %s" % o[:60])
            if m.group(1):
                self.templates.append(codes)
                return "(TPL %s)" % self._konst("int_%d" % (len(self.templates) - 1))
            return "(S %s)" % _lit(codes)
        m = re.match(r"^const '(.*)'$", o)
        if m:
            codes = _smt_str(m.group(1))
            if codes is None or len(codes) != 1:
                raise Inconclusive("char constant not decoded: %s" % o)
            return "(S %s)" % _lit(codes)
        return super().operand(env, op)


def _engine(bodies):
    smt = Smt()
    smt.decls.append("(declare-fun S (String) V)")
    for f, n in (("C_Ok", 1), ("C_Err", 1), ("C_Some", 1), ("C_tuple", 2), ("C_tuple", 3), ("C_tuple1", 1), ("C_arg", 1), ("TPL", 1), ("discr", 1), ("C_args", 1)):
        smt.fun(f, n)
    for c in ("C_None", "UNIT", "FMT", "HEXERR", "U8ERR", "ANYERR", "ARGS"):
        smt.decls.append("(declare-const %s V)" % c)
    smt.decls += ["(declare-fun hexenc (String) String)", "(declare-fun hexdec (String) String)", "(declare-fun hex_ok (String) Bool)",
                  "(declare-fun utf8 (String) Bool)", "(declare-const B String)"]
    unknown = []

    def ident(ex, v, env):
        return "(S %s)" % _S(_deep(ex, env, v[0]))
    ident.wants_env = True

    def split_once(ex, v, env):
        s, p = _S(_deep(ex, env, v[0])), _S(_deep(ex, env, v[1]))
        idx = "(str.indexof %s %s 0)" % (s, p)
        some = "(C_Some (C_tuple (S (str.substr %s 0 %s)) (S (str.substr %s (+ %s (str.len %s)) (str.len %s)))))" % (s, idx, s, idx, p, s)
        return [("(< %s 0)" % idx, "C_None"), ("(>= %s 0)" % idx, some)]
    split_once.wants_env = True

    def str_eq(ex, v, env):
        return "(b2v (= %s %s))" % (_S(_deep(ex, env, v[0])), _S(_deep(ex, env, v[1])))
    str_eq.wants_env = True

    def hex_decode(ex, v, env):
        s = _S(_deep(ex, env, v[0]))
        return [("(hex_ok %s)" % s, "(C_Ok (S (hexdec %s)))" % s), ("(not (hex_ok %s))" % s, "(C_Err HEXERR)")]
    hex_decode.wants_env = True

    def hex_encode(ex, v, env):
        b = _S(_deep(ex, env, v[0]))
        for a in ("(hex_ok (hexenc %s))" % b, "(= (hexdec (hexenc %s)) %s)" % (b, b)):
            if a not in smt.asserts:
                smt.asserts.append(a)
        return "(S (hexenc %s))" % b
    hex_encode.wants_env = True

    def from_utf8(ex, v, env):
        b = _S(_deep(ex, env, v[0]))
        return [("(utf8 %s)" % b, "(C_Ok (S %s))" % b), ("(not (utf8 %s))" % b, "(C_Err U8ERR)")]
    from_utf8.wants_env = True

    def new_display(ex, v, env):
        return "(C_arg %s)" % _deep(ex, env, v[0])
    new_display.wants_env = True

    def args_new(ex, v, env):
        t = _deep(ex, env, v[0])
        arr = _deep(ex, env, v[1])
        if not t.startswith("(TPL "):
            raise Inconclusive("format template is not a constant: %s" % t[:60])
        codes = ex.templates[int(split_sexpr_args(t)[0].rsplit("_", 1)[1])]
        items = split_sexpr_args(arr) if re.match(r"^\((C_tuple|mk_tuple\d*) ", arr) else [arr]
        args = []
        for it in items:
            it = _deep(ex, env, it)
            if not it.startswith("(C_arg "):
                raise Inconclusive("format argument not recognised: %s" % it[:60])
            args.append(_S(_deep(ex, env, split_sexpr_args(it)[0])))
        text = _template(codes, args)
        if text is None:
            raise Inconclusive("format template not decoded: %r" % (codes,))
        return "(C_args (S %s))" % text
    args_new.wants_env = True

    def write_fmt(ex, v, env):
        a = _deep(ex, env, v[1])
        if not a.startswith("(C_args "):
            raise Inconclusive("write_fmt of something that is not a decoded template: %s" % a[:60])
        env["__out"] = env.get("__out", ()) + (_S(split_sexpr_args(a)[0]),)
        return "(C_Ok UNIT)"
    write_fmt.wants_env = True

    def str_fn(ex, v, env):
        """any other method of str applied to the text: an uninterpreted function of all its string arguments"""
        callee = ex._cur
        name = "xf_" + re.sub(r"[^A-Za-z0-9]", "_", callee.split("::")[-1])
        args = []
        for x in v:
            d = _deep(ex, env, x)
            if not d.startswith("(S "):
                raise Inconclusive("call %s with a non-string argument" % callee)
            args.append(_S(d))
        decl = "(declare-fun %s (%s) String)" % (name, " ".join(["String"] * len(args)))
        if decl not in smt.decls:
            smt.decls.append(decl)
        unknown.append(callee)
        return "(S (%s %s))" % (name, " ".join(args))
    str_fn.wants_env = True

    def split_new(ex, v, env):
        """`s.split(p)`: a lazy iterator object; its state (what is left, exhausted or not) lives per path in the environment"""
        s_, p_ = _S(_deep(ex, env, v[0])), _S(_deep(ex, env, v[1]))
        ex.nsplit = getattr(ex, "nsplit", 0) + 1
        smt.fun("SPLIT", 1)
        ident = ex._konst("int_%d" % (600 + ex.nsplit))
        env["__split_%s" % ident] = (s_, p_, False)
        return "(SPLIT %s)" % ident
    split_new.wants_env = True

    def split_next(ex, v, env):
        it = _deep(ex, env, v[0])
        if not it.startswith("(SPLIT "):
            raise Inconclusive("next of %s" % it[:60])
        ident = split_sexpr_args(it)[0]
        r, p_, done = env["__split_%s" % ident]
        if done:
            return "C_None"
        idx = "(str.indexof %s %s 0)" % (r, p_)
        rest = "(str.substr %s (+ %s (str.len %s)) (str.len %s))" % (r, idx, p_, r)
        return [("(>= %s 0)" % idx, "(C_Some (S (str.substr %s 0 %s)))" % (r, idx), {"__split_%s" % ident: (rest, p_, False)}),
                ("(< %s 0)" % idx, "(C_Some (S %s))" % r, {"__split_%s" % ident: (r, p_, True)})]
    split_next.wants_env = True
    models = {
        r"^core::str::<impl str>::split::<char>$": split_new,
        r"^<std::str::Split<'_, char> as Iterator>::next$": split_next,
        r"^core::str::<impl str>::split_once::<char>$": split_once,
        r"^<str as PartialEq>::eq$": str_eq,
        r"^<str as ToOwned>::to_owned$|^<bytes::Bytes as From<String>>::from$|^<bytes::Bytes as From<Vec<u8>>>::from$|^<bytes::Bytes as Deref>::deref$"
        r"|^std::slice::<impl \[u8\]>::to_vec$|^<String as Deref>::deref$|^String::as_str$|^<str as ToString>::to_string$|^<String as From<&str>>::from$": ident,
        r"^hex::decode::<&str>$": hex_decode,
        r"^hex::encode::<&bytes::Bytes>$": hex_encode,
        r"^String::from_utf8$": from_utf8,
        r"^core::fmt::rt::Argument::<'_>::new_display::<.*>$": new_display,
        r"^Arguments::<'_>::new::<\d+, \d+>$": args_new,
        r"^Arguments::<'_>::from_str$": lambda ex, v: "ARGS",
        r"^anyhow::__private::format_err$": lambda ex, v: "ANYERR",
        r"^Formatter::<'_>::write_fmt$": write_fmt,
        r"^(core|alloc|std)::str::<impl str>::\w+(::<.*>)?$": str_fn,
    }
    for k, f in std_models().items():
        models.setdefault(k, f)

    class E(TExec):
        def call(self, callee, vals, env=None):
            self._cur = callee
            return super().call(callee, vals, env)
    ex = E(bodies, smt, models=models, max_paths=200, enums={"FilterKind": ["Prefix", "Exact"]})
    ex._cur = ""
    ex.templates = []
    return smt, ex, unknown


def q_c15_filter_text(bodies):
    name = "c15_filter_text"
    fm = [b for b in _find(bodies, r"^store::<impl at [^>]*>::fmt$", r"^_1: &FilterKind, _2: &mut Formatter") if any("write_fmt" in s for ss in b.blocks.values() for s in ss)]
    fr = _find(bodies, r"^store::<impl at [^>]*>::from_str$", r"^_1: &str -> Result<FilterKind")
    if len(fm) != 1 or len(fr) != 1:
        return dict(name=name, property="C15", verdict="inconclusive", detail="Display::fmt / FromStr::from_str of FilterKind not found uniquely (%d, %d)" % (len(fm), len(fr)), functions=[])
    smt, ex, unknown = _engine(bodies)
    problems, nq, ncases = [], 0, 0
    try:
        for variant in ("Prefix", "Exact"):
            paths = ex.run(fm[0], ["(ref (CE_FilterKind_%s (S B)))" % variant, "FMT"], feasibility=False)
            for pc, ret, calls, env in paths:
                nq += 1
                f1 = solve(smt.script("(and true %s)" % " ".join(pc)))[0]
                if f1 == "unsat":
                    continue
                if f1 != "sat":
                    problems.append(("feasibility of a path of Display::fmt", "inconclusive", "%s %s" % (variant, pc[:3])))
                    continue
                outs = env.get("__out", ())
                if len(outs) != 1 or not ret.startswith("(C_Ok"):
                    problems.append(("the text of a filter is written exactly once and writing succeeds", "inconclusive", "%s: %d writes, ret=%s" % (variant, len(outs), ret[:40])))
                    continue
                text = outs[0]
                back = ex.run(fr[0], ["(S %s)" % text], feasibility=False)
                for pc2, ret2, calls2, env2 in back:
                    nq += 1
                    full = list(pc) + list(pc2)
                    f2 = solve(smt.script("(and true %s)" % " ".join(full)))[0]
                    if f2 == "unsat":
                        continue
                    if f2 != "sat":
                        problems.append(("feasibility of a path of from_str", "inconclusive", "%s %s" % (variant, [p[:60] for p in pc2][:4])))
                        continue
                    ncases += 1
                    tag = "%s, %s: text=%s path=%s" % (variant, "utf8" if any(p.startswith("(utf8") for p in pc) else "hex", text[:70], [p[:60] for p in pc2][:5])
                    want = "(C_Ok (CE_FilterKind_%s (S " % variant
                    if not ret2.startswith(want):
                        problems.append(("parsing the text of a filter gives back a filter of the same kind", "sat", tag + " ret=%s" % ret2[:60]))
                        continue
                    got = _S(split_sexpr_args(split_sexpr_args(ret2)[0])[0])
                    nq += 1
                    v, _ = solve(smt.script("(and %s (not (= %s B)))" % (" ".join(full), got)))
                    if v != "unsat":
                        problems.append(("parsing the text of a filter gives back the same bytes", v, tag + " bytes=%s" % got[:80]))
    except (Inconclusive, ValueError, AssertionError, KeyError, IndexError, RecursionError) as e:
        return dict(name=name, property="C15", verdict="inconclusive", detail="%r" % (e,), functions=sorted(ex.inlined))
    if ncases < 4:
        problems.append(("both variants and both encodings are reached", "inconclusive", "only %d feasible compositions" % ncases))
    verdict = "violated" if any(p[1] == "sat" for p in problems) else ("inconclusive" if problems else "holds")
    return dict(name=name, property="C15", verdict=verdict,
                detail="feasible compositions=%d; uninterpreted str functions on the way: %s; problems: %s" % (ncases, sorted(set(unknown)) or "none", problems[:3] or "none"),
                functions=[fm[0].name, fr[0].name, "hex::encode / hex::decode (contract: decode(encode(b)) = Ok(b)), String::from_utf8 (either answer)"],
                queries=nq, cases=ncases, witness="c15text",
                check_message=(problems[0][0] if problems else "filters survive their textual form"))


def q_c09_filter_from_str_total(bodies):
    """`FilterKind::from_str` on ANY text (one symbolic SMT string): every path ends in Ok or Err.  The body has no assertion, index
    or slice terminator of its own (tracked: a MIR `assert` would be an obligation), and every callee on the way is one of the
    total functions modelled here (split_once, str equality, to_owned, Bytes::from, hex::decode, the anyhow constructors); a
    callee outside that list makes the query inconclusive instead of being assumed total."""
    name = "c09_filter_from_str_total"
    fr = _find(bodies, r"^store::<impl at [^>]*>::from_str$", r"^_1: &str -> Result<FilterKind")
    if len(fr) != 1:
        return dict(name=name, property="C09", verdict="inconclusive", detail="from_str of FilterKind not found uniquely (%d)" % len(fr), functions=[])
    smt, ex, unknown = _engine(bodies)
    smt.decls.append("(declare-const TXT String)")
    problems, nq, ncases, kinds = [], 0, 0, set()
    try:
        paths = ex.run(fr[0], ["(S TXT)"], feasibility=False)
    except (Inconclusive, ValueError, AssertionError, KeyError, IndexError, RecursionError) as e:
        return dict(name=name, property="C09", verdict="inconclusive", detail="%r" % (e,), functions=[fr[0].name])
    for pc, ret, calls, env in paths:
        nq += 1
        v = solve(smt.script("(and true %s)" % " ".join(pc)))[0]
        if v == "unsat":
            continue
        if v != "sat":
            problems.append(("feasibility of a path of from_str", "inconclusive", "%s" % [p[:60] for p in pc][:4]))
            continue
        ncases += 1
        if ret == "PANIC" or env.get("__panic"):
            problems.append(("parsing a filter never panics, whatever the text", "sat", "path=%s %s" % ([p[:60] for p in pc][:4], env.get("__panic"))))
            continue
        for cond, msg_ in env.get("__asserts", ()):
            nq += 1
            v2 = solve(smt.script("(and %s (not %s))" % (" ".join(pc) or "true", cond)))[0]
            if v2 != "unsat":
                problems.append(("parsing a filter never panics, whatever the text", v2, "assertion %s" % msg_))
        if ret.startswith("(C_Ok (CE_FilterKind_"):
            kinds.add(ret.split(" ")[1])
        elif not ret.startswith("(C_Err"):
            problems.append(("parsing a filter answers a filter or an error", "sat", "ret=%s" % ret[:60]))
    total = r"::(trim|trim_start|trim_end|trim_ascii|trim_ascii_start|trim_ascii_end|to_lowercase|to_uppercase|to_ascii_lowercase|to_ascii_uppercase)$"
    notknown = sorted(set(u for u in unknown if not re.search(total, u)))
    if notknown:
        problems.append(("every function the parser calls on the text is known to be total", "inconclusive", "%s" % notknown))
    if len(kinds) < 2:
        problems.append(("both kinds of filter can be parsed", "inconclusive", "%s" % sorted(kinds)))
    verdict = "violated" if any(p[1] == "sat" for p in problems) else ("inconclusive" if problems else "holds")
    return dict(name=name, property="C09", verdict=verdict, detail="feasible paths=%d; problems: %s" % (ncases, problems[:3] or "none"),
                functions=[fr[0].name, "str::split_once, str equality, to_owned, Bytes::from, hex::decode (answers Ok or Err), anyhow constructors: total"],
                queries=nq, cases=ncases, witness="c15text",
                check_message=(problems[0][0] if problems else "parsing a filter is total"))


QUERIES_C15TEXT = [q_c15_filter_text, q_c09_filter_from_str_total]
QUERIES_C09TEXT = [q_c15_filter_text, q_c09_filter_from_str_total]
