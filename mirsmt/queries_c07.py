"""E3 query for C07 over the REAL `Store::import_namespace` (src/store/fs.rs) and its transaction closure, executed (Exec2):

c07_import_namespace — stored capability row absent / present (parses or not), what `Capability::merge` answers symbolic
  (its law — upgrade only Read -> Write of the SAME document, error on another document — is the Kani harness
  `capability_merge`).  On every path:
    * the decision is made INSIDE one `Store::modify` transaction, by looking the row up under the imported capability's
      id and merging the stored capability with the imported one — there is no other way out (no answer from a cached or
      snapshot state), and what `modify` returns is returned unchanged;
    * row present: the outcome is `Upgraded` exactly when merge reports a change, `NoChange` when it reports none, and
      merge's error (another document) is an error that writes nothing; the row written back is the MERGED stored
      capability (`merge` updates it in place), so a write capability is never replaced by the imported read-only one;
    * row absent: outcome `Inserted`, the imported capability is written;
    * the row is written under the id of the capability that is written, as `raw()` of it.
"""
import re

from mirsmt import Smt, solve, mk_deref, mk_v2b, split_sexpr_args
from exec2 import is_addr
from stdmodels import PMExec, Inconclusive, std_models, _deep, run_closure_forks, conj
from queries_c05 import _find, _src, _enum_variants


def _verdict(problems):
    if any(p[1] != "inconclusive" for p in problems):
        return "violated"
    return "inconclusive" if problems else "holds"


def _tables_fields():
    m = re.search(r"pub struct Tables<'tx> \{(.*?)\n\}", _src("src/store/fs/tables.rs"), re.S)
    return re.findall(r"pub (\w+):", m.group(1)) if m else []


def q_c07_import_namespace(bodies):
    name = "c07_import_namespace"
    hits = _find(bodies, r"^store::fs::<impl at [^>]*>::import_namespace$", r"^_1: &mut store::fs::Store")
    fields = _tables_fields()
    ov = _enum_variants(_src("src/store.rs"), "ImportNamespaceOutcome") or _enum_variants(_src("src/store/fs.rs"), "ImportNamespaceOutcome")
    if len(hits) != 1 or "namespaces" not in fields or not ov:
        return dict(name=name, property="C07", verdict="inconclusive", detail="import_namespace / Tables / ImportNamespaceOutcome not found (%d %s)" % (len(hits), ov), functions=[])
    smt = Smt()
    for f, n in (("C_Ok", 1), ("C_Err", 1), ("C_Some", 1), ("C_None", 0), ("C_Continue", 1), ("C_Break", 1), ("C_guard", 1), ("C_tuple2", 2), ("cap_id", 1), ("bytes_of", 1), ("to_bytes", 1), ("raw_of", 1), ("discr", 1), ("conv", 1)):
        smt.fun(f, n)
    for c in ("STORE", "IMPORTED", "EXISTING", "ROW", "TBL", "GERR", "PERR", "MERR", "IERR", "UNIT"):
        smt.decls.append("(declare-const %s V)" % c)
    for b in ("get_ok", "row_present", "parse_ok", "merge_ok", "merge_changed", "insert_ok"):
        smt.decls.append("(declare-const %s Bool)" % b)
    models = std_models()

    def m_modify(ex, v, env):
        env["__log"] = env.get("__log", ()) + (("modify", _deep(ex, env, v[0])),)
        return run_closure_forks(ex, env, v[1], ["(ref TBL)"])
    m_modify.wants_env = True

    def m_insert(ex, v, env):
        env["__log"] = env.get("__log", ()) + (("insert", v[0], _deep(ex, env, v[1]), _deep(ex, env, v[2]) if not v[2].startswith("(C_tuple") else v[2]),)
        return [("insert_ok", "(C_Ok C_None)"), ("(not insert_ok)", "(C_Err IERR)")]
    m_insert.wants_env = True

    def m_other_access(ex, v, env):
        env["__log"] = env.get("__log", ()) + (("other", ex._cur),)
        return "UNIT"
    m_other_access.wants_env = True

    def m_merge(ex, v, env):
        env["__log"] = env.get("__log", ()) + (("merge", _deep(ex, env, v[0]), v[1]),)
        return [("(and merge_ok merge_changed)", "(C_Ok (b2v true))"), ("(and merge_ok (not merge_changed))", "(C_Ok (b2v false))"), ("(not merge_ok)", "(C_Err MERR)")]
    m_merge.wants_env = True
    models.update({
        r"^store::fs::Store::modify::<": m_modify,
        r"^sync::Capability::id$": lambda ex, v: "(cap_id %s)" % mk_deref(v[0]),
        r"^keys::NamespaceId::as_bytes$": lambda ex, v: "(ref (bytes_of %s))" % mk_deref(v[0]),
        r"^keys::NamespaceId::to_bytes$": lambda ex, v: "(to_bytes %s)" % mk_deref(v[0]),
        r" as ReadableTable<.*>>::get::<": lambda ex, v: [("(and get_ok row_present)", "(C_Ok (C_Some (C_guard ROW)))"), ("(and get_ok (not row_present))", "(C_Ok C_None)"), ("(not get_ok)", "(C_Err GERR)")],
        r"^AccessGuard::<'_, .*>::value$": lambda ex, v: "ROW",
        r"^parse_capability$": lambda ex, v: [("parse_ok", "(C_Ok EXISTING)"), ("(not parse_ok)", "(C_Err PERR)")],
        r"^sync::Capability::merge$": m_merge,
        r"^sync::Capability::raw$": lambda ex, v: "(raw_of %s)" % mk_deref(v[0]),
        r"^Table::<'_, &\[u8; 32\], \(u8, &\[u8; 32\]\)>::insert::<": m_insert,
        r" as FromResidual<.*>>::from_residual$": lambda ex, v: "(C_Err (conv %s))" % (split_sexpr_args(v[0])[0] if v[0].startswith("(C_Err ") else v[0]),
        r"^store::fs::Store::(tables|snapshot|snapshot_owned|flush)$|::get_many|ReadOnlyTables": m_other_access,
    })

    class IExec(PMExec):
        def call(self, callee, vals, env=None):
            self._cur = callee
            return super().call(callee, vals, env)
    ex = IExec(bodies, smt, models=models, enums={"ImportNamespaceOutcome": [v for v, _ in ov], "CurrentTransaction": ["None", "Read", "Write"]}, max_paths=2000)
    ex._cur = ""
    problems, nq, ncases = [], 0, 0
    try:
        paths = ex.run(hits[0], ["STORE", "IMPORTED"], feasibility=False)
    except (Inconclusive, ValueError, AssertionError, KeyError, IndexError, RecursionError) as e:
        return dict(name=name, property="C07", verdict="inconclusive", detail="%r" % (e,), functions=[hits[0].name])
    NSROW = "(addr (ref TBL) %s)" % ex.ksym(str(fields.index("namespaces")))
    for pc, ret, calls, env in paths:
        nq += 1
        v, _ = solve(smt.script("(and true %s)" % " ".join(pc)))
        if v == "unsat":
            continue
        ncases += 1
        flat = " ".join(pc)
        log = env.get("__log", ())
        tag = "path=%s" % pc[:5]
        mods = [l for l in log if l[0] == "modify"]
        if len(mods) != 1 or mods[0][1] != "STORE" or [l for l in log if l[0] == "other"]:
            problems.append(("an import is decided inside one Store::modify transaction by merging with the stored capability: there is no answer from a snapshot, a cache or a comparison of kinds", "sat",
                             tag + " ret=%s modify calls=%d other accesses=%s" % (ret[:50], len(mods), [l[1] for l in log if l[0] == "other"][:2])))
            continue
        ins = [l for l in log if l[0] == "insert"]
        mer = [l for l in log if l[0] == "merge"]
        has = lambda c: c in flat.replace("(not %s)" % c, "")  # noqa: E731
        if "(not get_ok)" in flat or (has("row_present") and "(not parse_ok)" in flat) or "(not merge_ok)" in flat or "(not insert_ok)" in flat:
            if not ret.startswith("(C_Err"):
                problems.append(("a failing lookup / parse / merge / write is reported", "sat", tag + " ret=%s" % ret[:50]))
            elif "(not insert_ok)" not in flat and ins:
                problems.append(("an import that fails (another document's capability, an unreadable row) writes nothing", "sat", tag))
            continue
        present = has("row_present")
        if present:
            if len(mer) != 1 or mer[0][1:] != ("EXISTING", "IMPORTED"):
                problems.append(("a stored capability is merged with the imported one (stored.merge(imported))", "sat", tag + " merges=%s" % (mer,)))
                continue
            want_out = "CE_ImportNamespaceOutcome_Upgraded" if has("merge_changed") else "CE_ImportNamespaceOutcome_NoChange"
            want_cap = "EXISTING"
        else:
            if mer:
                problems.append(("nothing is merged when the document is new", "sat", tag))
                continue
            want_out, want_cap = "CE_ImportNamespaceOutcome_Inserted", "IMPORTED"
        want_ins = ("insert", NSROW, "(to_bytes (cap_id %s))" % want_cap, "(raw_of %s)" % want_cap)
        got = [(l[0], l[1], l[2], l[3].replace("(C_tuple2 (fld_0 (raw_of %s)) (ref (fld_1 (raw_of %s))))" % (want_cap, want_cap), "(raw_of %s)" % want_cap)) for l in ins]
        if got != [want_ins]:
            problems.append(("the capability written back is the merged stored one (the imported one for a new document), under its own id, in its raw form — a stored write capability is never replaced by an imported read-only one", "sat",
                             tag + " written=%s" % [(g[2][:50], g[3][:70]) for g in got]))
            continue
        if ret != "(C_Ok %s)" % want_out:
            problems.append(("the outcome is Inserted for a new document, Upgraded exactly when the merge changed the stored capability, NoChange otherwise", "sat", tag + " ret=%s" % ret[:60]))
    problems.sort(key=lambda p: p[1] == "inconclusive")
    return dict(name=name, property="C07", verdict=_verdict(problems), detail="feasible paths=%d; problems: %s" % (ncases, problems[:4] or "none"),
                functions=sorted(ex.inlined) + ["Capability::merge (Kani harness capability_merge), parse_capability / Capability::raw (Kani harness capability_raw_roundtrip), redb Table::get / insert (modelled)"],
                queries=nq, cases=ncases, witness="c07imp",
                check_message=(problems[0][0] if problems else "imports are decided by merging with the stored capability inside one transaction"))


QUERIES_C07 = [q_c07_import_namespace]
