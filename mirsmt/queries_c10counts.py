"""E3 query for C10 ("on success the two sides' sent/received counts mirror each other"):
c10_step_counts — the body of `Replica::sync_process_message` (the one place where a session step is counted: `run_alice`
  and `BobState::run` thread their outcome through it), executed (PMExec) from its start state through the await of the
  reconciliation engine, which answers Ready(Ok(None)) / Ready(Ok(Some(reply))) / Ready(Err(e)); the incoming message has
  0..2 values (the loop that records the received heads is unrolled; the counters do not depend on it).  Asked of z3 and
  cvc5 on every feasible path that ends in success: afterwards
      num_recv = num_recv_before + value_count(incoming message)      and
      num_sent = num_sent_before + value_count(reply)   (unchanged when there is no reply),
  as terms over uninterpreted `value_count` / `plus`: what one side counts as sent is `value_count` of the very message
  the other side counts as received (the frame round trip is C09's), so the counts mirror whatever validation, the store
  or the clock make of the entries.  Any other function that touches a counter is an opaque value: `sat`, confirmed (or
  not) by the native witness c10steps (scenario c2: a session in which the receiver refuses one transmitted entry)."""
import re

from mirsmt import Smt, solve, split_sexpr_args
from stdmodels import PMExec, Inconclusive, std_models, _deep
from queries_c05 import _find
from queries_c14 import _tracing_off


def q_c10_step_counts(bodies):
    name = "c10_step_counts"
    hits = _find(bodies, r"::sync_process_message::\{closure#0\}$", r"^_1: Pin<&mut \{async fn body of sync::Replica<'_, I>::sync_process_message\(\)\}>")
    if len(hits) != 1:
        return dict(name=name, property="C10", verdict="inconclusive", detail="body of sync_process_message not found uniquely (%d)" % len(hits), functions=[])
    body = hits[0]
    dbg = {k: v for k, v in body.debug.items()}
    fields = {}
    for nm in ("self", "message", "from_peer", "state"):
        m = re.match(r"^\(\(\*_\d+\)\.(\d+): ", dbg.get(nm, ""))
        if not m:
            return dict(name=name, property="C10", verdict="inconclusive", detail="argument %s of the async fn not recognised: %s" % (nm, dbg.get(nm)), functions=[body.name])
        fields[nm] = m.group(1)
    smt = Smt()
    for f, n in (("C_Ok", 1), ("C_Err", 1), ("C_Some", 1), ("C_Continue", 1), ("C_Break", 1), ("CE_Poll_Ready", 1), ("discr", 1), ("C_pin", 1), ("CO", 1),
                 ("vcount", 1), ("plus", 2), ("C_tuple", 2), ("pmfut", 1), ("conv", 1)):
        smt.fun(f, n)
    smt.fun("CE_Poll_Pending", 0)
    smt.fun("C_None", 0)
    for c in ("SELF", "MSG", "PEER", "STATE", "HEADS0", "RECV0", "SENT0", "CX", "UNIT", "INFO", "NSID", "NOW", "E_OPEN", "E_PM", "REPLY", "VALUES", "POLICY", "CFG", "CB",
              "SE0", "SE1", "CS0", "CS1", "AUTH", "TS"):
        smt.decls.append("(declare-const %s V)" % c)
    for b in ("open_ok", "more_0", "more_1", "pm_ok", "has_reply"):
        smt.decls.append("(declare-const %s Bool)" % b)
    models = _tracing_off()

    def next_value(ex, v, env):
        n = env.get("__nvals", 0)
        if n >= 2:
            return "C_None"
        env["__nvals"] = n + 1
        return [("more_%d" % n, "(C_Some (ref (C_tuple SE%d CS%d)))" % (n, n)), ("(not more_%d)" % n, "C_None")]
    next_value.wants_env = True

    def touched(kind):
        def f(ex, v, env):
            env["__log"] = env.get("__log", ()) + ((kind,) + tuple(_deep(ex, env, x) for x in v[:2]),)
            return "UNIT"
        f.wants_env = True
        return f

    def poll(ex, v, env):
        fut = _deep(ex, env, v[0])
        if not fut.startswith("(pmfut "):
            raise Inconclusive("await of something else than the reconciliation engine: %s" % fut[:80])
        env["__log"] = env.get("__log", ()) + (("process_message", split_sexpr_args(fut)[0]),)
        return [("(and pm_ok has_reply)", "(CE_Poll_Ready (C_Ok (C_Some REPLY)))"), ("(and pm_ok (not has_reply))", "(CE_Poll_Ready (C_Ok C_None))"), ("(not pm_ok)", "(CE_Poll_Ready (C_Err E_PM))")]
    poll.wants_env = True
    own = {
        r"^<I as Deref>::deref$|^<I as DerefMut>::deref_mut$": lambda ex, v: "INFO",
        r"^sync::ReplicaInfo::ensure_open$": lambda ex, v: [("open_ok", "(C_Ok UNIT)"), ("(not open_ok)", "(C_Err E_OPEN)")],
        r"^sync::Replica::<'_, I>::id$": lambda ex, v: "NSID",
        r"^system_time_now$": lambda ex, v: "NOW",
        r"^ranger::Message::<sync::SignedEntry>::value_count$": None,   # below (needs env)
        r"^ranger::Message::<sync::SignedEntry>::values$": lambda ex, v: "VALUES",
        r"^<std::iter::Flatten<.*> as IntoIterator>::into_iter$": lambda ex, v: v[0],
        r"^<std::iter::Flatten<.*> as Iterator>::next$": next_value,
        r"^<sync::SignedEntry as Deref>::deref$": lambda ex, v: v[0],
        r"^sync::Entry::author$": lambda ex, v: "AUTH",
        r"^sync::SignedEntry::timestamp$": lambda ex, v: "TS",
        r"^heads::AuthorHeads::insert$": touched("heads_insert"),
        r"^<std::option::Option<Arc<dyn Fn\(.*as Clone>::clone$": lambda ex, v: "CB",
        r"^<StoreInstance<'_> as DownloadPolicyStore>::get_download_policy$": lambda ex, v: "POLICY",
        r"^Result::<DownloadPolicy, anyhow::Error>::unwrap_or_default$": lambda ex, v: "POLICY",
        r"^<SyncConfig as std::default::Default>::default$": lambda ex, v: "CFG",
        r"^<StoreInstance<'_> as ranger::Store<sync::SignedEntry>>::process_message::<": None,
        r" as Future>::poll$": poll,
        r" as FromResidual<.*>>::from_residual$": lambda ex, v: "(C_Err (conv %s))" % (split_sexpr_args(v[0])[0] if v[0].startswith("(C_Err ") else v[0]),
    }

    def value_count(ex, v, env):
        return "(vcount %s)" % _deep(ex, env, v[0])
    value_count.wants_env = True

    def process_message(ex, v, env):
        return "(pmfut %s)" % _deep(ex, env, v[2])
    process_message.wants_env = True
    own[r"^ranger::Message::<sync::SignedEntry>::value_count$"] = value_count
    own[r"^<StoreInstance<'_> as ranger::Store<sync::SignedEntry>>::process_message::<"] = process_message
    models.update(own)
    for k, f in std_models(opaque_ok=True).items():
        models.setdefault(k, f)

    class CExec(PMExec):
        def rvalue(self, env, rv):
            m = re.match(r"^(AddWithOverflow|SubWithOverflow|Add|Sub)\((.+)\)$", rv.strip())
            if m:
                a, b = [self.operand(env, x) for x in self.split_args(m.group(2))]
                if any(t in (a + " " + b) for t in ("RECV0", "SENT0", "vcount")):
                    op = "plus" if m.group(1).startswith("Add") else self.smt.fun("minus", 2)
                    val = "(%s %s %s)" % (op, a, b)
                    return "(mk_tuple2 %s (b2v false))" % val if "WithOverflow" in m.group(1) else val
            return super().rvalue(env, rv)
    ex = CExec(bodies, smt, models=models, enums={"Poll": ["Ready", "Pending"]}, max_paths=400)
    smt.fun("mk_tuple2", 2)
    cell = "(CO k_cell)"
    smt.decls.append("(declare-const k_cell V)")
    heap = {(cell, fields["self"]): "SELF", (cell, fields["message"]): "MSG", (cell, fields["from_peer"]): "PEER", (cell, fields["state"]): "STATE",
            ("STATE", "0"): "HEADS0", ("STATE", "1"): "RECV0", ("STATE", "2"): "SENT0"}
    env0 = {"__heap": heap, "_1": "(C_pin %s)" % cell, "_2": "CX"}
    ex.discr_of["(deref %s)" % cell] = 0
    sub, problems, nq, ncases = [], [], 0, 0
    try:
        ex.inlined.add(body.name)
        ex._walk(body, "bb0", env0, [], [], sub, 1)
    except (Inconclusive, ValueError, AssertionError, KeyError, IndexError, RecursionError) as e:
        return dict(name=name, property="C10", verdict="inconclusive", detail="%r" % (e,), functions=[body.name])
    succ = 0
    for pc, ret, calls, env in sub:
        nq += 1
        v, _ = solve(smt.script("(and true %s)" % " ".join(pc)))
        if v == "unsat":
            continue
        if v != "sat":
            problems.append(("feasibility of a path", "inconclusive", "%s" % pc[:4]))
            continue
        ncases += 1
        tag = "path=%s" % [p for p in pc if "more_" not in p][:4]
        if ret == "PANIC":
            continue     # arithmetic overflow of a counter: out of scope (usize counters of messages that were in memory)
        if not ret.startswith("(CE_Poll_Ready "):
            problems.append(("the step completes once the engine has answered", "sat", tag + " ret=%s" % ret[:50]))
            continue
        res = split_sexpr_args(ret)[0]
        if not res.startswith("(C_Ok"):
            continue
        succ += 1
        h = env.get("__heap", {})
        recv, sent = h.get(("STATE", "1")), h.get(("STATE", "2"))
        if recv is None or sent is None:
            problems.append(("the counters of the outcome are plain fields updated in place", "inconclusive", tag))
            continue
        reply = split_sexpr_args(res)[0]
        pms = [l for l in env.get("__log", ()) if l[0] == "process_message"]
        if len(pms) != 1 or pms[0][1] != "MSG":
            problems.append(("the engine processes exactly the incoming message, once", "sat", tag + " %s" % (pms,)))
            continue
        want_sent = "(plus SENT0 (vcount %s))" % split_sexpr_args(reply)[0] if reply.startswith("(C_Some") else "SENT0"
        for what, got, want in (("num_recv grows by the number of values of the incoming message, whatever becomes of them", recv, "(plus RECV0 (vcount MSG))"),
                                ("num_sent grows by the number of values of the reply (unchanged without a reply)", sent, want_sent)):
            nq += 1
            v, _ = solve(smt.script("(and %s (not (= %s %s)))" % (" ".join(pc) or "true", got, want)))
            if v != "unsat":
                problems.append((what, v, tag + " got=%s want=%s" % (got[:90], want)))
    if succ < 2:
        problems.append(("success with and without a reply is reached", "inconclusive", "%d successful paths" % succ))
    verdict = "violated" if any(p[1] == "sat" for p in problems) else ("inconclusive" if problems else "holds")
    return dict(name=name, property="C10", verdict=verdict, detail="feasible paths=%d (successful %d); problems: %s" % (ncases, succ, problems[:3] or "none"),
                functions=[body.name, "ranger::Message::value_count (uninterpreted), the reconciliation engine (answers Ok(None) / Ok(Some(reply)) / Err: C01's queries)"],
                queries=nq, cases=ncases, witness="c10steps",
                check_message=(problems[0][0] if problems else "a step counts what it receives and what it sends"))


QUERIES_C10COUNTS = [q_c10_step_counts]
