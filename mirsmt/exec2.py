#!/usr/bin/env python3
"""Exec2 — extensions of the E3 symbolic executor (all opt-in; the queries written against `Exec` are untouched):

* **addresses**: `&[mut] P` of a place that lives behind a pointer yields an address term `(addr R key)`
  (R = the pointer's term, key = field index or `Variant.field`); loads and stores through such a
  pointer go to the path-local heap under that address, so `&mut self` methods and callees that
  mutate through the references they receive are followed exactly.  A whole-value read of a place
  some part of which was overwritten field-wise raises (=> inconclusive) instead of returning a stale
  value; discriminant reads and further projections are unaffected (a field write presupposes its
  variant).
* **inlining with forking**: a callee whose body is in the dump (chosen by the query's `inline` rules,
  or a closure value whose body is identified by its `{closure@file:l:c}` type) is executed in its own
  frame, sharing the heap; every path of the callee continues the caller.
* **model forks**: a call model may return `[(cond, value), ...]`; the walk forks.
* **enums**: aggregates / discriminants / downcasts of the enums named in `enums` (variant lists read
  from the source by the query) are constructor terms `(CE_<Enum>_<Variant> ..)`, folded syntactically.
* **integers**: with `int_ops`, `Lt/Le/Gt/Ge/Eq/Ne` on integers are interpreted over SMT `Int` through
  `toint`, constants `k_<n>_u64|usize` have their value, `AddWithOverflow(x, const)` on a folded
  constant stays folded.
* syntactic pruning of branch arms whose condition (or its negation) is already on the path.
"""
import re
import sys

from mirsmt import Exec, mk_deref, mk_v2b, sanitize, split_sexpr_args, CTOR_DISCR

sys.setrecursionlimit(20000)


def strip_parens(p):
    p = p.strip()
    while p.startswith("(") and p.endswith(")") and Exec._balanced(p[1:-1]):
        p = p[1:-1].strip()
    return p


def is_addr(t):
    return t.startswith("(addr ")


def addr_parts(t):
    """(addr R key) -> (R, key)"""
    a = split_sexpr_args(t)
    return a[0], a[1]


class Exec2(Exec):
    def __init__(self, bodies, smt, models=None, inline=None, max_paths=256, enums=None, int_ops=False, max_depth=6000):
        super().__init__(bodies, smt, models=models, inline=None, max_paths=max_paths, ctor=True, unroll=True)
        self.inline_rules = inline or []      # [(callee regex, body-name regex, signature regex or None)]
        self.enums = enums or {}              # enum name -> [variant names in declaration order]
        self.int_ops = int_ops
        self.max_depth = max_depth
        self.closure_src = {}                 # constructor name -> "{closure@...}" text
        self._closure_index = None
        self.inlined = set()                  # names of the bodies that were executed
        self.discr_of = {}                    # value term -> discriminant (e.g. the state of a coroutine)
        self._promoted = {}
        self._promoted_index = None
        self.keyof = {}                       # address key symbol -> field key ("3", "Variant.1", "v3.6")
        smt.fun("addr", 2)
        if int_ops and "(declare-fun toint (V) Int)" not in smt.decls:
            smt.decls.append("(declare-fun toint (V) Int)")

    # ------------------------------------------------------------------ constants
    def _konst(self, c):
        n = "k_" + sanitize(c)[:80]
        new = (n, 0, "V") not in self.smt.funs
        r = super()._konst(c)
        if new and self.int_ops:
            m = re.match(r"^k_(\d+)_(usize|u64|u32|u8|isize|i64)$", n)
            if m:
                self.smt.asserts.append("(= (toint %s) %s)" % (n, m.group(1)))
        return r

    # ------------------------------------------------------------------ addresses
    def ksym(self, key):
        """SMT constant standing for a field key inside address terms"""
        sym = "ak_" + re.sub(r"[^A-Za-z0-9]", "_", key)
        if sym not in self.keyof:
            self.keyof[sym] = key
            if "(declare-const %s V)" % sym not in self.smt.decls:   # several executors may share one script
                self.smt.decls.append("(declare-const %s V)" % sym)
        return sym

    def addr_of(self, env, p):
        """address term of place expression `p`, or None when it is not behind a pointer"""
        p = strip_parens(p)
        m = re.match(r"^\*(.+)$", p)
        if m:
            return self.place(env, m.group(1))
        m = re.match(r"^(.+)\.(\d+): .+$", p)
        if m and self._balanced(m.group(1)):
            base = strip_parens(m.group(1))
            mv = re.match(r"^(.+) as (variant#\d+|\w+)$", base)
            if mv and self._balanced(mv.group(1)):
                a = self.addr_of(env, mv.group(1))
                key = "%s.%s" % (mv.group(2).replace("variant#", "v"), m.group(2))
                return "(addr %s %s)" % (a, self.ksym(key)) if a else None
            a = self.addr_of(env, base)
            return "(addr %s %s)" % (a, self.ksym(m.group(2))) if a else None
        return None

    def project(self, base, key):
        """field `key` (\"N\" or \"Variant.N\") of value term `base`"""
        if "." in key:
            var, f = key.split(".")
            if base.startswith("(CE_") or base.startswith("(C_"):
                head = base[1:].split(" ", 1)[0]
                if head.endswith("_" + var) or head == "C_" + var:
                    parts = split_sexpr_args(base)
                    if int(f) < len(parts):
                        return parts[int(f)]
            return "(%s (%s %s))" % (self.smt.fun("fld_%s" % f, 1), self.smt.fun("as_%s" % var, 1), base)
        if base.startswith("(C_") or base.startswith("(CE_") or base.startswith("(mk_"):
            # constructor terms and struct aggregates (MIR lists all fields in declaration order)
            parts = split_sexpr_args(base)
            if int(key) < len(parts):
                return parts[int(key)]
        return "(%s %s)" % (self.smt.fun("fld_%s" % key, 1), base)

    def load(self, env, a, whole=True):
        """value stored at address term `a` (an `(addr R key)` term, or any pointer term)"""
        heap = env.get("__heap", {})
        if not is_addr(a):
            hv = heap.get((a, "*"))
            return hv if hv is not None else mk_deref(a)
        R, key = addr_parts(a)
        key = self.keyof.get(key, key)
        if whole and any(a in k[0] for k in heap):
            raise ValueError("whole read of a place that was partly overwritten: %s" % a[:120])
        if (R, key) in heap:
            return heap[(R, key)]
        return self.project(self.load(env, R, whole=False), key)

    def store(self, env, a, val):
        heap = {k: v for k, v in env.get("__heap", {}).items() if a not in k[0]}
        if is_addr(a):
            R, key = addr_parts(a)
            heap[(R, self.keyof.get(key, key))] = val
        else:
            heap[(a, "*")] = val
        env["__heap"] = heap

    # ------------------------------------------------------------------ places
    def place(self, env, p, whole=False):
        p0 = strip_parens(p)
        heap = env.get("__heap", {})
        m = re.match(r"^\*(.+)$", p0)
        if m:
            v = self.place(env, m.group(1))
            if is_addr(v):
                return self.load(env, v, whole=whole)
            if whole and any(v in k[0] and k[1] != "*" for k in heap):
                raise ValueError("whole read through a pointer whose target was partly overwritten: %s" % v[:120])
            hv = heap.get((v, "*"))
            if hv is not None:
                return hv
            return mk_deref(v)
        a = self.addr_of(env, p0)
        if a is not None and is_addr(a):
            return self.load(env, a, whole=whole)
        # projections of locals: syntactic on constructor terms
        m = re.match(r"^(.+)\.(\d+): .+$", p0)
        if m and self._balanced(m.group(1)):
            base = strip_parens(m.group(1))
            mv = re.match(r"^(.+) as (variant#\d+|\w+)$", base)
            if mv and self._balanced(mv.group(1)):
                b = self.place(env, mv.group(1))
                return self.project(b, "%s.%s" % (mv.group(2).replace("variant#", "v"), m.group(2)))
            b = self.place(env, base)
            return self.project(b, m.group(2))
        m = re.match(r"^(.+) as (\w+)$", p0)
        if m and self._balanced(m.group(1)):
            return self.place(env, m.group(1))
        return super().place(env, p0)

    def operand(self, env, op):
        op = op.strip()
        o = re.sub(r"^(copy|move) ", "", op)
        o = re.sub(r"^no_retag ", "", o)
        o = re.sub(r"^(copy|move) ", "", o)
        if o.startswith("const "):
            c = o[6:]
            if c in ("true", "false"):
                return "(b2v %s)" % c
            if re.search(r"::promoted\[\d+\]$", c):
                key = ("__promoted", c)
                if key not in self._promoted:
                    if self._promoted_index is None:
                        self._promoted_index = [(n.rsplit(">::", 1)[-1], bs[0]) for n, bs in self.bodies.items() if re.search(r"::promoted\[\d+\]$", n) and len(bs) == 1]
                    cands = [b for tail, b in self._promoted_index if c.endswith("::" + tail) or c == tail]
                    val = None
                    if len(cands) == 1:
                        sub = []
                        self._walk(cands[0], "bb0", {}, [], [], sub, 1)
                        if len(sub) == 1 and not sub[0][0]:
                            val = sub[0][1]
                    self._promoted[key] = val
                if self._promoted[key] is not None:
                    return self._promoted[key]
            me = re.match(r"^(?:[\w:]+::)?(\w+)::(\w+)$", self._strip_generics(c))
            if me and me.group(1) in self.enums and me.group(2) in self.enums[me.group(1)]:
                return self.smt.fun("CE_%s_%s" % (me.group(1), me.group(2)), 0)
            return self._konst(c)
        return self.place(env, o, whole=True)

    def assign(self, env, lhs, val):
        lhs = lhs.strip()
        if re.match(r"^_\d+$", lhs):
            env[lhs] = val
            return
        a = self.addr_of(env, lhs)
        if a is not None:
            self.store(env, a, val)
            env["__writes"] = env.get("__writes", []) + [(a, "*", val)]
            return
        # projection of a local: rebuild constructor terms where possible, else havoc the local
        m = re.match(r"^\((_\d+)\.(\d+): .+\)$", lhs)
        if m and env.get(m.group(1), "").startswith("(C_tuple"):
            parts = split_sexpr_args(env[m.group(1)])
            parts[int(m.group(2))] = val
            head = env[m.group(1)][1:].split(" ", 1)[0]
            env[m.group(1)] = "(%s %s)" % (head, " ".join(parts))
            return
        return super().assign(env, lhs, val)

    # ------------------------------------------------------------------ rvalues
    def rvalue(self, env, rv):
        rv = rv.strip()
        m = re.match(r"^((?:copy|move|const) .+) as [^()]+ \((IntToInt|PtrToPtr|PointerCoercion\(.*\)|Transmute|FloatToInt|IntToFloat|PointerExposeProvenance|PointerWithExposedProvenance)\)$", rv)
        if m:
            return self.operand(env, m.group(1))
        m = re.match(r"^\((.+),\)$", rv)
        if m and self._balanced(m.group(1)) and len(self.split_args(m.group(1))) == 1:
            return "(%s %s)" % (self.smt.fun("C_tuple1", 1), self.operand(env, m.group(1)))
        m = re.match(r"^&(?:mut |raw const |raw mut )?(.+)$", rv)
        if m:
            inner = strip_parens(m.group(1))
            a = self.addr_of(env, inner)
            if a is not None:
                return a
            return "(ref %s)" % self.place(env, inner)
        m = re.match(r"^discriminant\((.+)\)$", rv)
        if m:
            b = self.place(env, m.group(1))
            if b in self.discr_of:
                return self._konst("int_%d" % self.discr_of[b])
            mc = re.match(r"^\(?CE_(\w+?)_(\w+)[ )]?", b + " ")
            if mc:
                for en, vs in self.enums.items():
                    if b.lstrip("(").startswith("CE_%s_" % en):
                        var = b.lstrip("(").split(" ")[0].rstrip(")")[len("CE_%s_" % en):]
                        if var in vs:
                            return self._konst("int_%d" % vs.index(var))
            mc = re.match(r"^\(?C_(\w+)", b)
            if mc and mc.group(1) in CTOR_DISCR:
                return self._konst("int_%d" % CTOR_DISCR[mc.group(1)])
            return "(%s %s)" % (self.smt.fun("discr", 1), b)
        m = re.match(r"^(Eq|Ne|Lt|Le|Gt|Ge)\((.+)\)$", rv)
        if m and self.int_ops:
            a, b = self.split_args(m.group(2))
            va, vb = self.operand(env, a), self.operand(env, b)
            if va.startswith("(b2v") or vb.startswith("(b2v"):
                return super().rvalue(env, rv)
            ma, mb = re.match(r"^k_(\d+)_(usize|u64)$", va), re.match(r"^k_(\d+)_(usize|u64)$", vb)
            if ma and mb:
                return super().rvalue(env, rv)
            op = {"Eq": "=", "Ne": "distinct", "Lt": "<", "Le": "<=", "Gt": ">", "Ge": ">="}[m.group(1)]
            if m.group(1) in ("Eq", "Ne") and not (ma or mb):
                return super().rvalue(env, rv)
            return "(b2v (%s (toint %s) (toint %s)))" % (op, va, vb)
        # enum aggregates of the registered enums:  path::Enum::Variant(args) | path::Enum::Variant { f: x } | path::Enum::Variant
        me = re.match(r"^(?:[\w:<>' ,]*::)?(\w+)::(\w+)(\(.*\)| \{.*\})?$", self._strip_generics(rv))
        if me and me.group(1) in self.enums and me.group(2) in self.enums[me.group(1)] and not rv.startswith("const "):
            name = "CE_%s_%s" % (me.group(1), me.group(2))
            rest = me.group(3)
            if not rest:
                return self.smt.fun(name, 0)
            if rest.startswith("("):
                vals = [self.operand(env, f) for f in self.split_args(rest[1:-1])]
            else:
                vals = [self.operand(env, f.split(":", 1)[1]) for f in self.split_args(rest.strip()[1:-1]) if ":" in f]
            return "(%s %s)" % (self.smt.fun(name, len(vals)), " ".join(vals)) if vals else self.smt.fun(name, 0)
        mcl = re.match(r"^(\{(?:closure|coroutine)@[^}]*\})( \{(.*)\})?$", rv)
        if mcl:
            cname = "C_closure_" + sanitize(mcl.group(1))
            self.closure_src[cname] = mcl.group(1)
            fields = [f.split(":", 1)[1] for f in self.split_args(mcl.group(3) or "") if ":" in f]
            vals = [self.operand(env, f) for f in fields]
            vals = self._disjoint_captures(env, mcl.group(1), fields, vals)
            return "(%s %s)" % (self.smt.fun(cname, len(vals)), " ".join(vals)) if vals else self.smt.fun(cname, 0)
        return super().rvalue(env, rv)

    def _disjoint_captures(self, env, src, fields, vals):
        """rustc's MIR printer lists ONE operand per captured VARIABLE (`{closure} { k: copy _8 }`) even when the closure
        captures several fields of it disjointly (upvars `k__0`, `k__1`, `k__2` = `_1.0`, `_1.1`, `_1.2` in its body): the
        operands of the other fields are not in the text.  When the printed operand is `copy _a` with `_a = copy (_b.0: T)` in
        the current block, the missing ones are the same base's fields `.1`, `.2`, ... (that is what the compiler emits)."""
        if src.startswith("{coroutine@") or len(fields) != 1:
            return vals
        try:
            body, _byref = self.closure_body(src)
        except ValueError:
            return vals
        ups = {}
        for name, expr in body.debug.items():
            m = re.match(r"^\(?\*?\(?_1\.(\d+): ", expr.strip())
            mm = re.match(r"^(\w+?)__(\d+)$", name)
            if m and mm:
                ups[int(m.group(1))] = (mm.group(1), int(mm.group(2)))
        if len(ups) <= 1 or len({v[0] for v in ups.values()}) != 1 or sorted(ups) != list(range(len(ups))):
            return vals
        mo = re.match(r"^(?:copy|move) (_\d+)$", fields[0].strip())
        if not mo:
            raise ValueError("closure with disjoint captures built from an operand the executor cannot trace: %s" % fields[0])
        base = None
        for st in getattr(self, "_cur_stmts", []):
            md = re.match(r"^%s = (?:no_retag )?(?:copy|move|&(?:mut )?) ?\(\(?\*?(_\d+)\)?\.(\d+): " % re.escape(mo.group(1)), st)
            if md:
                base = (md.group(1), st)
        if base is None:
            raise ValueError("closure with disjoint captures: defining statement of %s not found" % mo.group(1))
        tmpl = base[1].split(" = ", 1)[1]
        out = []
        for i in range(len(ups)):
            fld = ups[i][1]
            expr = re.sub(r"\.(\d+): ", ".%d: " % fld, tmpl, count=1).rstrip(";")
            out.append(self.rvalue(env, expr))
        return out

    @staticmethod
    def _strip_generics(rv):
        """remove `::<...>` turbofish groups that precede the argument list of an aggregate"""
        out, i, n = "", 0, len(rv)
        while i < n:
            if rv.startswith("::<", i):
                d, j = 0, i + 2
                while j < n:
                    if rv[j] == "<":
                        d += 1
                    elif rv[j] == ">" and rv[j - 1] != "-":
                        d -= 1
                        if d == 0:
                            break
                    j += 1
                i = j + 1
                continue
            if rv[i] in "({ ":
                out += rv[i:]
                break
            out += rv[i]
            i += 1
        return out

    # ------------------------------------------------------------------ inlining
    def _closures(self):
        if self._closure_index is None:
            self._closure_index = {}
            for name, bs in self.bodies.items():
                for b in bs:
                    m = re.match(r"^_1: (&(?:mut )?)?(\{(?:async )?closure@[^}]*\})", b.args)
                    if m:
                        # an async closure is built as `{closure@..}` and called through `{async closure@..}`
                        self._closure_index.setdefault(m.group(2).replace("{async closure@", "{closure@"), []).append((b, m.group(1) or ""))
        return self._closure_index

    def closure_body(self, src):
        hits = self._closures().get(src, [])
        if len(hits) != 1:
            raise ValueError("closure body for %s not found uniquely (%d)" % (src, len(hits)))
        return hits[0]

    def resolve_call(self, callee, vals, env):
        """-> (Body, argument terms) when the call is to be executed from the callee's own MIR, else None"""
        if re.search(r" as Fn(Mut|Once)?<.*>>::call(_mut|_once)?$", callee) and vals:
            f = vals[0]
            for _ in range(4):
                if f.startswith("(ref "):
                    f = mk_deref(f)
                elif is_addr(f):
                    f = self.load(env, f)
                else:
                    break
            head = f.lstrip("(").split(" ")[0].rstrip(")")
            mz = re.match(r"^k_ZeroSized___closure_", head)
            src = self.closure_src.get(head)
            if src is None and mz:
                # `const ZeroSized: {closure@file:l:c: l:c}`
                for s in self._closures():
                    if "k_" + sanitize("ZeroSized: " + s)[:80] == head:
                        src = s
                        break
            if src is None:
                return None
            body, byref = self.closure_body(src)
            args = split_sexpr_args(vals[1]) if len(vals) > 1 and vals[1].startswith("(") else []
            return body, [("(ref %s)" % f if byref else f)] + args
        for pat, bpat, sig in self.inline_rules:
            if re.search(pat, callee):
                hits = [b for name, bs in self.bodies.items() if re.search(bpat, name) for b in bs
                        if sig is None or re.search(sig, b.args + " -> " + b.ret)]
                if len(hits) != 1:
                    raise ValueError("inline rule %s: body %s not found uniquely (%d)" % (pat, bpat, len(hits)))
                return hits[0], vals
        return None

    # ------------------------------------------------------------------ the walk
    def run(self, body, arg_vals, heap0=None, env0=None, feasibility=True):
        e0 = dict(env0 or {})
        if heap0:
            e0["__heap"] = dict(heap0)
        for i, v in enumerate(arg_vals):
            e0["_%d" % (i + 1)] = v
        results = []
        self.inlined.add(body.name)
        self._walk(body, "bb0", e0, [], [], results, 0)
        if not feasibility:
            return results
        from mirsmt import solve
        feasible = []
        for r in results:
            if not r[0]:
                feasible.append(r)
                continue
            v, _ = solve(self.smt.script("(and true %s)" % " ".join(r[0])), timeout=20)
            if v != "unsat":
                feasible.append(r)
        return feasible

    @staticmethod
    def _neg(c):
        c = c.strip()
        if c.startswith("(not ") and c.endswith(")"):
            return c[5:-1]
        return "(not %s)" % c

    def _walk(self, body, bb, env, pc, calls, results, depth):
        if len(results) > self.max_paths or depth > self.max_depth:
            raise ValueError("path explosion in %s (paths=%d depth=%d)" % (body.name, len(results), depth))
        if depth > 0 and bb in self.stop_blocks:
            results.append((list(pc), "STOP:" + bb, list(calls), dict(env)))
            return
        env = dict(env)
        stmts = body.blocks[bb]
        for st in stmts[:-1]:
            self._cur_stmts = stmts
            self._stmt(env, st)
        term = stmts[-1] if stmts else "return;"
        if term.startswith("return"):
            results.append((list(pc), env.get("_0", self._konst("unit")), list(calls), dict(env)))
            return
        m = re.match(r"^goto -> (bb\d+);$", term)
        if m:
            return self._walk(body, m.group(1), env, pc, calls, results, depth + 1)
        if term.startswith("assert(const false"):
            return  # diverges
        m = re.match(r"^(?:drop|StorageDead|assert)\(.*\) -> \[(?:return|success): (bb\d+).*\];$", term)
        if m:
            return self._walk(body, m.group(1), env, pc, calls, results, depth + 1)
        m = re.match(r"^switchInt\((.+)\) -> \[(.+)\];$", term)
        if m:
            v = self.operand(env, m.group(1))
            arms = [a.strip() for a in m.group(2).split(",")]
            taken = []

            def lit(c):
                c = c.strip()
                if c in ("true", "(not false)"):
                    return "true"
                if c in ("false", "(not true)"):
                    return "false"
                mk = re.match(r"^\(= k_int_(\d+) k_int_(\d+)\)$", c)
                if mk:
                    return "true" if mk.group(1) == mk.group(2) else "false"
                if c in pc:
                    return "true"
                if self._neg(c) in pc:
                    return "false"
                return None

            for a in arms:
                k, tgt = [x.strip() for x in a.split(":")]
                if k == "otherwise":
                    if any(lit(c) == "true" for c in taken):
                        continue
                    rest = [c for c in taken if lit(c) != "false"]
                    conds = [self._neg(c) for c in rest]
                else:
                    is_bool = "bool" in body.locals.get(re.sub(r"^(copy|move) ", "", m.group(1)).strip(), "") or v.startswith("(b2v")
                    if is_bool and k in ("0", "1"):
                        cond = mk_v2b(v) if k == "1" else self._neg(mk_v2b(v))
                    else:
                        cond = "(= %s %s)" % (v, self._konst("int_" + k))
                    taken.append(cond)
                    if lit(cond) == "false":
                        continue
                    conds = [] if lit(cond) == "true" else [cond]
                self._walk(body, tgt, env, pc + conds, calls, results, depth + 1)
            return
        mc = self._split_call(term)
        if mc:
            lhs, callee, args, nxt = mc
            vals = [self.operand(env, a) for a in self.split_args(args)]
            modelled = any(re.search(pat, callee) for pat in self.models)
            tgt = None if modelled else self.resolve_call(callee, vals, env)
            if tgt is not None:
                body2, args2 = tgt
                self.inlined.add(body2.name)
                sub_env = {k: v2 for k, v2 in env.items() if k.startswith("__")}
                for i, v2 in enumerate(args2):
                    sub_env["_%d" % (i + 1)] = v2
                sub = []
                self._walk(body2, "bb0", sub_env, pc, calls, sub, depth + 1)
                for pc2, ret2, calls2, env2 in sub:
                    if isinstance(ret2, str) and ret2.startswith("STOP:"):
                        raise ValueError("stop block reached inside an inlined callee")
                    e = dict(env)
                    for k2, v2 in env2.items():
                        if k2.startswith("__"):
                            e[k2] = v2
                    if lhs is not None:
                        self.assign(e, lhs, ret2)
                    self._walk(body, nxt, e, pc2, calls2, results, depth + 1)
                    if len(results) > self.max_paths:
                        raise ValueError("path explosion in %s" % body.name)
                return
            val = self.call(callee, vals, env)
            calls = calls + [(callee, vals, list(pc))]
            if isinstance(val, list):
                for item in val:
                    cond, v2 = item[0], item[1]
                    if cond in ("false",) or self._neg(cond) in pc:
                        continue
                    e = dict(env)
                    if len(item) > 2 and item[2]:
                        e.update(item[2])       # a fork may carry its own bookkeeping state (e.g. the contents of a sequence)
                    if lhs is not None:
                        self.assign(e, lhs, v2)
                    self._walk(body, nxt, e, pc + ([] if cond == "true" or cond in pc else [cond]), calls, results, depth + 1)
                return
            if lhs is not None:
                self.assign(env, lhs, val)
            return self._walk(body, nxt, env, pc, calls, results, depth + 1)
        if re.match(r"^(_\d+ = )?[\w:<>]*panic\w*(::<.*>)?\(.*\) -> (bb\d+|unwind .*);$", term):
            return
        if term.startswith("unreachable") or term.startswith("resume") or term.startswith("abort") or "-> unwind" in term:
            return
        raise ValueError("unsupported terminator in %s %s: %s" % (body.name, bb, term))
