"""Shared pieces of the Exec2-based queries that drive code with loops over `Vec`s / iterators and closures:

* `PMExec`  — Exec2 + folded usize arithmetic (Add, Sub, Mul, Div, Rem and their checked forms), tracked `assert`
              terminators (a failing one ends the path as PANIC, an undecided one becomes an obligation), and SEQUENCE
              objects `(C_seq id)` (contents per path in env["__seq"]) standing for Vec / vec::IntoIter / slice::Iter /
              integer ranges: value semantics, moves keep the id.
* `std_models(...)` — call models for the std items the queries meet: Vec (new, with_capacity, push, len, is_empty, index,
              swap_remove, remove, mem::take, into_iter, iter, next, nth), lazy adaptors (map, filter_map, flatten) forced
              by collect / from_iter, Option / Result / bool combinators (branch, from_residual, map, and_then, ok,
              expect, unwrap, then_some, is_some ...), with closures executed from their own MIR (`run_closure`).
"""
import re

from mirsmt import mk_deref, mk_v2b, split_sexpr_args, sanitize
from exec2 import Exec2, is_addr


class Inconclusive(ValueError):
    pass


def _deep(ex, env, t):
    for _ in range(10):
        if is_addr(t):
            t = ex.load(env, t, whole=False)
        elif t.startswith("(ref "):
            t = mk_deref(t)
        else:
            break
    return t


class AssertTracking:
    """mixin for Exec2: `assert` terminators are not walked through — a condition that folds to false ends the path as PANIC,
    an undecided one is recorded in env["__asserts"] as an obligation for the solver"""

    def _walk(self, body, bb, env, pc, calls, results, depth):
        stmts = body.blocks.get(bb) or []
        term = stmts[-1] if stmts else ""
        m = re.match(r"^assert\((!?)((?:move|copy) [^,]+), \"(.*?)\".*\) -> \[success: (bb\d+).*\];$", term)
        if m and not term.startswith("assert(const"):
            if len(results) > self.max_paths or depth > self.max_depth:
                raise ValueError("path explosion in %s" % body.name)
            env = dict(env)
            for st in stmts[:-1]:
                self._cur_stmts = stmts
                self._stmt(env, st)
            v = mk_v2b(self.operand(env, m.group(2)))
            holds = self._neg(v) if m.group(1) else v
            if holds in ("true", "(not false)"):
                pass
            elif holds in ("false", "(not true)"):
                env["__panic"] = env.get("__panic", ()) + ("%s: %s" % (body.name.split("::")[-1], m.group(3)[:60]),)
                results.append((list(pc), "PANIC", list(calls), dict(env)))
                return
            else:
                env["__asserts"] = env.get("__asserts", ()) + ((holds, m.group(3)[:60]),)
            # continue at the success block: a block holding only a goto keeps the statements from running twice
            return self._walk_after_assert(body, m.group(4), env, pc, calls, results, depth + 1)
        return super()._walk(body, bb, env, pc, calls, results, depth)

    def _walk_after_assert(self, body, bb, env, pc, calls, results, depth):
        return self._walk(body, bb, env, pc, calls, results, depth)


class PMExec(AssertTracking, Exec2):
    """Exec2 + folded usize arithmetic (Rem, Div, Mul, Sub), tracked `assert` terminators, sequence objects"""

    def __init__(self, *a, **kw):
        super().__init__(*a, **kw)
        self.nseq = 0

    # ---- arithmetic on folded constants
    def rvalue(self, env, rv):
        rv = rv.strip()
        m = re.match(r"^(Rem|Div|Mul|Sub|MulWithOverflow|SubWithOverflow|Gt|Lt|Ge|Le)\((.+)\)$", rv)
        if m:
            a, b = self.split_args(m.group(2))
            va, vb = self.operand(env, a), self.operand(env, b)
            ma, mb = re.match(r"^k_(\d+)_(usize|i32)$", va), re.match(r"^k_(\d+)_(usize|i32)$", vb)
            o = m.group(1)
            if ma and mb:
                x, y, ty = int(ma.group(1)), int(mb.group(1)), ma.group(2)
                if o in ("Rem", "Div"):
                    if y == 0:
                        raise Inconclusive("division by a folded zero passed its assertion")
                    return self._konst("%d_%s" % (x % y if o == "Rem" else x // y, ty))
                if o in ("Mul", "MulWithOverflow"):
                    r = self._konst("%d_%s" % (x * y, ty))
                    return "(%s %s (b2v false))" % (self.smt.fun("C_tuple2", 2), r) if o.endswith("Overflow") else r
                if o in ("Sub", "SubWithOverflow"):
                    ovf = x < y
                    r = self._konst("%d_%s" % (max(x - y, 0), ty))
                    return "(%s %s (b2v %s))" % (self.smt.fun("C_tuple2", 2), r, "true" if ovf else "false") if o.endswith("Overflow") else r
                cmpr = {"Gt": x > y, "Lt": x < y, "Ge": x >= y, "Le": x <= y}
                return "(b2v %s)" % ("true" if cmpr[o] else "false")
            if o in ("Rem", "Div", "Mul", "MulWithOverflow", "SubWithOverflow", "Sub"):
                raise Inconclusive("%s on values that are not folded constants: %s %s" % (o, va[:40], vb[:40]))
            if o in ("Gt", "Lt", "Ge", "Le") and ((ma and re.match(r"^[A-Z]+$", vb)) or (mb and re.match(r"^[A-Z]+$", va))):
                # comparison of a folded count with a symbolic configuration value (max_set_size)
                op = {"Gt": ">", "Lt": "<", "Ge": ">=", "Le": "<="}[o]
                return "(b2v (%s %s %s))" % (op, ("%d" % int(ma.group(1))) if ma else "(toint %s)" % va, ("%d" % int(mb.group(1))) if mb else "(toint %s)" % vb)
        m = re.match(r"^(AddWithOverflow|Add)\((.+)\)$", rv)
        if m:
            a, b = self.split_args(m.group(2))
            va, vb = self.operand(env, a), self.operand(env, b)
            ma, mb = re.match(r"^k_(\d+)_(usize|i32)$", va), re.match(r"^k_(\d+)_(usize|i32)$", vb)
            if ma and mb:
                r = self._konst("%d_%s" % (int(ma.group(1)) + int(mb.group(1)), ma.group(2)))
                return "(%s %s (b2v false))" % (self.smt.fun("C_tuple2", 2), r) if m.group(1) == "AddWithOverflow" else r
            raise Inconclusive("%s on values that are not folded constants: %s %s" % (m.group(1), va[:40], vb[:40]))
        return super().rvalue(env, rv)

    # ---- sequences (Vec / iterators): `(C_seq k_int_<id>)`, contents in env["__seq"][id] = (items, pos)
    def new_seq(self, env, items):
        self.nseq += 1
        sid = self._konst("int_%d" % (100000 + self.nseq))
        env["__seq"] = dict(env.get("__seq", {}), **{sid: (tuple(items), 0)})
        self.smt.fun("C_seq", 1)
        return "(C_seq %s)" % sid

    def seq_of(self, env, t, what="sequence"):
        t = _deep(self, env, t)
        if not t.startswith("(C_seq "):
            raise Inconclusive("%s expected, got %s" % (what, t[:80]))
        sid = split_sexpr_args(t)[0]
        if sid not in env.get("__seq", {}):
            raise Inconclusive("unknown sequence %s" % sid)
        return sid

    def seq_items(self, env, t):
        sid = self.seq_of(env, t)
        items, pos = env["__seq"][sid]
        return list(items[pos:])


# ------------------------------------------------------------------------------------------------
# closures and sequences, usable from any model
# ------------------------------------------------------------------------------------------------

MERGE_KEYS = ["__seq", "__cmps", "__asserts", "__cscalls", "__log"]


def run_closure(ex, env, fval, args):
    """run a closure value on `args` from its own MIR -> [(conds, ret)]; additions the closure makes to the bookkeeping keys
    (sequences, logs) are merged into env; a panicking path is recorded in env["__panic"] and dropped"""
    f = fval
    for _ in range(4):
        if f.startswith("(ref "):
            f = mk_deref(f)
        elif is_addr(f):
            f = ex.load(env, f)
        else:
            break
    head = f.lstrip("(").split(" ")[0].rstrip(")")
    src = ex.closure_src.get(head)
    if src is None:
        for s in ex._closures():
            if "k_" + sanitize("ZeroSized: " + s)[:80] == head:
                src = s
                break
    if src is None:
        raise Inconclusive("closure value not recognised: %s" % f[:80])
    body, byref = ex.closure_body(src)
    sub_env = {k: v2 for k, v2 in env.items() if k.startswith("__")}
    a1 = ("(ref %s)" % f) if byref else f
    for i, v2 in enumerate([a1] + list(args)):
        sub_env["_%d" % (i + 1)] = v2
    sub = []
    ex.inlined.add(body.name)
    ex._walk(body, "bb0", sub_env, [], [], sub, 1)
    out = []
    for pc2, ret2, calls2, env2 in sub:
        if ret2 == "PANIC":
            env["__panic"] = env.get("__panic", ()) + env2.get("__panic", ())
            continue
        for k2 in MERGE_KEYS:
            if k2 in env2:
                if k2 == "__seq":
                    env[k2] = dict(env.get(k2, {}), **env2[k2])
                else:
                    old = env.get(k2, ())
                    env[k2] = old + tuple(x for x in env2[k2] if x not in old)
        out.append((list(pc2), ret2))
    return out


def run_closure_forks(ex, env, fval, args):
    """like run_closure, but nothing is merged into env: every path of the closure comes back with ITS OWN bookkeeping state
    -> [(condition, return value, environment patch)], directly usable as the answer of a call model"""
    f = fval
    for _ in range(4):
        if f.startswith("(ref "):
            f = mk_deref(f)
        elif is_addr(f):
            f = ex.load(env, f)
        else:
            break
    head = f.lstrip("(").split(" ")[0].rstrip(")")
    src = ex.closure_src.get(head)
    if src is None:
        for s_ in ex._closures():
            if "k_" + sanitize("ZeroSized: " + s_)[:80] == head:
                src = s_
                break
    if src is None:
        raise Inconclusive("closure value not recognised: %s" % f[:80])
    body, byref = ex.closure_body(src)
    sub_env = {k: v2 for k, v2 in env.items() if k.startswith("__")}
    a1 = ("(ref %s)" % f) if byref else f
    for i, v2 in enumerate([a1] + list(args)):
        sub_env["_%d" % (i + 1)] = v2
    sub = []
    ex.inlined.add(body.name)
    ex._walk(body, "bb0", sub_env, [], [], sub, 1)
    out = []
    for pc2, ret2, calls2, env2 in sub:
        patch = {k: v for k, v in env2.items() if k.startswith("__")}
        if ret2 == "PANIC":
            out.append((conj(pc2), "PANICVAL", patch))
        else:
            out.append((conj(pc2), ret2, patch))
    return out


def conj(conds):
    return "(and true %s)" % " ".join(conds) if conds else "true"


def force(ex, env, t):
    """-> [(conds, [items])] : the items a (possibly lazy) iterator yields, closures run from their MIR"""
    t = _deep(ex, env, t)
    if t.startswith("(C_seq "):
        return [([], ex.seq_items(env, t))]
    if t.startswith("(C_lazy "):
        kind, inner, clo = split_sexpr_args(t)
        outs = []
        for conds0, items in force(ex, env, inner):
            acc = [(list(conds0), [])]
            for it in items:
                nxt = []
                if kind.endswith("flatten"):
                    # Option / Vec items
                    for conds, lst in acc:
                        if it == "C_None":
                            nxt.append((conds, lst))
                        elif it.startswith("(C_Some "):
                            nxt.append((conds, lst + [split_sexpr_args(it)[0]]))
                        elif it.startswith("(C_seq "):
                            nxt.append((conds, lst + ex.seq_items(env, it)))
                        else:
                            raise Inconclusive("flatten over %s" % it[:60])
                    acc = nxt
                    continue
                rs = run_closure(ex, env, clo, [it])
                for conds, lst in acc:
                    for c2, r in rs:
                        if kind.endswith("filter_map"):
                            if r == "C_None":
                                nxt.append((conds + c2, lst))
                            elif r.startswith("(C_Some "):
                                nxt.append((conds + c2, lst + [split_sexpr_args(r)[0]]))
                            else:
                                raise Inconclusive("filter_map closure returned %s" % r[:60])
                        elif kind.endswith("filter"):
                            b = mk_v2b(r)
                            if b == "true":
                                nxt.append((conds + c2, lst + [it]))
                            elif b == "false":
                                nxt.append((conds + c2, lst))
                            else:
                                nxt.append((conds + c2 + [b], lst + [it]))
                                nxt.append((conds + c2 + [ex._neg(b)], lst))
                        else:
                            nxt.append((conds + c2, lst + [r]))
                acc = nxt
                if len(acc) > 64:
                    raise Inconclusive("too many forks while forcing an iterator")
            outs += acc
        return outs
    raise Inconclusive("iterator not understood: %s" % t[:80])


def seq_next(ex, env, t):
    sid = ex.seq_of(env, t, "iterator")
    items, pos = env["__seq"][sid]
    if pos >= len(items):
        return None
    env["__seq"] = dict(env["__seq"], **{sid: (items, pos + 1)})
    return items[pos]


def _wants_env(f):
    f.wants_env = True
    return f


def std_models(opaque_ok=False):
    """call models shared by the queries (a query adds its own on top; its own patterns win when listed first).
    opaque_ok: Option / Result combinators applied to a value the executor does not know the constructor of answer with an
    opaque term (the closure is then NOT run) instead of giving up"""

    def opaque(ex, what, x, extra=""):
        if not opaque_ok:
            raise Inconclusive("%s of %s" % (what, x[:60]))
        ex.smt.fun("opq_" + what, 1)
        return "(opq_%s %s)" % (what, x)

    def m_branch(ex, v):
        x = v[0]
        if x.startswith("(C_Ok ") or x.startswith("(C_Some "):
            return "(C_Continue %s)" % split_sexpr_args(x)[0]
        if x.startswith("(C_Err "):
            return "(C_Break %s)" % x
        if x == "C_None":
            return "(C_Break C_None)"
        # an opaque Result (the value of a call the query does not model): both outcomes
        ex._konst("int_0")
        for f in ("discr", "unwrap_ok", "unwrap_err"):
            ex.smt.fun(f, 1)
        ok = "(= (discr %s) k_int_0)" % x
        return [(ok, "(C_Continue (unwrap_ok %s))" % x), ("(not %s)" % ok, "(C_Break (C_Err (unwrap_err %s)))" % x)]

    @_wants_env
    def m_new(ex, v, env):
        return ex.new_seq(env, [])

    @_wants_env
    def m_push(ex, v, env):
        sid = ex.seq_of(env, v[0], "Vec")
        items, pos = env["__seq"][sid]
        env["__seq"] = dict(env["__seq"], **{sid: (items + (v[1],), pos)})
        return "UNIT"

    @_wants_env
    def m_into_iter(ex, v, env):
        t = _deep(ex, env, v[0])
        if t.startswith("(C_seq ") or t.startswith("(C_lazy "):
            return t
        if t.startswith("(mk_std__ops__Range"):
            a, b = split_sexpr_args(t)
            ma, mb = re.match(r"^k_(\d+)_usize$", a), re.match(r"^k_(\d+)_usize$", b)
            if not (ma and mb):
                raise Inconclusive("integer range with symbolic bounds")
            return ex.new_seq(env, [ex._konst("%d_usize" % i) for i in range(int(ma.group(1)), int(mb.group(1)))])
        if t == "C_None":
            return ex.new_seq(env, [])
        if t.startswith("(C_Some "):
            return ex.new_seq(env, [split_sexpr_args(t)[0]])
        raise Inconclusive("into_iter of %s" % t[:60])

    @_wants_env
    def m_iter(ex, v, env):
        # a borrowing iterator: yields references to the items; its own position
        items = ex.seq_items(env, v[0])
        return ex.new_seq(env, ["(ref %s)" % i for i in items])

    @_wants_env
    def m_next(ex, v, env):
        it = seq_next(ex, env, v[0])
        return "C_None" if it is None else "(C_Some %s)" % it

    @_wants_env
    def m_nth(ex, v, env):
        mo = re.match(r"^k_(\d+)_usize$", v[1])
        if not mo:
            raise Inconclusive("nth with a symbolic index")
        it = None
        for _ in range(int(mo.group(1)) + 1):
            it = seq_next(ex, env, v[0])
            if it is None:
                return "C_None"
        return "(C_Some %s)" % it

    @_wants_env
    def m_is_empty(ex, v, env):
        return "(b2v %s)" % ("true" if not ex.seq_items(env, v[0]) else "false")

    @_wants_env
    def m_len(ex, v, env):
        return ex._konst("%d_usize" % len(ex.seq_items(env, v[0])))

    def idx(t):
        mo = re.match(r"^k_(\d+)_usize$", t)
        if not mo:
            raise Inconclusive("Vec index that is not a folded constant: %s" % t[:40])
        return int(mo.group(1))

    @_wants_env
    def m_index(ex, v, env):
        sid = ex.seq_of(env, v[0], "Vec")
        items, pos = env["__seq"][sid]
        i = idx(v[1])
        if i >= len(items) - pos:
            env["__panic"] = env.get("__panic", ()) + ("index %d out of bounds (len %d)" % (i, len(items) - pos),)
            return "UNIT"
        return "(ref %s)" % items[pos + i]

    @_wants_env
    def m_swap_remove(ex, v, env):
        sid = ex.seq_of(env, v[0], "Vec")
        items, pos = env["__seq"][sid]
        i = idx(v[1])
        cur = list(items[pos:])
        if i >= len(cur):
            env["__panic"] = env.get("__panic", ()) + ("swap_remove index %d out of bounds (len %d)" % (i, len(cur)),)
            return "UNIT"
        out = cur[i]
        cur[i] = cur[-1]
        cur.pop()
        env["__seq"] = dict(env["__seq"], **{sid: (tuple(cur), 0)})
        return out

    @_wants_env
    def m_remove(ex, v, env):
        sid = ex.seq_of(env, v[0], "Vec")
        items, pos = env["__seq"][sid]
        i = idx(v[1])
        cur = list(items[pos:])
        if i >= len(cur):
            env["__panic"] = env.get("__panic", ()) + ("remove index %d out of bounds (len %d)" % (i, len(cur)),)
            return "UNIT"
        out = cur.pop(i)
        env["__seq"] = dict(env["__seq"], **{sid: (tuple(cur), 0)})
        return out

    @_wants_env
    def m_take(ex, v, env):
        """mem::take(&mut Vec): the old value moves out, an empty Vec stays"""
        a = v[0]
        old = _deep(ex, env, a)
        if not old.startswith("(C_seq "):
            raise Inconclusive("mem::take of %s" % old[:60])
        fresh = ex.new_seq(env, [])
        if is_addr(a):
            ex.store(env, a, fresh)
        else:
            raise Inconclusive("mem::take through a reference that is not an address")
        return old

    def lazy(kind):
        @_wants_env
        def f(ex, v, env):
            ex.smt.fun("C_lazy", 3)
            return "(C_lazy %s %s %s)" % (ex._konst("lazy_" + kind), v[0], v[1] if len(v) > 1 else "UNIT")
        return f

    @_wants_env
    def m_collect_vec(ex, v, env):
        return [(conj(c), ex.new_seq(env, items)) for c, items in force(ex, env, v[0])]

    @_wants_env
    def m_result_map(ex, v, env):
        x = v[0]
        if x.startswith("(C_Err "):
            return x
        if not x.startswith("(C_Ok "):
            return opaque(ex, "result_map", x)
        return [(conj(c), "(C_Ok %s)" % r) for c, r in run_closure(ex, env, v[1], [split_sexpr_args(x)[0]])]

    @_wants_env
    def m_option_map(ex, v, env):
        x = v[0]
        if x == "C_None":
            return x
        if not x.startswith("(C_Some "):
            return opaque(ex, "option_map", x)
        return [(conj(c), "(C_Some %s)" % r) for c, r in run_closure(ex, env, v[1], [split_sexpr_args(x)[0]])]

    @_wants_env
    def m_and_then(ex, v, env):
        x = v[0]
        if x.startswith("(C_Err ") or x == "C_None":
            return x
        if not (x.startswith("(C_Ok ") or x.startswith("(C_Some ")):
            return opaque(ex, "and_then", x)
        rs = run_closure(ex, env, v[1], [split_sexpr_args(x)[0]])
        if not rs:
            return [("true", "PANICVAL")]
        return [(conj(c), r) for c, r in rs]

    def m_ok(ex, v):
        x = v[0]
        if x.startswith("(C_Ok "):
            return "(C_Some %s)" % split_sexpr_args(x)[0]
        if x.startswith("(C_Err "):
            return "C_None"
        return opaque(ex, "ok", x)

    def m_then_some(ex, v):
        b = mk_v2b(v[0])
        if b == "true":
            return "(C_Some %s)" % v[1]
        if b == "false":
            return "C_None"
        return [(b, "(C_Some %s)" % v[1]), (ex._neg(b), "C_None")]

    @_wants_env
    def m_then(ex, v, env):
        """bool::then(closure): the closure runs only when the flag is set"""
        b = mk_v2b(v[0])
        outs = []
        if b != "false":
            for c, r in run_closure(ex, env, v[1], []):
                outs.append((conj(([] if b == "true" else [b]) + c), "(C_Some %s)" % r))
        if b != "true":
            outs.append(("true" if b == "false" else ex._neg(b), "C_None"))
        return outs

    @_wants_env
    def m_borrow_all(ex, v, env):
        x = _deep(ex, env, v[0])
        if x.startswith("(deref ") and x.endswith(")"):
            return x[len("(deref "):-1]        # a copy of what `p` points to, borrowed again, reads like `p`
        return "(ref %s)" % x

    def m_is_some(neg):
        def f(ex, v):
            x = v[0]
            x = mk_deref(x) if x.startswith("(ref ") else x
            if x.startswith("(C_Some "):
                return "(b2v %s)" % ("false" if neg else "true")
            if x == "C_None":
                return "(b2v %s)" % ("true" if neg else "false")
            # an opaque Option: both answers
            ex.smt.fun("opq_is_some", 1)
            c = "(v2b (opq_is_some %s))" % x
            return [(c, "(b2v %s)" % ("false" if neg else "true")), ("(not %s)" % c, "(b2v %s)" % ("true" if neg else "false"))]
        return f

    def m_is_ok(neg):
        def f(ex, v):
            x = v[0]
            x = mk_deref(x) if x.startswith("(ref ") else x
            if x.startswith("(C_Ok "):
                return "(b2v %s)" % ("false" if neg else "true")
            if x.startswith("(C_Err "):
                return "(b2v %s)" % ("true" if neg else "false")
            ex.smt.fun("opq_is_ok", 1)
            c = "(v2b (opq_is_ok %s))" % x
            return [(c, "(b2v %s)" % ("false" if neg else "true")), ("(not %s)" % c, "(b2v %s)" % ("true" if neg else "false"))]
        return f

    return {
        r" as Try>::branch$": m_branch,
        r" as FromResidual<.*>>::from_residual$": lambda ex, v: v[0] if v[0].startswith("(C_Err") or v[0] == "C_None" else ("C_None" if re.search(r"Option.*None$", v[0]) else "(C_Err %s)" % v[0]),
        r"^Vec::<.*>::new$|^Vec::<.*>::with_capacity$": m_new,
        r"^Vec::<.*>::push$": m_push,
        r"^Vec::<.*>::is_empty$": m_is_empty,
        r"^Vec::<.*>::len$": m_len,
        r"^Vec::<.*>::swap_remove$": m_swap_remove,
        r"^Vec::<.*>::remove$": m_remove,
        r"^<Vec<.*> as Index<usize>>::index$|^<Vec<.*> as IndexMut<usize>>::index_mut$": m_index,
        r"^(std|core)::mem::take::<Vec<": m_take,
        r"^<Vec<.*> as Deref>::deref$|^<Vec<.*> as DerefMut>::deref_mut$": lambda ex, v: v[0],
        r"^core::slice::<impl \[.*\]>::iter$": m_iter,
        r" as IntoIterator>::into_iter$": m_into_iter,
        r"^<std::vec::IntoIter<.*> as Iterator>::next$|^<std::slice::Iter<'_, .*> as Iterator>::next$|^<std::ops::Range<usize> as Iterator>::next$": m_next,
        r" as Iterator>::filter_map::<": lazy("filter_map"),
        r" as Iterator>::filter::<": lazy("filter"),
        r" as Iterator>::map::<": lazy("map"),
        r" as Iterator>::flatten$": lazy("flatten"),
        r" as Iterator>::collect::<Vec<": m_collect_vec,
        r"^Result::<.*>::map::<": m_result_map,
        r"^(std::option::)?Option::<.*>::map::<": m_option_map,
        r"^Result::<.*>::and_then::<|^(std::option::)?Option::<.*>::and_then::<": m_and_then,
        r"^Result::<.*>::ok$": m_ok,
        r"^bool::then_some::<|^core::bool::<impl bool>::then_some::<": m_then_some,
        r"^core::bool::<impl bool>::then::<.*\{closure@": m_then,
        r"^(std::option::)?Option::<.*>::is_some$": m_is_some(False),
        r"^(std::option::)?Option::<.*>::is_none$": m_is_some(True),
        r"^Result::<.*>::is_ok$": m_is_ok(False),
        r"^Result::<.*>::is_err$": m_is_ok(True),
        # byte strings are values: an owned copy of a slice is that slice's content, `&v[..]` borrows it again
        r"^std::slice::<impl \[u8\]>::to_vec$|^<\[u8\] as ToOwned>::to_owned$": lambda ex, v: mk_deref(v[0]),
        r"^<Vec<u8> as Index<RangeFull>>::index$|^<Vec<u8> as Deref>::deref$|^Vec::<u8>::as_slice$": m_borrow_all,
        r"^Pin::<&mut .*>::new_unchecked$": lambda ex, v: v[0],
        r" as IntoFuture>::into_future$": lambda ex, v: v[0],
    }


# ------------------------------------------------------------------------------------------------
# async blocks / async closure bodies run to completion from their own MIR
# ------------------------------------------------------------------------------------------------

def coroutine_body(ex, co):
    """the MIR body of the coroutine value `co` (a `(C_closure_{coroutine@file:l:c: l:c (#0)} fields..)` term)"""
    head = co.lstrip("(").split(" ")[0].rstrip(")")
    src = ex.closure_src.get(head)
    if src is None or not src.startswith("{coroutine@"):
        raise Inconclusive("not a coroutine of this crate: %s" % co[:60])
    loc = src.split("@", 1)[1].rstrip("}").split(" (#")[0]
    hits = [b for name, bs in ex.bodies.items() for b in bs
            if re.search(r"^_1: Pin<&mut \{(async block|async closure body|async fn body[^}]*)@?%s\}>" % re.escape(loc), b.args)
            or re.search(r"^_1: Pin<&mut \{[^}]*@%s\}>" % re.escape(loc), b.args)]
    if len(hits) > 1:
        # an async closure also has a by-move twin `{synthetic#0}` of the same body: the ordinary one is taken
        hits = [b for b in hits if "{synthetic#" not in b.name] or hits
    if len(hits) != 1:
        raise Inconclusive("coroutine body for %s not found uniquely (%d)" % (src, len(hits)))
    return hits[0]


def run_coroutine(ex, env, co):
    """run the coroutine value `co` from its start state until it returns Ready (every future it awaits has to be answered
    Ready by the query's poll model) -> [(conds, value, env_after)]"""
    body = coroutine_body(ex, co)
    ex.smt.fun("CO", 1)
    ex.nseq += 1
    cell = "(CO %s)" % ex._konst("int_%d" % (200000 + ex.nseq))
    sub_env = {k: v2 for k, v2 in env.items() if k.startswith("__")}
    heap = dict(sub_env.get("__heap", {}))
    parts = split_sexpr_args(co) if co.startswith("(") else []
    for i, part in enumerate(parts):
        heap[(cell, str(i))] = part
    sub_env["__heap"] = heap
    sub_env["_1"] = "(C_pin %s)" % cell
    sub_env["_2"] = "CX"
    ex.smt.fun("C_pin", 1)
    ex.discr_of["(deref %s)" % cell] = 0
    sub = []
    ex.inlined.add(body.name)
    ex._walk(body, "bb0", sub_env, [], [], sub, 1)
    out = []
    for pc2, ret2, calls2, env2 in sub:
        if ret2 == "PANIC":
            out.append((list(pc2), "PANIC", env2))
            continue
        if not ret2.startswith("(CE_Poll_Ready"):
            raise Inconclusive("a coroutine did not complete: %s" % ret2[:60])
        a = split_sexpr_args(ret2)
        out.append((list(pc2), a[0] if a else "UNIT", env2))
    return out


def run_all_coroutines(ex, env, cos):
    """run the coroutines one after the other (the order of a join / an ordered stream) -> [(conds, [values], env_after)]"""
    acc = [([], [], env)]
    for co in cos:
        nxt = []
        for conds, vals, e in acc:
            for c2, v, e2 in run_coroutine(ex, e, co):
                e3 = dict(e2)
                for k in list(e3):
                    if not k.startswith("__"):
                        del e3[k]
                nxt.append((conds + c2, vals + [v], e3))
        acc = nxt
        if len(acc) > 256:
            raise Inconclusive("too many forks while joining futures")
    return acc
