"""E3 query for C03 / C12 / C14 (direct ingress path): the wrapper `Replica::insert_remote_entry`, run as a coroutine from bb0:
c03_remote_insert — on every path
  * a closed replica ends with an error and hands NOTHING to insert_entry;
  * `validate_empty` is asked about THE RECEIVED entry unconditionally (not only for some shapes of it); when it refuses, its
    failure is returned and nothing is handed on — the same emptiness rule as on the reconciliation path
    (c03_reconcile_validation G2; the rule itself: Kani validate_empty_table);
  * otherwise exactly the received entry is handed to insert_entry, once, with origin Sync { from: the given peer,
    remote_content_status: the given status }, and what insert_entry answers is returned unchanged."""
import re

from mirsmt import Smt, solve, mk_deref, split_sexpr_args
from stdmodels import PMExec, Inconclusive, std_models, _deep
from queries_c05 import _find, _src


def q_c03_remote_insert(bodies):
    name = "c03_remote_insert"
    from queries_ins import _tracing_off
    hits = _find(bodies, r"^sync::<impl at [^>]*>::insert_remote_entry::\{closure#0\}$", r"async fn body of sync::Replica<'_, I>::insert_remote_entry\(\)")
    if len(hits) != 1:
        return dict(name=name, property="C03", verdict="inconclusive", detail="insert_remote_entry body not found uniquely (%d)" % len(hits), functions=[])
    body = hits[0]
    up = {}
    for var, expr in body.debug.items():
        mm = re.match(r"^\(\(\*_\d+\)\.(\d+): ", expr)
        if mm:
            up[var] = mm.group(1)
    if any(v not in up for v in ("self", "entry", "received_from", "content_status")):
        return dict(name=name, property="C03", verdict="inconclusive", detail="arguments not recognised: %s" % up, functions=[body.name])
    smt = Smt()
    for f, n in (("C_Ok", 1), ("C_Err", 1), ("C_Continue", 1), ("C_Break", 1), ("CE_Poll_Ready", 1), ("CE_Poll_Pending", 0), ("C_pin", 1), ("discr", 1), ("C_insfut", 3), ("conv", 1)):
        smt.fun(f, n)
    for c in ("CORO", "CX", "SELF", "ENTRY", "PEER", "STATUS", "UNIT", "CLOSED", "INSRES", "MALFORMED", "INFO"):
        smt.decls.append("(declare-const %s V)" % c)
    for b in ("open", "wf"):
        smt.decls.append("(declare-const %s Bool)" % b)
    models = _tracing_off()
    models.update(std_models(opaque_ok=True))

    def m_insert_entry(ex, v, env):
        env["__log"] = env.get("__log", ()) + (("insert_entry", _deep(ex, env, v[0]), _deep(ex, env, v[1]), _deep(ex, env, v[2])),)
        return "(C_insfut %s %s %s)" % (v[0], v[1], v[2])
    m_insert_entry.wants_env = True

    def m_poll(ex, v, env):
        fut = _deep(ex, env, v[0])
        if fut.startswith("(C_insfut "):
            return "(CE_Poll_Ready INSRES)"
        raise Inconclusive("poll of %s" % fut[:50])
    m_poll.wants_env = True

    def m_validate_empty(ex, v, env):
        env["__log"] = env.get("__log", ()) + (("validate_empty", _deep(ex, env, v[0])),)
        return [("wf", "(C_Ok UNIT)"), ("(not wf)", "(C_Err MALFORMED)")]
    m_validate_empty.wants_env = True

    def m_other(ex, v, env):
        env["__log"] = env.get("__log", ()) + (("other", ex._cur),)
        ex.smt.fun("opq_entry", 1)
        return "(b2v (v2b (opq_entry %s)))" % ex._konst("int_%d" % (7000 + len(env["__log"])))
    m_other.wants_env = True
    models.update({
        r"^<I as Deref>::deref$|^<I as DerefMut>::deref_mut$": lambda ex, v: "INFO",
        r"^sync::ReplicaInfo::ensure_open$": lambda ex, v: [("open", "(C_Ok UNIT)"), ("(not open)", "(C_Err CLOSED)")],
        r"^sync::SignedEntry::validate_empty$|^sync::Entry::validate_empty$": m_validate_empty,
        r"^sync::Replica::<'_, I>::insert_entry$": m_insert_entry,
        r" as Future>::poll$": m_poll,
        r" as FromResidual<.*>>::from_residual$": lambda ex, v: "(C_Err (conv %s))" % (split_sexpr_args(v[0])[0] if v[0].startswith("(C_Err ") else v[0]),
        r"^sync::SignedEntry::|^sync::Entry::|^sync::Record::|^<sync::SignedEntry as |^<iroh_blobs::Hash as |^store::fs::|StoreInstance|ranger::Store<": m_other,
    })

    class RExec(PMExec):
        def call(self, callee, vals, env=None):
            self._cur = callee
            return super().call(callee, vals, env)
    ex = RExec(bodies, smt, models=models, enums={"Poll": ["Ready", "Pending"], "InsertOrigin": ["Local", "Sync"]}, max_paths=500)
    ex._cur = ""
    ex.discr_of["(deref CORO)"] = 0
    heap0 = {("CORO", up["self"]): "SELF", ("CORO", up["entry"]): "ENTRY", ("CORO", up["received_from"]): "PEER", ("CORO", up["content_status"]): "STATUS"}
    res, problems, nq, ncases = [], [], 0, 0
    try:
        ex._walk(body, "bb0", {"__heap": heap0, "_1": "(C_pin CORO)", "_2": "CX"}, [], [], res, 0)
    except (Inconclusive, ValueError, AssertionError, KeyError, IndexError, RecursionError) as e:
        return dict(name=name, property="C03", verdict="inconclusive", detail="%r" % (e,), functions=[body.name])
    seen_ok = False
    for pc, ret, calls, env in res:
        nq += 1
        v, _ = solve(smt.script("(and true %s)" % " ".join(pc)))
        if v == "unsat":
            continue
        ncases += 1
        flat = " ".join(pc)
        log = env.get("__log", ())
        ins = [l for l in log if l[0] == "insert_entry"]
        ves = [l for l in log if l[0] == "validate_empty"]
        others = [l for l in log if l[0] == "other"]
        tag = "path=%s" % pc[:5]
        if "(not open)" in flat:
            if ins or not ret.startswith("(CE_Poll_Ready (C_Err"):
                problems.append(("a closed replica answers a remote insert with an error and stores nothing", "sat", tag + " ret=%s" % ret[:60]))
            continue
        if others:
            problems.append(("a remote insert is decided by validate_empty and insert_entry alone: the wrapper neither inspects the entry nor looks at the store (what the replica holds is put's business: order independence)", "sat", tag + " looked through %s" % [l[1] for l in others][:2]))
            continue
        if [l[1] for l in ves] != ["ENTRY"]:
            problems.append(("validate_empty is asked about the received entry, exactly once, before anything is handed on", "sat", tag + " validate_empty calls=%s" % (ves,)))
            continue
        if "(not wf)" in flat:
            if ins or not ret.startswith("(CE_Poll_Ready (C_Err"):
                problems.append(("an entry that fails the emptiness rule is refused with that failure and never handed to insert_entry", "sat", tag + " ret=%s handed=%d" % (ret[:50], len(ins))))
            continue
        want = ("insert_entry", "SELF", "ENTRY", "(CE_InsertOrigin_Sync PEER STATUS)")
        if list(ins) != [want]:
            problems.append(("exactly the received entry is handed to insert_entry, once, with origin Sync { from: the given peer, remote_content_status: the given status }", "sat", tag + " handed=%s" % [tuple(x[:70] for x in l[1:]) for l in ins]))
            continue
        if ret != "(CE_Poll_Ready INSRES)":
            problems.append(("what insert_entry answers is returned unchanged", "sat", tag + " ret=%s" % ret[:60]))
            continue
        seen_ok = True
    if not seen_ok and not problems:
        problems.append(("the accepting path is reached", "inconclusive", "no path hands an entry on"))
    verdict = "violated" if any(p[1] == "sat" for p in problems) else ("inconclusive" if problems else "holds")
    return dict(name=name, property="C03", verdict=verdict, detail="feasible paths=%d; problems: %s" % (ncases, problems[:3] or "none"),
                functions=[body.name, "SignedEntry::validate_empty (answers Ok or a failure: Kani validate_empty_table), Replica::insert_entry (its own query insert_entry_glue)"],
                queries=nq, cases=ncases, witness="d3,c03clock,c03remote",
                check_message=(problems[0][0] if problems else "a remote insert applies the emptiness rule and hands exactly its entry on"))


QUERIES_C03REMOTE = [q_c03_remote_insert]
