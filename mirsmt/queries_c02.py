"""E3 queries for C02 / C08 over the redb-backed pruning primitive `StoreInstance::remove_prefix_filtered` (src/store/fs.rs),
executed (Exec2) together with its transaction closure and the row predicate adaptor, over a modelled records table:

c02_remove_prefix — the table scan `extract_from_if(bounds, cb)` is a window over K <= 3 rows INSIDE the bounds (rows outside
  are never offered to the callback: that is what the bounds harnesses `bounds_author_prefix_*` decide); what the caller's
  predicate answers for each row is symbolic.  On every path:
    * the bounds are `RecordsBounds::author_prefix(id.namespace(), id.author(), id.key_bytes())` of the SAME identifier;
    * the scan goes over the RECORDS table of the transaction's tables, inside `Store::modify`;
    * the callback hands the caller's predicate, for EVERY row of the window exactly once, the record
      `Record::new(hash, len, timestamp)` rebuilt from that row's own value columns (timestamp = column 0, length = column 3,
      content hash = column 4) and returns the predicate's answer unchanged;
    * the lazy `ExtractIf` iterator is driven to its end (`count`), so every selected row really is removed, and the number
      returned is the number of rows selected.
"""
import re

from mirsmt import Smt, solve, mk_deref, mk_v2b, split_sexpr_args
from exec2 import is_addr
from stdmodels import PMExec, Inconclusive, std_models, _deep, run_closure, run_closure_forks, conj
from queries_c05 import _find, _src


def _verdict(problems):
    if any(p[1] != "inconclusive" for p in problems):
        return "violated"
    return "inconclusive" if problems else "holds"


def _tables_fields():
    m = re.search(r"pub struct Tables<'tx> \{(.*?)\n\}", _src("src/store/fs/tables.rs"), re.S)
    return re.findall(r"pub (\w+):", m.group(1)) if m else []


def q_c02_remove_prefix(bodies):
    name = "c02_remove_prefix"
    hits = _find(bodies, r"^store::fs::<impl at [^>]*>::remove_prefix_filtered$", r"StoreInstance")
    fields = _tables_fields()
    if len(hits) != 1 or "records" not in fields:
        return dict(name=name, property="C02", verdict="inconclusive", detail="remove_prefix_filtered / Tables not found (%d)" % len(hits), functions=[])
    problems, nq, ncases, funcs = [], 0, 0, set()
    for K in (0, 1, 2, 3):
        smt = Smt()
        for f, n in (("C_Ok", 1), ("C_Err", 1), ("C_Continue", 1), ("C_Break", 1), ("C_tuple5", 5), ("C_tuple3", 3), ("C_extract", 1), ("C_bounds", 3), ("C_asref", 1), ("mk_record", 3),
                     ("hash_from", 1), ("ns_of", 1), ("author_of", 1), ("keybytes_of", 1), ("discr", 1), ("C_seq", 1)):
            smt.fun(f, n)
        for c in ("SELF", "STORE", "ID", "PRED", "TBL", "UNIT", "SCANERR", "MODERR"):
            smt.decls.append("(declare-const %s V)" % c)
        for i in range(K):
            for c in ("KEY%d", "TS%d", "NSIG%d", "ASIG%d", "LEN%d", "HASH%d"):
                smt.decls.append("(declare-const %s V)" % (c % i))
            smt.decls.append("(declare-const sel_%d Bool)" % i)
        smt.decls.append("(declare-const scan_ok Bool)")
        rows = [("KEY%d" % i, "(C_tuple5 TS%d NSIG%d ASIG%d LEN%d HASH%d)" % (i, i, i, i, i)) for i in range(K)]
        models = std_models()

        def m_modify(ex, v, env):
            env["__log"] = env.get("__log", ()) + (("modify", _deep(ex, env, v[0])),)
            return run_closure_forks(ex, env, v[1], ["(ref TBL)"])
        m_modify.wants_env = True

        def m_extract(ex, v, env, rows=rows):
            env["__log"] = env.get("__log", ()) + (("scan", v[0], _deep(ex, env, v[1])),)
            # lazy: the callback runs when the iterator is driven
            return [("scan_ok", "(C_Ok (C_extract %s))" % v[2]), ("(not scan_ok)", "(C_Err SCANERR)")]
        m_extract.wants_env = True

        def drive(ex, env, it, upto, rows=rows):
            cb = split_sexpr_args(it)[0]
            acc = [([], 0)]
            for i, (k, val) in enumerate(rows[:upto]):
                nxt = []
                for c2, r in run_closure(ex, env, cb, [k, val]):
                    b = mk_v2b(r)
                    for conds, n in acc:
                        if b == "true":
                            nxt.append((conds + c2, n + 1))
                        elif b == "false":
                            nxt.append((conds + c2, n))
                        else:
                            nxt.append((conds + c2 + [b], n + 1))
                            nxt.append((conds + c2 + [ex._neg(b)], n))
                acc = nxt
            return acc

        def m_count(ex, v, env, rows=rows):
            it = _deep(ex, env, v[0])
            if not it.startswith("(C_extract "):
                raise Inconclusive("count of %s" % it[:60])
            env["__log"] = env.get("__log", ()) + (("driven", len(rows)),)
            return [(conj(c), ex._konst("%d_usize" % n)) for c, n in drive(ex, env, it, len(rows))]
        m_count.wants_env = True

        def m_pred(ex, v, env):
            a = split_sexpr_args(v[1]) if v[1].startswith("(C_tuple") else [v[1]]
            rec = _deep(ex, env, a[0])
            k = len([l for l in env.get("__log", ()) if l[0] == "pred"])
            env["__log"] = env.get("__log", ()) + (("pred", _deep(ex, env, v[0]), rec, k),)
            m = re.match(r"^\(mk_record \(hash_from HASH(\d+)\)", rec)
            i = int(m.group(1)) if m else k
            if i >= K:
                raise Inconclusive("predicate asked about something that is not a row of the window: %s" % rec[:60])
            return [("sel_%d" % i, "(b2v true)"), ("(not sel_%d)" % i, "(b2v false)")]
        m_pred.wants_env = True
        def m_table_touch(ex, v, env):
            env["__log"] = env.get("__log", ()) + (("touch", _deep(ex, env, v[0]) if v else "", ex._cur),)
            ex.smt.fun("opq_touch", 1)
            return "(C_Ok (opq_touch %s))" % ex._konst("int_%d" % (9000 + len(env["__log"])))
        m_table_touch.wants_env = True

        def m_opaque_bounds(ex, v, env):
            ex.smt.fun("opq_bounds", 1)
            return "(opq_bounds %s)" % ex._konst("int_%d" % (9500 + len(env.get("__log", ()))))
        m_opaque_bounds.wants_env = True
        models.update({
            r"^(Multimap)?Table::<.*>::(retain|retain_in|remove|insert|pop_first|pop_last|extract_if|drain|drain_filter|remove_all)(::<.*>)?$": m_table_touch,
            r"^ByKeyBounds::(new|namespace|as_ref)$|^RecordsBounds::(namespace|author_key|new|from_start|to_end)$": m_opaque_bounds,
            r"^RecordIdentifier::namespace$": lambda ex, v: "(ns_of %s)" % mk_deref(v[0]),
            r"^RecordIdentifier::author$": lambda ex, v: "(author_of %s)" % mk_deref(v[0]),
            r"^RecordIdentifier::key_bytes$": lambda ex, v: "(keybytes_of %s)" % mk_deref(v[0]),
            r"^RecordsBounds::author_prefix$": lambda ex, v: "(C_bounds %s %s %s)" % (v[0], v[1], v[2]),
            r"^RecordsBounds::as_ref$": lambda ex, v: "(C_asref %s)" % mk_deref(v[0]),
            r"^<store::fs::Store as AsMut<store::fs::Store>>::as_mut$": lambda ex, v: v[0],
            r"^store::fs::Store::modify::<": m_modify,
            r"^Table::<.*>::extract_from_if::<": m_extract,
            r"^<redb::ExtractIf<.*> as Iterator>::count$": m_count,
            r"^<&\[u8; 32\] as Into<iroh_blobs::Hash>>::into$": lambda ex, v: "(hash_from %s)" % v[0],
            r"^sync::Record::new$": lambda ex, v: "(mk_record %s %s %s)" % (v[0], v[1], v[2]),
            r"^<impl Fn\(&Record\) -> bool as Fn<\(&sync::Record,\)>>::call$": m_pred,
        })
        m = re.search(r"pub struct StoreInstance<'a> \{(.*?)\n\}", _src("src/store/fs.rs"), re.S)
        sf = re.findall(r"^\s*(?:pub(?:\([^)]*\))? )?(\w+)\s*:", m.group(1), re.M) if m else []
        if sorted(sf) != ["namespace", "store"]:
            return dict(name=name, property="C02", verdict="inconclusive", detail="StoreInstance layout changed: %s" % sf, functions=[])
        class TExec(PMExec):
            def call(self, callee, vals, env=None):
                self._cur = callee
                return super().call(callee, vals, env)
        ex = TExec(bodies, smt, models=models, max_paths=2000, max_depth=8000)
        ex._cur = ""
        try:
            paths = ex.run(hits[0], ["SELF", "(ref ID)", "PRED"], heap0={("SELF", str(sf.index("store"))): "STORE", ("SELF", str(sf.index("namespace"))): "MYNS"}, feasibility=False)
        except (Inconclusive, ValueError, AssertionError, KeyError, IndexError, RecursionError) as e:
            problems.append(("remove_prefix_filtered can be followed", "inconclusive", "K=%d: %r" % (K, e)))
            continue
        funcs |= ex.inlined
        RECORDS = "(addr (ref TBL) %s)" % ex.ksym(str(fields.index("records")))
        for pc, ret, calls, env in paths:
            nq += 1
            v, _ = solve(smt.script("(and true %s)" % " ".join(pc)))
            if v == "unsat":
                continue
            ncases += 1
            log = env.get("__log", ())
            flat = " ".join(pc)
            tag = "rows in bounds=%d path=%s" % (K, pc[:4])
            mods = [l for l in log if l[0] == "modify"]
            scans = [l for l in log if l[0] == "scan"]
            if len(mods) != 1 or mods[0][1] != "STORE":
                problems.append(("the removal runs inside one Store::modify of the document's own store", "sat", tag + " modify=%s" % (mods,)))
                continue
            want_bounds = "(C_asref (C_bounds (ns_of ID) (author_of ID) (keybytes_of ID)))"
            if len(scans) != 1 or scans[0][1] != RECORDS or scans[0][2] != want_bounds:
                problems.append(("the scan goes over the records table with the bounds author_prefix(id.namespace, id.author, id.key) of the identifier it was asked about", "sat", tag + " scans=%s" % (scans,)))
                continue
            touches = [l for l in log if l[0] == "touch"]
            if touches:
                problems.append(("pruning changes the records table only, through the one scan: no other row of any table is removed or written (a by-key index row of a surviving entry must stay, or key-ordered queries lose it)", "sat",
                                 tag + " also: %s" % [(t[2][:60], t[1][:50]) for t in touches][:2]))
                continue
            if "(not scan_ok)" in flat:
                if not ret.startswith("(C_Err"):
                    problems.append(("a failing scan is reported", "sat", tag))
                continue
            preds = [l for l in log if l[0] == "pred"]
            want = [("pred", "PRED", "(mk_record (hash_from HASH%d) LEN%d TS%d)" % (i, i, i), i) for i in range(K)]
            if list(preds) != want:
                problems.append(("the caller's predicate is asked about every row inside the bounds exactly once, with the record (content hash, length, timestamp) rebuilt from that row's own columns", "sat",
                                 tag + " predicate calls=%s" % [p[2][:60] for p in preds]))
                continue
            nsel = sum(1 for i in range(K) if ("sel_%d" % i) in flat.replace("(not sel_%d)" % i, ""))
            if any(("sel_%d" % i) not in flat for i in range(K)):
                problems.append(("the callback returns the predicate's answer for the row", "sat", tag))
                continue
            if ret != "(C_Ok %s)" % ex._konst("%d_usize" % nsel):
                problems.append(("every selected row is removed (the lazy scan is driven to its end) and their number is returned", "sat", tag + " ret=%s selected=%d" % (ret[:60], nsel)))
    problems.sort(key=lambda p: p[1] == "inconclusive")
    return dict(name=name, property="C02", verdict=_verdict(problems), detail="feasible paths=%d; problems: %s" % (ncases, problems[:4] or "none"),
                functions=sorted(funcs) + ["redb Table::extract_from_if / ExtractIf::count (modelled: a lazy window over the K rows inside the bounds), RecordsBounds::author_prefix (Kani harnesses bounds_author_prefix_*)"],
                queries=nq, cases=ncases, witness="d1,c02prune",
                check_message=(problems[0][0] if problems else "remove_prefix_filtered removes exactly the rows of the prefix that the predicate selects"))


QUERIES_C02 = [q_c02_remove_prefix]


# ------------------------------------------------------------------------------------------------
# Replica::insert / Replica::delete_prefix: what the local write paths hand to insert_entry
# ------------------------------------------------------------------------------------------------

def q_local_writes(bodies):
    """`Replica::insert` and `Replica::delete_prefix` (coroutines, run from bb0 with the await on insert_entry answered Ready).
    On every path:
      * a closed replica and a replica without the write secret end with an error and hand NOTHING to insert_entry;
      * insert refuses an entry that would be a (malformed) deletion marker: length 0 or the EMPTY hash;
      * otherwise EXACTLY ONE entry is handed to insert_entry, with origin Local, whatever the replica currently holds
        (no look at the store, no shortcut): for insert the record `Record::new_current(hash, len)` at
        RecordIdentifier(namespace of the replica, author.id(), key); for delete_prefix the deletion marker
        `Entry::new_empty(RecordIdentifier(namespace, author.id(), prefix))` — ALWAYS, also when nothing matches the prefix
        now (the marker is what rejects older entries that arrive later);  it is signed with the replica's own secret and
        the author; what insert_entry answers is returned unchanged."""
    name = "local_writes"
    from queries_ins import _tracing_off
    problems, nq, ncases, funcs = [], 0, 0, set()
    for which in ("insert", "delete_prefix"):
        hits = _find(bodies, r"^sync::<impl at [^>]*>::%s::\{closure#0\}$" % which, r"async fn body of sync::Replica<'_, I>::%s<" % which)
        if len(hits) != 1:
            problems.append(("Replica::%s found" % which, "inconclusive", "%d bodies" % len(hits)))
            continue
        body = hits[0]
        up = {}
        for var, expr in body.debug.items():
            mm = re.match(r"^\(\(\*_\d+\)\.(\d+): ", expr)
            if mm:
                up[var] = mm.group(1)
        need = ("self", "author", "key", "hash", "len") if which == "insert" else ("self", "prefix", "author")
        if any(v not in up for v in need):
            problems.append(("Replica::%s upvars" % which, "inconclusive", str(up)))
            continue
        smt = Smt()
        for f, n in (("C_Ok", 1), ("C_Err", 1), ("C_Continue", 1), ("C_Break", 1), ("CE_Poll_Ready", 1), ("CE_Poll_Pending", 0), ("C_pin", 1), ("discr", 1), ("mk_id", 3), ("mk_entry", 2), ("rec_now", 2),
                     ("entry_empty", 1), ("signed", 3), ("author_id", 1), ("C_insfut", 3), ("conv", 1), ("ns_of", 1)):
            smt.fun(f, n)
        for c in ("CORO", "CX", "SELF", "AUTHOR", "KEY", "HASH", "LEN", "UNIT", "SECRET", "RO", "CLOSED", "INSRES", "EMPTYHASH"):
            smt.decls.append("(declare-const %s V)" % c)
        for b in ("open", "has_secret", "len_zero", "hash_empty"):
            smt.decls.append("(declare-const %s Bool)" % b)
        models = _tracing_off()
        models.update(std_models())

        def m_insert_entry(ex, v, env):
            env["__log"] = env.get("__log", ()) + (("insert_entry", v[0], v[1], v[2]),)
            return "(C_insfut %s %s %s)" % (v[0], v[1], v[2])
        m_insert_entry.wants_env = True

        def m_poll(ex, v, env):
            fut = _deep(ex, env, v[0])
            if fut.startswith("(C_insfut "):
                return "(CE_Poll_Ready INSRES)"
            raise Inconclusive("poll of %s" % fut[:50])
        m_poll.wants_env = True

        def m_other_store(ex, v, env):
            env["__log"] = env.get("__log", ()) + (("store", ex._cur),)
            return "UNIT"
        m_other_store.wants_env = True
        models.update({
            r"^<I as Deref>::deref$|^<I as DerefMut>::deref_mut$": lambda ex, v: v[0],
            r"^sync::ReplicaInfo::ensure_open$": lambda ex, v: [("open", "(C_Ok UNIT)"), ("(not open)", "(C_Err CLOSED)")],
            r"^sync::Replica::<'_, I>::id$": lambda ex, v: "(ns_of %s)" % v[0],
            r"^keys::Author::id$": lambda ex, v: "(author_id %s)" % mk_deref(v[0]),
            r"^RecordIdentifier::new::<": lambda ex, v: "(mk_id %s %s %s)" % (v[0], v[1], v[2]),
            r"^sync::Record::new_current$": lambda ex, v: "(rec_now %s %s)" % (v[0], v[1]),
            r"^sync::Entry::new$": lambda ex, v: "(mk_entry %s %s)" % (v[0], v[1]),
            r"^sync::Entry::new_empty$": lambda ex, v: "(entry_empty %s)" % v[0],
            r"^sync::Replica::<'_, I>::secret_key$": lambda ex, v: [("has_secret", "(C_Ok (ref SECRET))"), ("(not has_secret)", "(C_Err RO)")],
            r"^sync::Entry::sign$": lambda ex, v: "(signed %s %s %s)" % (v[0], mk_deref(v[1]), mk_deref(v[2])),
            r"^sync::Replica::<'_, I>::insert_entry$": m_insert_entry,
            r" as Future>::poll$": m_poll,
            r"^<iroh_blobs::Hash as PartialEq>::eq$": lambda ex, v: [("hash_empty", "(b2v true)"), ("(not hash_empty)", "(b2v false)")],
            r" as FromResidual<.*>>::from_residual$": lambda ex, v: "(C_Err (conv %s))" % (split_sexpr_args(v[0])[0] if v[0].startswith("(C_Err ") else v[0]),
            r"^store::fs::|StoreInstance|ranger::Store<": m_other_store,
        })

        class LExec(PMExec):
            def call(self, callee, vals, env=None):
                self._cur = callee
                return super().call(callee, vals, env)

            def rvalue(self, env, rv):
                m = re.match(r"^Eq\((copy|move) (_\d+), const 0_u64\)$", rv.strip())
                if m and env.get(m.group(2)) == "LEN":
                    return "(b2v len_zero)"
                return super().rvalue(env, rv)
        ex = LExec(bodies, smt, models=models, enums={"Poll": ["Ready", "Pending"], "InsertOrigin": ["Local", "Sync"], "InsertError": [v for v in re.findall(r"^\s{4}(\w+)", re.search(r"pub enum InsertError \{(.*?)\n\}", _src("src/sync.rs"), re.S).group(1), re.M)]},
                   max_paths=2000, max_depth=8000)
        ex._cur = ""
        ex.discr_of["(deref CORO)"] = 0
        heap0 = {("CORO", up["self"]): "SELF", ("CORO", up["author"]): "(ref AUTHOR)"}
        if which == "insert":
            heap0.update({("CORO", up["key"]): "KEY", ("CORO", up["hash"]): "HASH", ("CORO", up["len"]): "LEN"})
        else:
            heap0.update({("CORO", up["prefix"]): "KEY"})
        res = []
        try:
            ex._walk(body, "bb0", {"__heap": heap0, "_1": "(C_pin CORO)", "_2": "CX"}, [], [], res, 0)
        except (Inconclusive, ValueError, AssertionError, KeyError, IndexError, RecursionError) as e:
            problems.append(("Replica::%s can be followed" % which, "inconclusive", "%r" % (e,)))
            continue
        funcs |= ex.inlined
        for pc, ret, calls, env in res:
            nq += 1
            v, _ = solve(smt.script("(and true %s)" % " ".join(pc)))
            if v == "unsat":
                continue
            ncases += 1
            flat = " ".join(pc)
            log = env.get("__log", ())
            ins = [l for l in log if l[0] == "insert_entry"]
            tag = "%s path=%s" % (which, pc[:5])
            if [l for l in log if l[0] == "store"]:
                problems.append(("the local write paths do not look at the store themselves: what the replica holds is put's business (order independence)", "sat", tag + " %s" % [l[1] for l in log if l[0] == "store"][:2]))
                continue
            refuse = "(not open)" in flat or "(not has_secret)" in flat
            if which == "insert":
                neg = flat.replace("(not len_zero)", "").replace("(not hash_empty)", "")
                refuse = refuse or "len_zero" in neg or "hash_empty" in neg
            if refuse:
                if ins or not ret.startswith("(CE_Poll_Ready (C_Err"):
                    problems.append(("a closed or read-only replica (and, for insert, an entry that would be a deletion marker) produces an error and no entry", "sat", tag + " ret=%s" % ret[:60]))
                continue
            ident = "(mk_id (ns_of SELF) (author_id AUTHOR) KEY)"
            ent = "(mk_entry %s (rec_now HASH LEN))" % ident if which == "insert" else "(entry_empty %s)" % ident
            want = ("insert_entry", "SELF", "(signed %s SECRET AUTHOR)" % ent, "CE_InsertOrigin_Local")
            if list(ins) != [want]:
                problems.append(("exactly one entry is handed to insert_entry — %s, signed with the replica's secret and the author, origin Local — whatever the replica holds at that moment" % ("the new record at (namespace, author, key)" if which == "insert" else "the deletion marker at (namespace, author, prefix)"),
                                 "sat", tag + " handed over=%s" % [(l[2][:90], l[3]) for l in ins]))
                continue
            if ret != "(CE_Poll_Ready INSRES)":
                problems.append(("what insert_entry answers is returned unchanged", "sat", tag + " ret=%s" % ret[:60]))
    problems.sort(key=lambda p: p[1] == "inconclusive")
    return dict(name=name, property="C02", verdict=_verdict(problems), detail="feasible paths=%d; problems: %s" % (ncases, problems[:4] or "none"),
                functions=sorted(funcs) + ["Replica::insert_entry (its own query insert_entry_glue), Entry::sign, Record::new_current (symbolic)"], queries=nq, cases=ncases, witness="d1,c02local",
                check_message=(problems[0][0] if problems else "insert / delete_prefix hand exactly their entry to insert_entry"))


QUERIES_C02 = [q_c02_remove_prefix]
QUERIES_LOCAL = [q_local_writes]
