"""E3 queries for C05 over the REAL `QueryIterator::next` (src/store/fs/query.rs), the range helpers of
src/store/fs/ranges.rs (`next_filtered`, `next_filter_map`, `next_try_filter_map` and their closures) and
`LatestPerKeySelector::push` (src/store/util.rs), all executed from their own MIR (Exec2: callees and
closures inlined, `&mut self` state followed through the path-local heap).  redb is a model: the
range of the query is a window over K symbolic rows (records rows, or by-key index rows each with a
symbolic `present` flag = its record still exists: stale index rows).  `next()` is driven until it returns
None; every path's output sequence is compared by z3+cvc5 with the specification of the query.
"""
import os as _os
import re

from mirsmt import Smt, solve, mk_deref, mk_v2b, split_sexpr_args
from exec2 import Exec2, is_addr

REPO = _os.environ.get("VERIF_REPO_SRC", "/repo")
THOROUGH = _os.environ.get("VERIF_E3_TIER", "quick") == "thorough"


def _find(bodies, pattern, sig=None):
    hits = []
    for name, bs in bodies.items():
        if re.search(pattern, name):
            for b in bs:
                if sig is None or re.search(sig, b.args + " -> " + b.ret):
                    hits.append(b)
    return hits


def _src(path):
    return open(_os.path.join(REPO, path)).read()


def _enum_variants(text, name):
    m = re.search(r"enum %s\s*\{(.*?)\n\}" % name, text, re.S)
    if not m:
        return None
    body = re.sub(r"//[^\n]*", "", m.group(1))
    body = re.sub(r"#\[[^\]]*\]", "", body)
    out, depth, cur = [], 0, ""
    for ch in body:
        if ch in "{(":
            depth += 1
        elif ch in "})":
            depth -= 1
        if ch == "," and depth == 0:
            out.append(cur)
            cur = ""
        else:
            cur += ch
    out.append(cur)
    res = []
    for v in out:
        mm = re.match(r"\s*(\w+)", v)
        if mm:
            fields = re.findall(r"(\w+)\s*:(?!:)", v[mm.end():])
            res.append((mm.group(1), fields))
    return res


def _struct_fields(text, name):
    m = re.search(r"struct %s\s*\{(.*?)\n\}" % name, text, re.S)
    if not m:
        return None
    body = re.sub(r"//[^\n]*", "", m.group(1))
    return re.findall(r"^\s*(?:pub(?:\([^)]*\))? )?(\w+)\s*:", body, re.M)


def _compositions(n):
    if n == 0:
        return [[]]
    out = []
    for mask in range(1 << (n - 1)):
        g, cur = [0], 0
        for i in range(1, n):
            if mask >> (i - 1) & 1:
                cur += 1
            g.append(cur)
        out.append(g)
    return out


def _layout():
    q = _src("src/store/fs/query.rs")
    s = _src("src/store.rs")
    u = _src("src/store/util.rs")
    lay = dict(
        qr=_enum_variants(q, "QueryRange"), qi=_struct_fields(q, "QueryIterator"), query=_struct_fields(s, "Query"),
        sd=_enum_variants(s, "SortDirection"), sel=_enum_variants(u, "SelectorRes"))
    if any(v is None for v in lay.values()):
        return None
    return lay


def _deep(ex, env, t):
    for _ in range(8):
        if is_addr(t):
            t = ex.load(env, t, whole=False)
        elif t.startswith("(ref "):
            t = mk_deref(t)
        else:
            break
    return t


def _models(smt, K, kind, st):
    """kind: 'records' (rows of the records table) | 'bykey' (rows of the by-key index)"""
    for f, n in (("C_Ok", 1), ("C_Err", 1), ("C_Some", 1), ("C_None", 0), ("C_Continue", 1), ("C_Break", 1), ("C_kguard", 3), ("C_bkguard", 3), ("C_vguard", 5),
                 ("C_uguard", 0), ("C_tuple2", 2), ("C_tuple3", 3), ("C_tuple5", 5), ("C_entry", 2), ("discr", 1), ("C_sel", 1)):
        smt.fun(f, n)
    for i in range(K):
        for c in ("key_%d", "au_%d", "ts_%d", "nsig_%d", "asig_%d", "len_%d", "hash_%d"):
            smt.decls.append("(declare-const %s V)" % (c % i))
        smt.decls.append("(declare-const present_%d Bool)" % i)
    for c in ("NS", "EMPTYHASH", "SELF", "KF", "AF", "RANGE", "RTABLE", "LIM", "OFF", "INC", "UNIT"):
        smt.decls.append("(declare-const %s V)" % c)
    smt.decls.append("(declare-fun kmatch (V) Bool)")
    smt.decls.append("(declare-fun amatch (V) Bool)")

    def vrow(i):
        return "(C_vguard ts_%d nsig_%d asig_%d len_%d hash_%d)" % (i, i, i, i, i)

    def row(i):
        if kind == "records":
            return "(C_tuple2 (C_kguard NS au_%d key_%d) %s)" % (i, i, vrow(i))
        return "(C_tuple2 (C_bkguard NS key_%d au_%d) C_uguard)" % (i, i)

    def m_next(ex, v, env):
        lo, hi = env["__it"]
        if lo >= hi:
            return "C_None"
        env["__it"] = (lo + 1, hi)
        return "(C_Some (C_Ok %s))" % row(lo)
    m_next.wants_env = True

    def m_next_back(ex, v, env):
        lo, hi = env["__it"]
        if lo >= hi:
            return "C_None"
        env["__it"] = (lo, hi - 1)
        return "(C_Some (C_Ok %s))" % row(hi - 1)
    m_next_back.wants_env = True

    def m_value(ex, v, env):
        g = _deep(ex, env, v[0])
        if g.startswith("(C_kguard "):
            a, b, c = split_sexpr_args(g)
            return "(C_tuple3 (ref %s) (ref %s) %s)" % (a, b, c)
        if g.startswith("(C_bkguard "):
            a, b, c = split_sexpr_args(g)
            return "(C_tuple3 (ref %s) %s (ref %s))" % (a, b, c)
        if g.startswith("(C_vguard "):
            ts, nsig, asig, ln, h = split_sexpr_args(g)
            return "(C_tuple5 %s (ref %s) (ref %s) %s (ref %s))" % (ts, nsig, asig, ln, h)
        if g == "C_uguard":
            return "UNIT"
        raise ValueError("AccessGuard::value on %s" % g[:60])
    m_value.wants_env = True

    def row_index(t, what):
        idx = set(re.findall(r"\b%s_(\d+)\b" % what, t))
        if len(idx) != 1:
            raise ValueError("cannot identify the row of %s in %s" % (what, t[:80]))
        return int(idx.pop())

    def m_table_get(ex, v, env):
        rid = _deep(ex, env, v[1])
        if not rid.startswith("(C_tuple3 "):
            raise ValueError("records get with an unexpected id %s" % rid[:80])
        a, b, c = split_sexpr_args(rid)
        if _deep(ex, env, a) != "NS":
            raise ValueError("records get outside the namespace")
        i, j = row_index(b, "au"), row_index(c, "key")
        if i != j:
            raise ValueError("records get with author and key of different index rows")
        st["gets"] = st.get("gets", 0) + 1
        return [("present_%d" % i, "(C_Ok (C_Some %s))" % vrow(i)), ("(not present_%d)" % i, "(C_Ok C_None)")]
    m_table_get.wants_env = True

    def m_transpose(ex, v):
        x = v[0]
        if x == "C_None":
            return "(C_Ok C_None)"
        if x.startswith("(C_Some (C_Ok "):
            return "(C_Ok (C_Some %s))" % split_sexpr_args(split_sexpr_args(x)[0])[0]
        if x.startswith("(C_Some (C_Err "):
            return split_sexpr_args(x)[0]
        if x == "(C_Ok C_None)":
            return "C_None"
        if x.startswith("(C_Ok (C_Some "):
            return "(C_Some (C_Ok %s))" % split_sexpr_args(split_sexpr_args(x)[0])[0]
        if x.startswith("(C_Err "):
            return "(C_Some %s)" % x
        raise ValueError("transpose of %s" % x[:60])

    def m_branch(ex, v):
        x = v[0]
        if x.startswith("(C_Ok ") or x.startswith("(C_Some "):
            return "(C_Continue %s)" % split_sexpr_args(x)[0]
        if x == "C_None":
            return "(C_Break C_None)"
        if x.startswith("(C_Err "):
            return "(C_Break %s)" % x
        raise ValueError("branch of %s" % x[:60])

    def closure_call(ex, f, args, env):
        """run a pure closure from its MIR; exactly one path"""
        tgt = ex.resolve_call("<F as FnOnce<()>>::call_once", [f, "(C_tuple%d %s)" % (len(args), " ".join(args)) if args else "UNIT"], env)
        if tgt is None:
            raise ValueError("closure value not recognised: %s" % f[:80])
        body, a2 = tgt
        sub_env = {k: x for k, x in env.items() if k.startswith("__")}
        for i, x in enumerate(a2):
            sub_env["_%d" % (i + 1)] = x
        res = []
        ex.inlined.add(body.name)
        ex._walk(body, "bb0", sub_env, [], [], res, 1)
        if len(res) != 1 or res[0][0]:
            raise ValueError("closure %s: expected one unconditional path, got %d" % (body.name, len(res)))
        return res[0][1]

    def m_then(ex, v, env):
        b = mk_v2b(v[0])
        val = closure_call(ex, v[1], [], env)
        if b == "true":
            return "(C_Some %s)" % val
        if b == "false":
            return "C_None"
        return [(b, "(C_Some %s)" % val), ("(not %s)" % b, "C_None")]
    m_then.wants_env = True

    def m_result_map(ex, v, env):
        if v[0].startswith("(C_Ok "):
            return "(C_Ok %s)" % closure_call(ex, v[1], [split_sexpr_args(v[0])[0]], env)
        if v[0].startswith("(C_Err "):
            return v[0]
        raise ValueError("Result::map of %s" % v[0][:60])
    m_result_map.wants_env = True

    def m_and_then(ex, v, env):
        if v[0].startswith("(C_Ok "):
            return closure_call(ex, v[1], [split_sexpr_args(v[0])[0]], env)
        if v[0].startswith("(C_Err "):
            return v[0]
        raise ValueError("Result::and_then of %s" % v[0][:60])
    m_and_then.wants_env = True

    def m_opt_map_ok(ex, v):
        if v[0] == "C_None":
            return "C_None"
        if v[0].startswith("(C_Some ") and re.search(r"Result::<.*>::Ok$", v[1].replace("k_", "")) or "Ok" in v[1]:
            return "(C_Some (C_Ok %s))" % split_sexpr_args(v[0])[0]
        raise ValueError("Option::map with %s" % v[1][:60])

    def m_take(ex, v, env):
        a = v[0]
        old = ex.load(env, a, whole=False) if is_addr(a) else mk_deref(a)
        ex.store(env, a, "C_None")
        return old
    m_take.wants_env = True

    def entry_parts(ex, env, t):
        e = _deep(ex, env, t)
        if not e.startswith("(C_entry "):
            raise ValueError("not an entry: %s" % e[:60])
        return split_sexpr_args(e)

    def m_entry_key(ex, v, env):
        k, _v = entry_parts(ex, env, v[0])
        return split_sexpr_args(k)[2]
    m_entry_key.wants_env = True

    def m_entry_ts(ex, v, env):
        _k, val = entry_parts(ex, env, v[0])
        return split_sexpr_args(val)[0]
    m_entry_ts.wants_env = True

    def m_rec_is_empty(ex, v, env):
        _k, val = entry_parts(ex, env, v[0])
        return "(b2v (= %s EMPTYHASH))" % _deep(ex, env, split_sexpr_args(val)[4])
    m_rec_is_empty.wants_env = True

    def m_slice_eq(ex, v, env):
        return "(b2v (= %s %s))" % (_deep(ex, env, v[0]), _deep(ex, env, v[1]))
    m_slice_eq.wants_env = True

    def m_kmatch(ex, v, env):
        return "(b2v (kmatch %s))" % _deep(ex, env, v[1])
    m_kmatch.wants_env = True

    def m_amatch(ex, v, env):
        a = _deep(ex, env, v[1])
        m = re.match(r"^\(aid (.+)\)$", a)
        return "(b2v (amatch %s))" % (_deep(ex, env, m.group(1)) if m else a)
    m_amatch.wants_env = True
    smt.fun("aid", 1)

    def m_is_none(ex, v, env):
        x = _deep(ex, env, v[0])
        if x == "C_None":
            return "(b2v true)"
        if x.startswith("(C_Some "):
            return "(b2v false)"
        raise ValueError("Option::is_none/is_some on a non-constructor value %s" % x[:60])
    m_is_none.wants_env = True

    def m_is_some(ex, v, env):
        return "(b2v true)" if m_is_none(ex, v, env) == "(b2v false)" else "(b2v false)"
    m_is_some.wants_env = True

    def m_entry_author(ex, v, env):
        k, _v = entry_parts(ex, env, v[0])
        return "(aid %s)" % split_sexpr_args(k)[1]
    m_entry_author.wants_env = True

    models = {
        r"^(std::option::)?Option::<.*>::is_none$": m_is_none,
        r"^(std::option::)?Option::<.*>::is_some$": m_is_some,
        r"^sync::(SignedEntry|Entry)::author$": m_entry_author,
        r"^<redb::Range<.*> as Iterator>::next$": m_next,
        r"^<redb::Range<.*> as DoubleEndedIterator>::next_back$": m_next_back,
        r"^AccessGuard::<.*>::value$": m_value,
        r"^ReadOnlyTable::<.*>::get::<": m_table_get,
        r"^(std::option::)?Option::<Result<.*>>::transpose$|^(std::result::)?Result::<(std::option::)?Option<.*>::transpose$": m_transpose,
        r" as Try>::branch$": m_branch,
        r" as FromResidual<.*Option<.*Infallible>>>::from_residual$": lambda ex, v: "C_None",
        r"^core::bool::<impl bool>::then::<": m_then,
        r"^Result::<AccessGuard<.*>::map::<": m_result_map,
        r"^Result::<.*>::map_err::<": lambda ex, v: v[0],
        r"^Result::<Result<.*>::and_then::<": m_and_then,
        r"^(std::option::)?Option::<sync::SignedEntry>::map::<Result<": m_opt_map_ok,
        r"^(std::option::)?Option::<sync::SignedEntry>::take$": m_take,
        r"^into_entry$": lambda ex, v: "(C_entry %s %s)" % (v[0], v[1]),
        r"^sync::(SignedEntry|Entry)::key$": m_entry_key,
        r"^sync::(SignedEntry|Entry)::timestamp$": m_entry_ts,
        r"^<sync::SignedEntry as Deref>::deref$|^<sync::Entry as Deref>::deref$": lambda ex, v: v[0],
        r"^sync::Record::is_empty$": m_rec_is_empty,
        r"^<&\[u8\] as PartialEq>::eq$|^<&\[u8; 32\] as PartialEq>::eq$": m_slice_eq,
        r"^iroh_blobs::Hash::as_bytes$": lambda ex, v: "(ref EMPTYHASH)",
        r"^KeyFilter::matches$": m_kmatch,
        r"^AuthorFilter::matches$": m_amatch,
        r"^<keys::AuthorId as From<&\[u8; 32\]>>::from$": lambda ex, v: "(aid %s)" % v[0],
    }
    # std combinators the query does not model itself (e.g. bool::then with a closure) come from the shared models
    from stdmodels import std_models
    for _pat, _fn in std_models().items():
        if not any(_pat == p for p in models):
            models.setdefault(_pat, _fn)
    return models


INLINE = [
    (r"^RecordsRange::<'_>::next_filtered::<", r"^ranges::<impl at [^>]*>::next_filtered$", r"RecordsRange<"),
    (r"^RecordsByKeyRange::next_filtered::<", r"^ranges::<impl at [^>]*>::next_filtered$", r"RecordsByKeyRange"),
    (r"RangeExt<.*>>::next_filter_map::<", r"^ranges::<impl at [^>]*>::next_filter_map$", None),
    (r"RangeExt<.*>>::next_try_filter_map::<", r"^RangeExt::next_try_filter_map$", None),
    (r"^LatestPerKeySelector::push$", r"^store::util::<impl at [^>]*>::push$", r"LatestPerKeySelector"),
    (r"^Query::limit$", r"^store::<impl at [^>]*>::limit$", r"^_1: &Query -> "),
    (r"^Query::offset$", r"^store::<impl at [^>]*>::offset$", r"^_1: &Query -> "),
    (r"^value_is_empty$", r"^value_is_empty$", None),
]


def _entry_row(t):
    """index of the row an output entry was built from, or None when its parts do not belong to one row"""
    if not t.startswith("(C_Some (C_Ok (C_entry "):
        return None
    idx = set(re.findall(r"\b(?:key|au|ts|nsig|asig|len|hash)_(\d+)\b", t))
    names = set(re.findall(r"\b(key|au|ts|nsig|asig|len|hash)_\d+\b", t))
    if len(idx) != 1 or names != {"key", "au", "ts", "nsig", "asig", "len", "hash"}:
        return None
    e = split_sexpr_args(split_sexpr_args(split_sexpr_args(t)[0])[0])
    i = int(idx.pop())
    want_k = "(C_tuple3 (ref NS) (ref au_%d) key_%d)" % (i, i)
    want_v = "(C_tuple5 ts_%d (ref nsig_%d) (ref asig_%d) len_%d (ref hash_%d))" % (i, i, i, i, i)
    if e[0] != want_k or e[1] != want_v:
        return None
    return i


def _drive(ex, body, heap0, K, pc0, limit_calls):
    """call next() until it returns None; -> list of (pc, [row indices], problem or None)"""
    out = []

    def rec(heap, it, pc, outs, n):
        if n > limit_calls:
            out.append((pc, outs, "next() did not finish within %d calls" % limit_calls))
            return
        res = []
        env0 = {"__heap": dict(heap), "__it": it, "_1": "SELF"}
        ex._walk(body, "bb0", env0, list(pc), [], res, 0)
        for pc2, ret, calls, env in res:
            if ret == "C_None":
                out.append((pc2, outs, None))
                continue
            i = _entry_row(ret)
            if i is None:
                out.append((pc2, outs, "next() returned something that is not the entry of one stored row: %s" % ret[:100]))
                continue
            rec(env.get("__heap", {}), env["__it"], pc2, outs + [i], n + 1)
            if len(out) > 20000:
                raise ValueError("too many paths")

    rec(heap0, (0, K), pc0, [], 1)
    return out


def _count_terms(terms):
    return "(+ 0 0 %s)" % " ".join("(ite %s 1 0)" % t for t in terms) if terms else "0"


def q_c05_query_next(bodies):
    name = "c05_query_next"
    lay = _layout()
    hits = _find(bodies, r"^query::<impl at [^>]*>::next$", r"QueryIterator")
    if lay is None or len(hits) != 1:
        return dict(name=name, property="C05", verdict="inconclusive", detail="QueryIterator::next / type layouts not found", functions=[])
    body = hits[0]
    qr = dict((v, f) for v, f in lay["qr"])
    need = ("AuthorKey" in qr and "KeyAuthor" in qr and qr["AuthorKey"] == ["range", "key_filter"] and qr["KeyAuthor"] == ["range", "author_filter", "selector"]
            and lay["qi"] == ["range", "query", "offset", "count"] and [v for v, _ in lay["sd"]] == ["Asc", "Desc"]
            and all(f in lay["query"] for f in ("limit", "offset", "include_empty", "sort_direction")))
    if not need:
        return dict(name=name, property="C05", verdict="inconclusive", detail="type layouts changed: %s" % lay, functions=[body.name])
    qf = lay["query"]
    enums = {"QueryRange": [v for v, _ in lay["qr"]], "SortDirection": ["Asc", "Desc"], "SelectorRes": [v for v, _ in lay["sel"]]}
    KMAX = 3 if THOROUGH else 2
    problems, nq, ncases, npaths, funcs = [], 0, 0, 0, set()
    for K in range(0, KMAX + 1):
        for mode in ("flat_records", "flat_bykey", "latest"):
            groupings = _compositions(K) if mode == "latest" else [list(range(K))]
            for groups in groupings:
                for direction in ("Asc", "Desc"):
                    for has_limit in (False, True):
                        smt = Smt()
                        kind = "records" if mode == "flat_records" else "bykey"
                        st = {}
                        models = _models(smt, K, kind, st)
                        ex = Exec2(bodies, smt, models=models, inline=INLINE, enums=enums, int_ops=True, max_paths=40000)
                        for v in enums["QueryRange"] + []:
                            pass
                        smt.fun("CE_SortDirection_Asc", 0)
                        smt.fun("CE_SortDirection_Desc", 0)
                        smt.fun("CE_QueryRange_AuthorKey", 2)
                        smt.fun("CE_QueryRange_KeyAuthor", 3)
                        if mode == "flat_records":
                            rng = "(CE_QueryRange_AuthorKey RANGE KF)"
                        elif mode == "flat_bykey":
                            rng = "(CE_QueryRange_KeyAuthor (C_tuple2 RTABLE RANGE) AF C_None)"
                        else:
                            rng = "(CE_QueryRange_KeyAuthor (C_tuple2 RTABLE RANGE) AF (C_Some (C_sel C_None)))"
                        QA = "(addr SELF %s)" % ex.ksym("1")
                        heap0 = {("SELF", "0"): rng, ("SELF", "2"): ex._konst("0_u64"), ("SELF", "3"): ex._konst("0_u64"),
                                 (QA, str(qf.index("limit"))): "(C_Some LIM)" if has_limit else "C_None",
                                 (QA, str(qf.index("offset"))): "OFF", (QA, str(qf.index("include_empty"))): "INC",
                                 (QA, str(qf.index("sort_direction"))): "CE_SortDirection_%s" % direction}
                        # context: keys of one group are equal, keys of different groups differ (index order); integers are u64
                        ctx = ["(>= (toint OFF) 0)", "(>= (toint LIM) 0)"] + ["(>= (toint ts_%d) 0)" % i for i in range(K)]
                        if mode == "latest":
                            for i in range(K):
                                for j in range(i + 1, K):
                                    ctx.append("(= key_%d key_%d)" % (i, j) if groups[i] == groups[j] else "(not (= key_%d key_%d))" % (i, j))
                        tag = "K=%d %s %s limit=%s groups=%s" % (K, mode, direction, "some" if has_limit else "none", groups if mode == "latest" else "-")
                        try:
                            paths = _drive(ex, body, heap0, K, [], K + 2)
                        except (ValueError, AssertionError, KeyError, IndexError, RecursionError) as e:
                            return dict(name=name, property="C05", verdict="inconclusive", detail="%s: %r" % (tag, e), functions=[body.name])
                        funcs |= ex.inlined
                        ncases += 1
                        inc = "(v2b INC)"
                        order = list(range(K)) if direction == "Asc" else list(reversed(range(K)))
                        empty = lambda i: "(= hash_%d EMPTYHASH)" % i  # noqa
                        for pc, outs, prob in paths:
                            npaths += 1
                            pcs = "(and true %s %s)" % (" ".join(pc), " ".join(ctx))
                            if prob:
                                nq += 1
                                v, _ = solve(smt.script(pcs))
                                if v != "unsat":
                                    problems.append((prob, v, tag))
                                continue
                            if len(set(outs)) != len(outs):
                                nq += 1
                                v, _ = solve(smt.script(pcs))
                                if v != "unsat":
                                    problems.append(("no stored entry is returned twice", v, tag + " outputs=%s" % outs))
                                continue
                            if mode != "latest":
                                if mode == "flat_records":
                                    passes = ["(and (kmatch key_%d) (or %s (not %s)))" % (i, inc, empty(i)) for i in range(K)]
                                else:
                                    passes = ["(and present_%d (amatch au_%d) (or %s (not %s)))" % (i, i, inc, empty(i)) for i in range(K)]
                                conj = []
                                for n_, i in enumerate(order):
                                    rank = _count_terms([passes[j] for j in order[:n_]])
                                    lim_ok = "(< (- %s (toint OFF)) (toint LIM))" % rank if has_limit else "true"
                                    exp = "(and %s (>= %s (toint OFF)) %s)" % (passes[i], rank, lim_ok)
                                    if i in outs:
                                        conj.append(exp)
                                        conj.append("(= (- %s (toint OFF)) %d)" % (rank, outs.index(i)))
                                    else:
                                        conj.append("(not %s)" % exp)
                                spec = "(and true %s)" % " ".join(conj)
                            else:
                                ng = len(set(groups))
                                gorder = list(range(ng)) if direction == "Asc" else list(reversed(range(ng)))
                                members = {g: [i for i in range(K) if groups[i] == g] for g in range(ng)}
                                # every choice of one winner per group; a group may also have no candidate at all
                                import itertools
                                alts = []
                                for choice in itertools.product(*[[None] + members[g] for g in range(ng)]):
                                    conj = []
                                    gpass = {}
                                    for g in range(ng):
                                        w = choice[g]
                                        if w is None:
                                            conj.append("(and true %s)" % " ".join(("(not (and present_%d (amatch au_%d)))" % (i, i)) if _os.environ.get("VERIF_C05_FILTER_FIRST") else ("(not present_%d)" % i) for i in members[g]))
                                            gpass[g] = "false"
                                        else:
                                            cand = (lambda i: "(and present_%d (amatch au_%d))" % (i, i)) if _os.environ.get("VERIF_C05_FILTER_FIRST") else (lambda i: "present_%d" % i)  # noqa (development: the code's pre-fix behaviour)
                                            conj.append(cand(w))
                                            for j in members[g]:
                                                if j != w:
                                                    conj.append("(or (not %s) (>= (toint ts_%d) (toint ts_%d)))" % (cand(j), w, j))
                                            gpass[g] = "(and (amatch au_%d) (or %s (not %s)))" % (w, inc, empty(w))
                                    for n_, g in enumerate(gorder):
                                        rank = _count_terms([gpass[h] for h in gorder[:n_]])
                                        lim_ok = "(< (- %s (toint OFF)) (toint LIM))" % rank if has_limit else "true"
                                        exp = "(and %s (>= %s (toint OFF)) %s)" % (gpass[g], rank, lim_ok)
                                        w = choice[g]
                                        got = [i for i in outs if groups[i] == g]
                                        if len(got) > 1:
                                            conj.append("false")
                                        elif len(got) == 1:
                                            if w != got[0]:
                                                conj.append("false")
                                            conj.append(exp)
                                            conj.append("(= (- %s (toint OFF)) %d)" % (rank, outs.index(got[0])))
                                        else:
                                            conj.append("(not %s)" % exp)
                                    if "false" not in conj:
                                        alts.append("(and true %s)" % " ".join(conj))
                                spec = "(or false %s)" % " ".join(alts)
                            nq += 1
                            v, _ = solve(smt.script("(and %s (not %s))" % (pcs, spec)))
                            if v != "unsat":
                                msg = ("a latest-per-key query returns, per key and in key order, the entry with the greatest timestamp among ALL authors (if it passes the author filter and the deleted-entry flag), after offset and limit"
                                       if mode == "latest" else
                                       "a flat query returns exactly the stored entries that pass its filters and the deleted-entry flag, in index order, after offset and limit")
                                problems.append((msg, v, tag + " outputs=%s" % outs))
                        if len(problems) > 6:
                            break
    verdict = "holds"
    if any(p[1] == "inconclusive" for p in problems):
        verdict = "inconclusive"
    if any(p[1] != "inconclusive" for p in problems):
        verdict = "violated"
    problems.sort(key=lambda p: p[1] == "inconclusive")  # a confirmed problem names the check
    return dict(name=name, property="C05", verdict=verdict,
                detail="K=0..%d rows, both directions, with/without limit, every key grouping; configurations=%d paths=%d; problems: %s" % (KMAX, ncases, npaths, problems[:4] or "none"),
                functions=sorted(funcs) + ["redb Range::{next,next_back}, AccessGuard::value, ReadOnlyTable::get (modelled: window over K symbolic rows; stale index rows symbolic)"],
                queries=nq, cases=npaths, witness="c05",
                check_message=(problems[0][0] if problems else "queries return exactly what they describe"))


QUERIES_C05 = [q_c05_query_next]
