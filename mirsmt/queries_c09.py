"""E3 queries for C09 over the REAL length-prefixed framing of src/net/codec.rs (`SyncCodec::decode`,
`SyncCodec::encode`), every path (Exec2), the buffer modelled by its length (an SMT integer) and the
regions read / written / consumed (integer intervals); postcard answers symbolically.

decode (buffer of any length L, any content; frame length F = the big-endian u32 in bytes 0..4):
  L < 4                -> Ok(None), nothing consumed
  F > MAX_MESSAGE_SIZE -> Err
  L < 4 + F            -> Ok(None), nothing consumed
  otherwise            -> exactly bytes [4, 4+F) are handed to the message decoder; if it accepts,
                          Ok(Some(message)) and exactly 4+F bytes are consumed from the front (whatever
                          follows the frame stays in the buffer); if it refuses, Err.
encode (destination buffer already holding L0 >= 0 bytes, message of encoded size M <= MAX):
  the 4-byte header is appended at [L0, L0+4), the body is written to [L0+4, L0+4+M), the buffer ends at
  L0+4+M and the bytes below L0 are not touched — i.e. frames can be encoded back to back.
"""
import re

from mirsmt import Smt, solve, mk_deref, mk_v2b, split_sexpr_args
from exec2 import Exec2, is_addr
from queries_c05 import _find, _src


def _max_size():
    m = re.search(r"const MAX_MESSAGE_SIZE: usize = ([0-9 *+()]+);", _src("src/net/codec.rs"))
    return eval(m.group(1)) if m else None  # digits and * + ( ) only


def _verdict(problems):
    if any(p[1] != "inconclusive" for p in problems):
        return "violated"
    return "inconclusive" if problems else "holds"


class _Buf:
    """integer bookkeeping shared by the models of one run"""

    def __init__(self, smt):
        self.smt = smt
        self.n = 0

    def val(self, intterm):
        """a V constant whose integer value is `intterm`"""
        self.n += 1
        c = "iv_%d" % self.n
        self.smt.decls.append("(declare-const %s V)" % c)
        self.smt.asserts.append("(= (toint %s) %s)" % (c, intterm))
        return c


def _int_rvalue_patch(ex, buf, flags=False):
    """AddWithOverflow / SubWithOverflow on symbolic usize values: the exact integer result; with `flags` the overflow flag is the
    real condition (sum >= 2^64, minuend < subtrahend), which the assertion that follows in the MIR then has to exclude"""
    orig = ex.rvalue

    def rvalue(env, rv):
        m = re.match(r"^(Add|Sub)WithOverflow\((.+)\)$", rv.strip())
        if m:
            a, b = ex.split_args(m.group(2))
            va, vb = ex.operand(env, a), ex.operand(env, b)
            if m.group(1) == "Add":
                s = "(+ (toint %s) (toint %s))" % (va, vb)
                return "(C_tuple2 %s (b2v %s))" % (buf.val(s), ("(>= %s 18446744073709551616)" % s) if flags else "false")
            if not flags:
                return orig(env, rv)
            return "(C_tuple2 %s (b2v (< (toint %s) (toint %s))))" % (buf.val("(- (toint %s) (toint %s))" % (va, vb)), va, vb)
        return orig(env, rv)
    ex.rvalue = rvalue


def q_c09_frame_decode(bodies):
    name = "c09_frame_decode"
    hits = _find(bodies, r"^net::codec::<impl at [^>]*>::decode$", r"SyncCodec")
    mx = _max_size()
    if len(hits) != 1 or mx is None:
        return dict(name=name, property="C09", verdict="inconclusive", detail="decode / MAX_MESSAGE_SIZE not found (%d)" % len(hits), functions=[])
    body = hits[0]
    smt = Smt()
    for f, n in (("C_Ok", 1), ("C_Err", 1), ("C_Some", 1), ("C_None", 0), ("C_Continue", 1), ("C_Break", 1), ("C_tuple2", 2), ("C_sub", 3), ("be32", 1), ("discr", 1), ("conv", 1)):
        smt.fun(f, n)
    for c in ("CODEC", "BUF", "ALL", "MSG", "PERR", "ERR", "UNIT", "INF"):
        smt.decls.append("(declare-const %s V)" % c)
    smt.decls.append("(declare-const L Int)")
    smt.decls.append("(declare-const decoded Bool)")
    buf = _Buf(smt)
    st = {"consumed": []}

    def m_len(ex, v, env):
        return buf.val("(- L %s)" % env.get("__gone", "0"))
    m_len.wants_env = True

    def rng(t):
        """(lo, hi) integer terms of a Range / RangeTo / RangeFrom aggregate term"""
        a = split_sexpr_args(t)
        if "RangeTo" in t.split(" ")[0]:
            return "0", "(toint %s)" % a[0]
        if "RangeFrom" in t.split(" ")[0]:
            return "(toint %s)" % a[0], None
        return "(toint %s)" % a[0], "(toint %s)" % a[1]

    def m_index(ex, v, env):
        lo, hi = rng(v[1])
        base = v[0]
        env["__reads"] = env.get("__reads", ()) + ((lo, hi),)
        return "(C_sub %s %s %s)" % (base, buf.val(lo), buf.val(hi if hi else "L"))
    m_index.wants_env = True

    def m_from_bytes(ex, v, env):
        env["__decoded_from"] = env.get("__decoded_from", ()) + (v[0],)
        return [("decoded", "(C_Ok MSG)"), ("(not decoded)", "(C_Err PERR)")]
    m_from_bytes.wants_env = True

    def m_advance(ex, v, env):
        env["__consumed"] = env.get("__consumed", ()) + (("advance", "(toint %s)" % v[1]),)
        env["__gone"] = "(+ %s (toint %s))" % (env.get("__gone", "0"), v[1])
        return "UNIT"
    m_advance.wants_env = True

    def m_other_consume(kind):
        def f(ex, v, env):
            env["__consumed"] = env.get("__consumed", ()) + ((kind, None),)
            return "UNIT"
        f.wants_env = True
        return f

    def m_branch(ex, v):
        x = v[0]
        if x.startswith("(C_Ok "):
            return "(C_Continue %s)" % split_sexpr_args(x)[0]
        if x.startswith("(C_Err "):
            return "(C_Break %s)" % x
        raise ValueError("branch of %s" % x[:60])

    models = {
        r"^BytesMut::len$": m_len,
        r"^<BytesMut as Deref>::deref$": lambda ex, v: "ALL",
        r"^<\[u8\] as Index<.*>>::index$": m_index,
        r"as TryInto<\[u8; 4\]>>::try_into$": lambda ex, v: "(C_Ok %s)" % v[0],
        r"^Result::<\[u8; 4\], TryFromSliceError>::unwrap$": lambda ex, v: split_sexpr_args(v[0])[0],
        r"^core::num::<impl u32>::from_be_bytes$": lambda ex, v: "(be32 %s)" % v[0],
        r"anyhow::__private::not(::<.*>)?$": lambda ex, v: "(b2v (not %s))" % mk_v2b(v[0]),
        r"^(postcard::)?from_bytes::<": m_from_bytes,
        r"^<BytesMut as Buf>::advance$": m_advance,
        r"^BytesMut::(split|split_to|split_off|truncate|clear|freeze|unsplit)$|^<BytesMut as Buf>::(copy_to_bytes|get_\w+)$": m_other_consume("other"),
        r"^BytesMut::reserve$": lambda ex, v: "UNIT",
        r" as Try>::branch$": m_branch,
        r" as FromResidual<.*>>::from_residual$": lambda ex, v: "(C_Err (conv %s))" % v[0],
        r"new_display::<|Arguments::<'_>::new::<|^format$|^must_use::<|anyhow::error::<impl anyhow::Error>::msg::<": lambda ex, v: "ERR",
    }
    from stdmodels import AssertTracking

    class DecExec(AssertTracking, Exec2):
        pass
    ex = DecExec(bodies, smt, models=models, int_ops=True, max_paths=400)
    _int_rvalue_patch(ex, buf, flags=True)
    kmax = ex._konst("net__codec__MAX_MESSAGE_SIZE")
    smt.asserts.append("(= (toint %s) %d)" % (kmax, mx))
    smt.asserts.append("(>= L 0)")
    F = "(toint (be32 (C_sub ALL iv_1 iv_2)))"
    try:
        paths = ex.run(body, ["CODEC", "BUF"], feasibility=False)
    except (ValueError, AssertionError, KeyError, IndexError, RecursionError) as e:
        return dict(name=name, property="C09", verdict="inconclusive", detail="%r" % e, functions=[body.name])
    problems, nq, ncases = [], 0, 0
    # the frame length term: be32 of the first indexed slice; identify it from the path terms
    for pc, ret, calls, env in paths:
        reads = env.get("__reads", ())
        ftxt = None
        for c in calls:
            if re.search(r"from_be_bytes$", c[0]):
                ftxt = "(toint (be32 %s))" % c[1][0]
        rng_ctx = ["(>= %s 0)" % ftxt, "(< %s 4294967296)" % ftxt] if ftxt else []
        pcs = "(and true %s %s)" % (" ".join(pc), " ".join(rng_ctx))
        nq += 1
        v, _ = solve(smt.script(pcs))
        if v == "unsat":
            continue
        ncases += 1
        consumed = env.get("__consumed", ())
        tag = "path=%s" % [c[:60] for c in pc][:4]

        def implied(formula):
            nonlocal nq
            nq += 1
            v2, _ = solve(smt.script("(and %s (not %s))" % (pcs, formula)))
            return v2

        # no arithmetic assertion (overflow, underflow) and no index check can fail, whatever is buffered
        if ret == "PANIC" or env.get("__panic"):
            problems.append(("decode never panics, whatever bytes are buffered (no index out of range, no arithmetic overflow)", "sat", tag + " %s" % (env.get("__panic"),)))
            continue
        bad_assert = False
        for cond, msg_ in env.get("__asserts", ()):
            v = implied(cond)
            if v != "unsat":
                problems.append(("decode never panics, whatever bytes are buffered (no index out of range, no arithmetic overflow)", v, tag + " assertion: " + msg_))
                bad_assert = True
                break
        if bad_assert:
            continue

        if ret == "(C_Ok C_None)":
            if consumed:
                problems.append(("an incomplete frame consumes nothing", "sat", tag))
                continue
            need = "(< L 4)" if ftxt is None else "(or (< L 4) (< L (+ 4 %s)))" % ftxt
            v = implied(need)
            if v != "unsat":
                problems.append(("need-more-data is reported only when fewer than 4 + len bytes are buffered", v, tag))
                continue
            if ftxt is not None:
                # a complete length prefix that announces an oversized frame is an error AT ONCE: answering need-more-data would make
                # the reader buffer up to 4 GiB and wait for as long as the peer keeps the stream open (C10; round-8 seed r8_c10_a)
                v = implied("(<= %s %d)" % (ftxt, mx))
                if v != "unsat":
                    problems.append(("an oversized length prefix is rejected at once, never answered with need-more-data", v, tag))
            continue
        if ret.startswith("(C_Err"):
            if ftxt is None:
                problems.append(("an error needs a complete length prefix", "sat", tag))
                continue
            v = implied("(and (>= L 4) (or (> %s %d) (>= L (+ 4 %s))))" % (ftxt, mx, ftxt))
            if v != "unsat":
                problems.append(("errors are reported only for oversized or complete-but-invalid frames", v, tag))
            continue
        if ret == "(C_Ok (C_Some MSG))":
            dec = env.get("__decoded_from", ())
            if len(consumed) != 1 or consumed[0][0] != "advance":
                problems.append(("a decoded frame consumes exactly its 4 + len bytes from the front of the buffer; what follows the frame stays buffered", "sat", tag + " consumed=%s" % (consumed,)))
                continue
            if ftxt is None or len(dec) != 1 or not dec[0].startswith("(C_sub ALL "):
                problems.append(("a message comes out of exactly one decode of a slice of the buffer", "sat", tag))
                continue
            lo, hi = split_sexpr_args(dec[0])[1:]
            v = implied("(and (>= L (+ 4 %s)) (<= %s %d) (= (toint %s) 4) (= (toint %s) (+ 4 %s)) (= (toint (be32 %s)) %s))" % (
                ftxt, ftxt, mx, lo, hi, ftxt, re.search(r"\(be32 (.+)\)\)$", ftxt).group(1), ftxt))
            if v != "unsat":
                problems.append(("the message is decoded from exactly the bytes [4, 4 + len) of a complete, not oversized frame", v, tag))
                continue
            if len(consumed) != 1 or consumed[0][0] != "advance":
                problems.append(("a decoded frame consumes exactly its 4 + len bytes from the front of the buffer; what follows the frame stays buffered", "sat", tag + " consumed=%s" % (consumed,)))
                continue
            v = implied("(= %s (+ 4 %s))" % (consumed[0][1], ftxt))
            if v != "unsat":
                problems.append(("a decoded frame consumes exactly its 4 + len bytes from the front of the buffer; what follows the frame stays buffered", v, tag))
            continue
        problems.append(("decode answers need-more-data, an error, or one message", "sat", tag + " ret=%s" % ret[:60]))
    problems.sort(key=lambda p: p[1] == "inconclusive")  # a confirmed problem names the check
    return dict(name=name, property="C09", verdict=_verdict(problems), detail="feasible paths=%d; MAX_MESSAGE_SIZE=%d; problems: %s" % (ncases, mx, problems[:3] or "none"),
                functions=[body.name, "bytes::BytesMut::{len,advance}, slice indexing, postcard::from_bytes (modelled: integer lengths / symbolic verdict)"],
                queries=nq, cases=ncases, witness="c09frame",
                check_message=(problems[0][0] if problems else "frames are decoded exactly"))


def q_c09_frame_encode(bodies):
    name = "c09_frame_encode"
    hits = _find(bodies, r"^net::codec::<impl at [^>]*>::encode$", r"SyncCodec")
    mx = _max_size()
    if len(hits) != 1 or mx is None:
        return dict(name=name, property="C09", verdict="inconclusive", detail="encode / MAX_MESSAGE_SIZE not found (%d)" % len(hits), functions=[])
    body = hits[0]
    smt = Smt()
    for f, n in (("C_Ok", 1), ("C_Err", 1), ("C_Continue", 1), ("C_Break", 1), ("C_tuple2", 2), ("C_region", 2), ("discr", 1), ("conv", 1)):
        smt.fun(f, n)
    for c in ("CODEC", "BUF", "ALLMUT", "MSG", "SIZE", "PERR", "ERR", "UNIT", "WRITTEN"):
        smt.decls.append("(declare-const %s V)" % c)
    smt.decls.append("(declare-const L0 Int)")
    smt.decls.append("(declare-const written Bool)")
    buf = _Buf(smt)

    def cur(env):
        return env.get("__len", "L0")

    def m_len(ex, v, env):
        return buf.val(cur(env))
    m_len.wants_env = True

    def m_put_u32(ex, v, env):
        env["__header"] = env.get("__header", ()) + ((cur(env), v[1]),)
        env["__len"] = "(+ %s 4)" % cur(env)
        return "UNIT"
    m_put_u32.wants_env = True

    def m_resize(ex, v, env):
        env["__resized"] = env.get("__resized", ()) + ((cur(env), "(toint %s)" % v[1]),)
        env["__len"] = "(toint %s)" % v[1]
        return "UNIT"
    m_resize.wants_env = True

    def m_index_mut(ex, v, env):
        a = split_sexpr_args(v[1])
        if "RangeFrom" not in v[1].split(" ")[0] or v[0] != "ALLMUT":
            raise ValueError("index_mut with %s" % v[1][:40])
        return "(C_region %s %s)" % (buf.val("(toint %s)" % a[0]), buf.val(cur(env)))
    m_index_mut.wants_env = True

    def m_to_slice(ex, v, env):
        env["__body"] = env.get("__body", ()) + ((v[0], v[1]),)
        return [("written", "(C_Ok WRITTEN)"), ("(not written)", "(C_Err PERR)")]
    m_to_slice.wants_env = True

    def m_branch(ex, v):
        x = v[0]
        if x.startswith("(C_Ok "):
            return "(C_Continue %s)" % split_sexpr_args(x)[0]
        if x.startswith("(C_Err "):
            return "(C_Break %s)" % x
        raise ValueError("branch of %s" % x[:60])

    def m_other(ex, v, env):
        env["__othermut"] = env.get("__othermut", ()) + (1,)
        return "UNIT"
    m_other.wants_env = True

    models = {
        r"as (std::default::)?Default>::default$": lambda ex, v: "UNIT",
        r"^(postcard::)?serialize_with_flavor::<": lambda ex, v: "(C_Ok SIZE)",
        r"^Result::<usize, postcard::Error>::unwrap$": lambda ex, v: split_sexpr_args(v[0])[0],
        r"anyhow::__private::not(::<.*>)?$": lambda ex, v: "(b2v (not %s))" % mk_v2b(v[0]),
        r"^<u32 as TryFrom<usize>>::try_from$": lambda ex, v: "(C_Ok %s)" % v[0],
        r"^Result::<u32, TryFromIntError>::expect$": lambda ex, v: split_sexpr_args(v[0])[0],
        r"^<BytesMut as BufMut>::put_u32$": m_put_u32,
        r"^BytesMut::len$": m_len,
        r"^BytesMut::resize$": m_resize,
        r"^<BytesMut as DerefMut>::deref_mut$": lambda ex, v: "ALLMUT",
        r"^<\[u8\] as IndexMut<.*>>::index_mut$": m_index_mut,
        r"^(postcard::)?to_slice::<": m_to_slice,
        r"^BytesMut::(clear|truncate|split|split_to|split_off|reserve|extend_from_slice)$|^<BytesMut as BufMut>::put\w*$": m_other,
        r" as Try>::branch$": m_branch,
        r" as FromResidual<.*>>::from_residual$": lambda ex, v: "(C_Err (conv %s))" % v[0],
        r"new_display::<|Arguments::<'_>::new::<|^format$|^must_use::<|anyhow::error::<impl anyhow::Error>::msg::<": lambda ex, v: "ERR",
    }
    from stdmodels import AssertTracking

    class DecExec(AssertTracking, Exec2):
        pass
    ex = DecExec(bodies, smt, models=models, int_ops=True, max_paths=400)
    _int_rvalue_patch(ex, buf, flags=True)
    kmax = ex._konst("net__codec__MAX_MESSAGE_SIZE")
    smt.asserts.append("(= (toint %s) %d)" % (kmax, mx))
    smt.asserts.append("(>= L0 0)")
    if __import__("os").environ.get("VERIF_C09_EMPTY_DST"):
        smt.asserts.append("(= L0 0)")  # development: the pre-fix behaviour is right for an empty destination
    smt.asserts.append("(>= (toint SIZE) 0)")
    try:
        paths = ex.run(body, ["CODEC", "MSG", "BUF"], feasibility=False)
    except (ValueError, AssertionError, KeyError, IndexError, RecursionError) as e:
        return dict(name=name, property="C09", verdict="inconclusive", detail="%r" % e, functions=[body.name])
    problems, nq, ncases = [], 0, 0
    M = "(toint SIZE)"
    for pc, ret, calls, env in paths:
        pcs = "(and true %s)" % " ".join(pc)
        nq += 1
        v, _ = solve(smt.script(pcs))
        if v == "unsat":
            continue
        ncases += 1
        tag = "path=%s" % [c[:60] for c in pc][:4]

        def implied(formula):
            nonlocal nq
            nq += 1
            v2, _ = solve(smt.script("(and %s (not %s))" % (pcs, formula)))
            return v2

        if ret.startswith("(C_Err"):
            continue
        if env.get("__othermut"):
            problems.append(("encode only appends a header, sizes the buffer and writes the body", "sat", tag))
            continue
        hdr, bodyw = env.get("__header", ()), env.get("__body", ())
        if len(hdr) != 1 or len(bodyw) != 1 or not bodyw[0][1].startswith("(C_region "):
            problems.append(("a frame is one header and one body", "sat", tag + " header=%d body=%d" % (len(hdr), len(bodyw))))
            continue
        rlo, rhi = split_sexpr_args(bodyw[0][1])
        final = env.get("__len", "L0")
        spec = "(and (<= %s %d) (= %s L0) (= (toint %s) %s) (= (toint %s) (+ L0 4)) (>= (toint %s) (+ L0 4 %s)) (= %s (+ L0 4 %s)))" % (
            M, mx, hdr[0][0], hdr[0][1], M, rlo, rhi, M, final, M)
        v = implied(spec)
        if v != "unsat":
            problems.append(("a frame is appended to whatever the destination buffer already holds: header at [L0, L0+4), body at [L0+4, L0+4+M), nothing below L0 is overwritten (frames can be encoded back to back)", v, tag))
    problems.sort(key=lambda p: p[1] == "inconclusive")  # a confirmed problem names the check
    return dict(name=name, property="C09", verdict=_verdict(problems), detail="feasible paths=%d; problems: %s" % (ncases, problems[:3] or "none"),
                functions=[body.name, "bytes::BytesMut::{put_u32,len,resize}, slice indexing, postcard::{serialize_with_flavor,to_slice} (modelled: integer lengths / symbolic verdict)"],
                queries=nq, cases=ncases, witness="c09frame",
                check_message=(problems[0][0] if problems else "frames are encoded exactly"))


QUERIES_C09 = [q_c09_frame_decode, q_c09_frame_encode]
