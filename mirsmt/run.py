#!/usr/bin/env python3
"""usage: run.py <MIR file> <property>  -> JSON list of query results on stdout"""
import json
import os
import sys
import time

sys.path.insert(0, os.path.dirname(os.path.abspath(__file__)))
import mirsmt  # noqa
import queries  # noqa


def main():
    mir, prop = sys.argv[1], sys.argv[2]
    t = time.time()
    bodies = mirsmt.parse_mir(mir)
    out = []
    for q in queries.QUERIES.get(prop, []):
        t1 = time.time()
        r = q(bodies)
        r["solver_time_s"] = round(time.time() - t1, 2)
        out.append(r)
    print(json.dumps({"bodies": len(bodies), "parse_s": round(time.time() - t, 1), "results": out}))


if __name__ == "__main__":
    main()
